(* TreeProofs.v — the ordered-tree model of the document API (Model/Tree.v): locality of mutations.
   Part 1: find / update lemmas; Part 2: the well-formedness invariant is preserved by every operation;
   Part 3: frame theorems; Part 4: copies are deep and independent; Part 5: to_jv of other documents. *)
From Coq Require Import NArith ZArith List Lia Bool.
From AJ Require Import Model.Base Model.FloatModel Model.Value Model.JsonParse Model.Tree.
Import ListNotations.
Local Open Scope N_scope.

(* ------------------------------------------------------------------------------------------ *)
(* Uniform view of a node: identity, content, list of children                                  *)
(* ------------------------------------------------------------------------------------------ *)

Definition children (c : content) : list node :=
  match c with CArr l => l | CObj l => map snd l | _ => [] end.

Definition map_children (g : node -> node) (c : content) : content :=
  match c with
  | CArr l => CArr (map g l)
  | CObj l => CObj (map (fun kv => (fst kv, g (snd kv))) l)
  | _ => c
  end.

(* lookup in a forest, leftmost document first *)
Fixpoint findl (i : N) (l : list node) : option content :=
  match l with
  | [] => None
  | x :: t => match find i x with Some r => Some r | None => findl i t end
  end.

Definition idsl (l : list node) : list N := flat_map ids l.
Definition cids (c : content) : list N := idsl (children c).

Section NodeInd.
  Variable P : node -> Prop.
  Hypothesis H : forall i c, Forall P (children c) -> P (Node i c).
  Fixpoint node_ind2 (n : node) : P n :=
    match n with
    | Node i c =>
        H i c
          (match c return Forall P (children c) with
           | CArr l =>
               (fix go (l : list node) : Forall P l :=
                  match l with
                  | [] => Forall_nil _
                  | x :: t => Forall_cons _ (node_ind2 x) (go t)
                  end) l
           | CObj l =>
               (fix go (l : list (bytes * node)) : Forall P (map snd l) :=
                  match l with
                  | [] => Forall_nil _
                  | kv :: t => Forall_cons _ (node_ind2 (snd kv)) (go t)
                  end) l
           | _ => Forall_nil _
           end)
    end.
End NodeInd.

Lemma flat_map_snd : forall (l : list (bytes * node)),
  flat_map (fun kv => ids (snd kv)) l = flat_map ids (map snd l).
Proof. induction l as [|kv t IH]; cbn [flat_map map]; [reflexivity|]. now rewrite IH. Qed.

Lemma ids_eq : forall j c, ids (Node j c) = j :: cids c.
Proof.
  intros j c. unfold cids, idsl. destruct c; cbn [ids children flat_map]; try reflexivity.
  now rewrite flat_map_snd.
Qed.

Lemma find_eq : forall i j c,
  find i (Node j c) = if i =? j then Some c else findl i (children c).
Proof.
  intros i j c. cbn [find]. destruct (i =? j); [reflexivity|].
  destruct c; cbn [children findl]; try reflexivity.
  - induction l as [|x t IH]; cbn [findl]; [reflexivity|]. destruct (find i x); [reflexivity|exact IH].
  - induction l as [|kv t IH]; cbn [findl map]; [reflexivity|]. destruct (find i (snd kv)); [reflexivity|exact IH].
Qed.

Lemma update_eq : forall i f j c,
  update i f (Node j c) = if i =? j then Node j (f c) else Node j (map_children (update i f) c).
Proof.
  intros i f j c. cbn [update]. destruct (i =? j); [reflexivity|].
  destruct c; reflexivity.
Qed.

Lemma children_map_children : forall g c, children (map_children g c) = map g (children c).
Proof.
  intros g c. destruct c; cbn [children map_children map]; try reflexivity.
  rewrite !map_map. reflexivity.
Qed.

Lemma map_children_id : forall g c,
  map g (children c) = children c -> map_children g c = c.
Proof.
  intros g c. destruct c; cbn [children map_children]; intro E; try reflexivity.
  - now rewrite E.
  - f_equal. induction l as [|kv t IH]; [reflexivity|].
    cbn [map] in *. injection E as E1 E2. rewrite (IH E2). destruct kv as [k v]. cbn [fst snd] in *. now rewrite E1.
Qed.

Lemma idsl_app : forall a b, idsl (a ++ b) = idsl a ++ idsl b.
Proof. intros. unfold idsl. apply flat_map_app. Qed.

Lemma idsl_cons : forall x t, idsl (x :: t) = ids x ++ idsl t.
Proof. reflexivity. Qed.

Lemma node_forest_ind (P : node -> Prop) (Q : list node -> Prop) :
  Q [] -> (forall x t, P x -> Q t -> Q (x :: t)) -> (forall i c, Q (children c) -> P (Node i c)) ->
  (forall n, P n) /\ (forall l, Q l).
Proof.
  intros Hnil Hcons Hnode.
  assert (FQ : forall l, Forall P l -> Q l) by (induction 1; auto).
  assert (HP : forall n, P n).
  { apply node_ind2. intros i c HF. apply Hnode, FQ, HF. }
  split; [exact HP|]. intro l. apply FQ. apply Forall_forall. intros; apply HP.
Qed.

(* ------------------------------------------------------------------------------------------ *)
(* NoDup helpers                                                                                *)
(* ------------------------------------------------------------------------------------------ *)

Lemma NoDup_app_inv : forall (a b : list N),
  NoDup (a ++ b) -> NoDup a /\ NoDup b /\ (forall x, In x a -> In x b -> False).
Proof.
  induction a as [|y a IH]; intros b H.
  - cbn in H. repeat split; [constructor|exact H|intros x []].
  - cbn in H. inversion H as [|? ? Hn Hd]; subst.
    destruct (IH _ Hd) as (Ha & Hb & Hab).
    repeat split.
    + constructor; [|exact Ha]. intro Hi. apply Hn. apply in_or_app. now left.
    + exact Hb.
    + intros x [->|Hx] Hxb.
      * apply Hn. apply in_or_app. now right.
      * eapply Hab; eauto.
Qed.

Lemma NoDup_app_intro : forall (a b : list N),
  NoDup a -> NoDup b -> (forall x, In x a -> In x b -> False) -> NoDup (a ++ b).
Proof.
  induction a as [|y a IH]; intros b Ha Hb Hab; [exact Hb|].
  cbn. inversion Ha as [|? ? Hn Hd]; subst. constructor.
  - intro Hi. apply in_app_or in Hi. destruct Hi as [Hi|Hi]; [now apply Hn|].
    apply (Hab y); [now left|exact Hi].
  - apply IH; auto. intros x Hx. apply Hab. now right.
Qed.

(* ------------------------------------------------------------------------------------------ *)
(* Part 1 — find / update                                                                       *)
(* ------------------------------------------------------------------------------------------ *)

Lemma find_none_both : forall i,
  (forall n, find i n = None <-> ~ In i (ids n)) /\ (forall l, findl i l = None <-> ~ In i (idsl l)).
Proof.
  intro i. apply node_forest_ind.
  - cbn. tauto.
  - intros x t Hx Ht. cbn [findl]. rewrite idsl_cons, in_app_iff.
    destruct (find i x) eqn:E.
    + split; [discriminate|]. intro H. exfalso.
      destruct (in_dec N.eq_dec i (ids x)) as [Hi|Hi]; [tauto|].
      apply Hx in Hi. discriminate.
    + assert (~ In i (ids x)) by (apply Hx; reflexivity). tauto.
  - intros j c Hc. rewrite find_eq, ids_eq. cbn [In].
    destruct (i =? j) eqn:E.
    + apply N.eqb_eq in E. split; [discriminate|]. intro H; exfalso; apply H; now left.
    + apply N.eqb_neq in E. unfold cids. rewrite Hc. split; intro H.
      * intros [Hj|Hj]; [congruence|tauto].
      * tauto.
Qed.

Lemma find_none_iff : forall i n, find i n = None <-> ~ In i (ids n).
Proof. intro i. apply find_none_both. Qed.
Lemma findl_none_iff : forall i l, findl i l = None <-> ~ In i (idsl l).
Proof. intro i. apply find_none_both. Qed.

Lemma find_some_in : forall i n c, find i n = Some c -> In i (ids n).
Proof.
  intros i n c H. destruct (in_dec N.eq_dec i (ids n)) as [Hi|Hi]; [exact Hi|].
  apply find_none_iff in Hi. congruence.
Qed.
Lemma findl_some_in : forall i l c, findl i l = Some c -> In i (idsl l).
Proof.
  intros i l c H. destruct (in_dec N.eq_dec i (idsl l)) as [Hi|Hi]; [exact Hi|].
  apply findl_none_iff in Hi. congruence.
Qed.
Lemma in_find_some : forall i n, In i (ids n) -> exists c, find i n = Some c.
Proof.
  intros i n H. destruct (find i n) eqn:E; [eauto|]. apply find_none_iff in E. tauto.
Qed.
Lemma in_findl_some : forall i l, In i (idsl l) -> exists c, findl i l = Some c.
Proof.
  intros i l H. destruct (findl i l) eqn:E; [eauto|]. apply findl_none_iff in E. tauto.
Qed.

Lemma update_not_in_both : forall i f,
  (forall n, ~ In i (ids n) -> update i f n = n) /\
  (forall l, ~ In i (idsl l) -> map (update i f) l = l).
Proof.
  intros i f. apply node_forest_ind.
  - reflexivity.
  - intros x t Hx Ht H. rewrite idsl_cons, in_app_iff in H. cbn [map].
    rewrite Hx, Ht by tauto. reflexivity.
  - intros j c Hc H. rewrite ids_eq in H. cbn [In] in H. rewrite update_eq.
    destruct (i =? j) eqn:E.
    + apply N.eqb_eq in E. exfalso. apply H. left. congruence.
    + f_equal. apply map_children_id. apply Hc. unfold cids in H. tauto.
Qed.

Lemma update_not_in : forall i f n, ~ In i (ids n) -> update i f n = n.
Proof. intros i f. apply update_not_in_both. Qed.
Lemma updatel_not_in : forall i f l, ~ In i (idsl l) -> map (update i f) l = l.
Proof. intros i f. apply update_not_in_both. Qed.

(* the subtree found at i lies inside the tree *)
Lemma find_sub_both : forall i c,
  (forall n, find i n = Some c -> incl (i :: cids c) (ids n)) /\
  (forall l, findl i l = Some c -> incl (i :: cids c) (idsl l)).
Proof.
  intros i c. apply node_forest_ind.
  - discriminate.
  - intros x t Hx Ht H. cbn [findl] in H. rewrite idsl_cons.
    destruct (find i x) eqn:E.
    + injection H as ->. apply incl_appl. now apply Hx.
    + apply incl_appr. now apply Ht.
  - intros j c0 Hc H. rewrite find_eq in H. rewrite ids_eq.
    destruct (i =? j) eqn:E.
    + apply N.eqb_eq in E. injection H as ->. subst j. apply incl_refl.
    + apply incl_tl. apply Hc, H.
Qed.

Lemma find_sub : forall i c n, find i n = Some c -> incl (i :: cids c) (ids n).
Proof. intros i c. apply find_sub_both. Qed.
Lemma findl_sub : forall i c l, findl i l = Some c -> incl (i :: cids c) (idsl l).
Proof. intros i c. apply find_sub_both. Qed.

(* find after update at the same identity *)
Lemma find_update_same_both : forall i f c,
  (forall n, find i n = Some c -> find i (update i f n) = Some (f c)) /\
  (forall l, findl i l = Some c -> findl i (map (update i f) l) = Some (f c)).
Proof.
  intros i f c. apply node_forest_ind.
  - discriminate.
  - intros x t Hx Ht H. cbn [findl map] in *.
    destruct (find i x) eqn:E.
    + injection H as ->. now rewrite (Hx eq_refl).
    + rewrite update_not_in by (now apply find_none_iff). rewrite E. auto.
  - intros j c0 Hc H. rewrite find_eq in H. rewrite update_eq.
    destruct (i =? j) eqn:E.
    + injection H as ->. rewrite find_eq, E. reflexivity.
    + rewrite find_eq, E, children_map_children. auto.
Qed.

Lemma find_update_same : forall i f n,
  find i (update i f n) = option_map f (find i n).
Proof.
  intros i f n. destruct (find i n) as [c|] eqn:E; cbn [option_map].
  - now apply find_update_same_both.
  - rewrite update_not_in by (now apply find_none_iff). exact E.
Qed.
Lemma findl_update_same : forall i f l,
  findl i (map (update i f) l) = option_map f (findl i l).
Proof.
  intros i f l. destruct (findl i l) as [c|] eqn:E; cbn [option_map].
  - now apply find_update_same_both.
  - rewrite updatel_not_in by (now apply findl_none_iff). exact E.
Qed.

(* the subtree below i is a contiguous segment of the pre-order listing of identities, and update at i
   replaces exactly that segment *)
Lemma ids_update_split_both : forall i c,
  (forall n, NoDup (ids n) -> find i n = Some c ->
     exists A B, ids n = A ++ i :: cids c ++ B /\
                 forall f, ids (update i f n) = A ++ i :: cids (f c) ++ B) /\
  (forall l, NoDup (idsl l) -> findl i l = Some c ->
     exists A B, idsl l = A ++ i :: cids c ++ B /\
                 forall f, idsl (map (update i f) l) = A ++ i :: cids (f c) ++ B).
Proof.
  intros i c. apply node_forest_ind.
  - discriminate.
  - intros x t Hx Ht ND H. cbn [findl] in H. rewrite idsl_cons in ND.
    destruct (NoDup_app_inv _ _ ND) as (NDx & NDt & Hdisj).
    destruct (find i x) eqn:E.
    + injection H as ->. destruct (Hx NDx eq_refl) as (A & B & E1 & E2).
      exists A, (B ++ idsl t). split.
      * rewrite idsl_cons, E1. rewrite <- app_assoc. cbn [app]. now rewrite <- app_assoc.
      * intro f. cbn [map]. rewrite idsl_cons, E2.
        rewrite updatel_not_in.
        -- rewrite <- app_assoc. cbn [app]. now rewrite <- app_assoc.
        -- intro Hi. apply (Hdisj i); [|exact Hi]. eapply find_some_in; eauto.
    + destruct (Ht NDt H) as (A & B & E1 & E2).
      exists (ids x ++ A), B. split.
      * rewrite idsl_cons, E1. now rewrite <- app_assoc.
      * intro f. cbn [map]. rewrite idsl_cons, E2.
        rewrite update_not_in by (now apply find_none_iff). now rewrite <- app_assoc.
  - intros j c0 Hc ND H. rewrite find_eq in H. rewrite ids_eq in ND.
    destruct (i =? j) eqn:E.
    + apply N.eqb_eq in E. injection H as ->. subst j.
      exists [], []. split.
      * rewrite ids_eq. cbn [app]. now rewrite app_nil_r.
      * intro f. rewrite update_eq, N.eqb_refl, ids_eq. cbn [app]. now rewrite app_nil_r.
    + inversion ND as [|? ? Hn ND']; subst.
      destruct (Hc ND' H) as (A & B & E1 & E2).
      exists (j :: A), B. split.
      * rewrite ids_eq. unfold cids at 1. rewrite E1. reflexivity.
      * intro f. rewrite update_eq, E, ids_eq. unfold cids at 1.
        rewrite children_map_children, E2. reflexivity.
Qed.

Lemma idsl_update_split : forall i c l, NoDup (idsl l) -> findl i l = Some c ->
  exists A B, idsl l = A ++ i :: cids c ++ B /\
              forall f, idsl (map (update i f) l) = A ++ i :: cids (f c) ++ B.
Proof. intros i c. apply ids_update_split_both. Qed.

Lemma in_split_not : forall (A B X : list N) (i j : N),
  ~ In j (A ++ i :: X ++ B) -> ~ In j A /\ j <> i /\ ~ In j B.
Proof.
  intros A B X i j H. repeat split; intro K; apply H; rewrite in_app_iff; cbn [In]; rewrite in_app_iff; auto.
Qed.

(* identities of an updated forest: old ones or ones of the new content *)
Lemma idsl_update_in : forall e f l j, NoDup (idsl l) ->
  In j (idsl (map (update e f) l)) ->
  In j (idsl l) \/ exists ce, findl e l = Some ce /\ In j (cids (f ce)).
Proof.
  intros e f l j ND H. destruct (findl e l) as [ce|] eqn:E.
  - destruct (idsl_update_split _ _ _ ND E) as (A & B & E1 & E2).
    rewrite E2 in H. rewrite E1. rewrite in_app_iff in *. cbn [In] in *. rewrite in_app_iff in *.
    destruct H as [H|[H|[H|H]]]; auto. right. eauto.
  - rewrite updatel_not_in in H by (now apply findl_none_iff). now left.
Qed.

(* Frame: an update at e, somewhere in the subtree of r, does not change what is found at j when j is
   outside the subtree of r, r is not below j, and j is not among the identities introduced by the update *)
Lemma find_update_frame_both : forall r cr e f j,
  In e (r :: cids cr) -> ~ In j (r :: cids cr) ->
  (forall n, NoDup (ids n) -> find r n = Some cr ->
     (forall ce, find e n = Some ce -> ~ In j (cids (f ce))) ->
     (forall cj, find j n = Some cj -> ~ In r (cids cj)) ->
     find j (update e f n) = find j n) /\
  (forall l, NoDup (idsl l) -> findl r l = Some cr ->
     (forall ce, findl e l = Some ce -> ~ In j (cids (f ce))) ->
     (forall cj, findl j l = Some cj -> ~ In r (cids cj)) ->
     findl j (map (update e f) l) = findl j l).
Proof.
  intros r cr e f j He Hj. apply node_forest_ind.
  - discriminate.
  - intros x t Hx Ht ND Hr Hnew Hanc. cbn [findl map] in *. rewrite idsl_cons in ND.
    destruct (NoDup_app_inv _ _ ND) as (NDx & NDt & Hdisj).
    destruct (find r x) eqn:Er.
    + injection Hr as ->.
      assert (Hex : In e (ids x)) by (eapply find_sub; eauto).
      destruct (in_find_some _ _ Hex) as (ce & Ece). rewrite Ece in Hnew.
      rewrite updatel_not_in by (intro K; eapply Hdisj; eauto).
      rewrite Hx; auto.
      * intros ce' Ece'. apply Hnew. congruence.
      * intros cj Ecj. apply Hanc. now rewrite Ecj.
    + assert (Het : In e (idsl t)) by (eapply findl_sub; eauto).
      assert (Hex : ~ In e (ids x)) by (intro K; eapply Hdisj; eauto).
      rewrite update_not_in by exact Hex.
      destruct (find j x) eqn:Ej; [reflexivity|].
      apply find_none_iff in Hex. rewrite Hex in Hnew. auto.
  - intros k c0 Hc ND Hr Hnew Hanc. rewrite find_eq in Hr.
    destruct (r =? k) eqn:Erk.
    + (* r is the root of this tree: j is not in it at all *)
      apply N.eqb_eq in Erk. injection Hr as ->. subst k.
      rewrite <- ids_eq in Hj, He.
      assert (E0 : find j (Node r cr) = None) by (now apply find_none_iff).
      rewrite E0. apply find_none_iff.
      destruct (in_find_some _ _ He) as (ce & Ece).
      destruct (proj1 (ids_update_split_both e ce) _ ND Ece) as (A & B & E1 & E2).
      rewrite E2. rewrite E1 in Hj. apply in_split_not in Hj. destruct Hj as (HA & Hne & HB).
      rewrite in_app_iff. cbn [In]. rewrite in_app_iff.
      specialize (Hnew _ Ece). intros [K|[K|[K|K]]]; auto.
    + rewrite ids_eq in ND. inversion ND as [|? ? Hn ND']; subst.
      assert (Hrc : incl (r :: cids cr) (cids c0)) by (eapply findl_sub; eauto).
      destruct (j =? k) eqn:Ejk.
      * apply N.eqb_eq in Ejk. subst k. exfalso.
        apply (Hanc c0); [rewrite find_eq, N.eqb_refl; reflexivity|].
        apply Hrc. now left.
      * assert (Eek : (e =? k) = false).
        { apply N.eqb_neq. intros ->. apply Hn. now apply Hrc. }
        rewrite update_eq, Eek, !find_eq, Ejk, children_map_children.
        rewrite find_eq, Eek in Hnew. rewrite find_eq, Ejk in Hanc. auto.
Qed.

Lemma findl_update_frame : forall r cr e f j l,
  NoDup (idsl l) -> findl r l = Some cr ->
  In e (r :: cids cr) -> ~ In j (r :: cids cr) ->
  (forall ce, findl e l = Some ce -> ~ In j (cids (f ce))) ->
  (forall cj, findl j l = Some cj -> ~ In r (cids cj)) ->
  findl j (map (update e f) l) = findl j l.
Proof. intros r cr e f j l ND Hr He Hj. now apply find_update_frame_both with (cr := cr). Qed.

(* the content found at a is the root of the search for everything below a *)
Lemma find_descend_both : forall a ca b,
  In b (cids ca) ->
  (forall n, NoDup (ids n) -> find a n = Some ca -> find b n = findl b (children ca)) /\
  (forall l, NoDup (idsl l) -> findl a l = Some ca -> findl b l = findl b (children ca)).
Proof.
  intros a ca b Hb. apply node_forest_ind.
  - discriminate.
  - intros x t Hx Ht ND Ha. cbn [findl] in *. rewrite idsl_cons in ND.
    destruct (NoDup_app_inv _ _ ND) as (NDx & NDt & Hdisj).
    destruct (find a x) eqn:Ea.
    + injection Ha as ->. rewrite (Hx NDx eq_refl).
      destruct (in_findl_some _ _ Hb) as (cb & Ecb). now rewrite Ecb.
    + assert (Hbt : In b (idsl t)) by (eapply findl_sub; eauto; now right).
      assert (Hbx : ~ In b (ids x)) by (intro K; eapply Hdisj; eauto).
      apply find_none_iff in Hbx. rewrite Hbx. auto.
  - intros k c0 Hc ND Ha. rewrite find_eq in Ha. rewrite ids_eq in ND.
    inversion ND as [|? ? Hn ND']; subst.
    destruct (a =? k) eqn:Eak.
    + injection Ha as ->. rewrite find_eq.
      assert (Ebk : (b =? k) = false) by (apply N.eqb_neq; intros ->; now apply Hn).
      now rewrite Ebk.
    + assert (Hbc : In b (cids c0)) by (eapply findl_sub; eauto; now right).
      assert (Ebk : (b =? k) = false) by (apply N.eqb_neq; intros ->; now apply Hn).
      rewrite find_eq, Ebk. auto.
Qed.

Lemma findl_descend : forall a ca b l,
  NoDup (idsl l) -> findl a l = Some ca -> In b (cids ca) -> findl b l = findl b (children ca).
Proof. intros a ca b l ND Ha Hb. now apply (find_descend_both a ca b Hb). Qed.

Lemma findl_cids_nodup : forall r c l, NoDup (idsl l) -> findl r l = Some c ->
  NoDup (cids c) /\ ~ In r (cids c).
Proof.
  intros r c l ND H. destruct (idsl_update_split _ _ _ ND H) as (A & B & E1 & _).
  rewrite E1 in ND. apply NoDup_app_inv in ND. destruct ND as (_ & ND & _).
  inversion ND as [|? ? Hn ND']; subst. apply NoDup_app_inv in ND'. split; [tauto|].
  intro K. apply Hn. apply in_or_app. now left.
Qed.

(* below-ness is transitive and has no cycles *)
Lemma findl_below_incl : forall a ca b cb l,
  NoDup (idsl l) -> findl a l = Some ca -> In b (cids ca) -> findl b l = Some cb ->
  incl (b :: cids cb) (cids ca).
Proof.
  intros a ca b cb l ND Ha Hb Hcb. rewrite (findl_descend _ _ _ _ ND Ha Hb) in Hcb.
  now apply findl_sub.
Qed.

Lemma findl_no_cycle : forall a ca b cb l,
  NoDup (idsl l) -> findl a l = Some ca -> findl b l = Some cb ->
  In b (cids ca) -> In a (cids cb) -> False.
Proof.
  intros a ca b cb l ND Ha Hcb Hb Hab.
  destruct (findl_cids_nodup _ _ _ ND Ha) as (_ & Hn). apply Hn.
  eapply findl_below_incl; eauto. now right.
Qed.

(* ------------------------------------------------------------------------------------------ *)
(* Worlds                                                                                       *)
(* ------------------------------------------------------------------------------------------ *)

Definition wff (l : list node) (nx : N) : Prop :=
  NoDup (idsl l) /\ forall x, In x (idsl l) -> x < nx.

Definition wfw (w : world) : Prop :=
  NoDup (flat_map ids (docs w)) /\ (forall i, In i (flat_map ids (docs w)) -> i < next_id w).

Lemma wfw_wff : forall w, wfw w <-> wff (docs w) (next_id w).
Proof. intro w. reflexivity. Qed.

Lemma get_eq : forall w i, get w i = findl i (docs w).
Proof.
  intros w i. unfold get. induction (docs w) as [|d t IH]; cbn [findl]; [reflexivity|].
  destruct (find i d); [reflexivity|exact IH].
Qed.

Lemma mem_iff : forall i l, mem i l = true <-> In i l.
Proof.
  intros i l. unfold mem. rewrite existsb_exists. split.
  - intros (x & Hx & E). apply N.eqb_eq in E. now subst.
  - intro H. exists i. split; [exact H|apply N.eqb_refl].
Qed.

Lemma live_iff : forall w i, live w i = true <-> In i (idsl (docs w)).
Proof.
  intros w i. unfold live, doc_of. generalize 0%nat.
  induction (docs w) as [|d t IH]; intro k.
  - cbn. split; [discriminate|tauto].
  - rewrite idsl_cons, in_app_iff. destruct (mem i (ids d)) eqn:E.
    + apply mem_iff in E. tauto.
    + rewrite IH. assert (~ In i (ids d)) by (rewrite <- mem_iff; congruence). tauto.
Qed.

Lemma live_get : forall w i, live w i = true <-> exists c, get w i = Some c.
Proof.
  intros w i. rewrite live_iff. split.
  - intro H. destruct (in_findl_some _ _ H) as (c & E). exists c. now rewrite get_eq.
  - intros (c & E). rewrite get_eq in E. eapply findl_some_in; eauto.
Qed.

Lemma NoDup_replace : forall (A B X Y : list N) (i : N),
  NoDup (A ++ i :: Y ++ B) -> NoDup X ->
  (forall x, In x X -> In x Y \/ ~ In x (A ++ i :: Y ++ B)) ->
  NoDup (A ++ i :: X ++ B).
Proof.
  intros A B X Y i ND NDX HX.
  assert (HX' : forall x, In x X -> In x Y \/ (~ In x A /\ x <> i /\ ~ In x B)).
  { intros x Hx. destruct (HX x Hx) as [K|K]; [now left|right]. eapply in_split_not; eauto. }
  clear HX.
  destruct (NoDup_app_inv _ _ ND) as (NDA & NDr & D1).
  inversion NDr as [|? ? Hn NDYB]; subst.
  destruct (NoDup_app_inv _ _ NDYB) as (NDY & NDB & D2).
  apply NoDup_app_intro; [exact NDA| |].
  - constructor.
    + intro K. apply in_app_or in K. destruct K as [K|K].
      * destruct (HX' _ K) as [K'|(_ & K' & _)]; [|congruence].
        apply Hn. apply in_or_app. now left.
      * apply Hn. apply in_or_app. now right.
    + apply NoDup_app_intro; [exact NDX|exact NDB|].
      intros x Hx HB. destruct (HX' _ Hx) as [K'|(_ & _ & K')]; [|tauto]. eapply D2; eauto.
  - intros x HA [Ei|K].
    + apply (D1 x HA). now left.
    + apply in_app_or in K. destruct K as [K|K].
      * destruct (HX' _ K) as [K'|(K' & _ & _)]; [|tauto].
        apply (D1 x HA). right. apply in_or_app. now left.
      * apply (D1 x HA). right. apply in_or_app. now right.
Qed.

(* generic preservation of well-formedness by one update *)
Lemma upd_wff_gen : forall l nx i f nx',
  wff l nx -> nx <= nx' ->
  (forall c, findl i l = Some c ->
     NoDup (cids (f c)) /\
     forall x, In x (cids (f c)) -> x < nx' /\ (In x (cids c) \/ ~ In x (idsl l))) ->
  wff (map (update i f) l) nx'.
Proof.
  intros l nx i f nx' (ND & Hlt) Hle Hf.
  destruct (findl i l) as [c|] eqn:E.
  - destruct (Hf c eq_refl) as (NDX & HX).
    destruct (idsl_update_split _ _ _ ND E) as (A & B & E1 & E2).
    split.
    + rewrite E2. rewrite E1 in ND. eapply NoDup_replace; eauto.
      intros x Hx. rewrite <- E1. now apply HX.
    + intros x Hx. rewrite E2 in Hx.
      assert (K : In x (idsl l) \/ In x (cids (f c))).
      { rewrite E1. rewrite in_app_iff in *. cbn [In] in *. rewrite in_app_iff in *. tauto. }
      destruct K as [K|K]; [apply Hlt in K; lia|now apply HX].
  - rewrite updatel_not_in by (now apply findl_none_iff).
    split; [exact ND|]. intros x Hx. apply Hlt in Hx. lia.
Qed.

(* ------------------------------------------------------------------------------------------ *)
(* Helper facts about the pieces used by step                                                   *)
(* ------------------------------------------------------------------------------------------ *)

Lemma cids_scalar : forall x, cids (content_of_scalar x) = [].
Proof.
  intro x. destruct x; try reflexivity. cbn [content_of_scalar].
  destruct (jv_of_double true f); reflexivity.
Qed.

Lemma node_id_in_ids : forall x, In (node_id x) (ids x).
Proof. intros [i c]. rewrite ids_eq. now left. Qed.

Lemma pad_to_spec : forall i l nx l' e nx',
  pad_to l i nx = (l', e, nx') ->
  nx <= nx' /\ In e (idsl l') /\
  exists F, idsl l' = idsl l ++ F /\ NoDup F /\ forall x, In x F -> nx <= x < nx'.
Proof.
  induction i as [|i IH]; intros l nx l' e nx' H.
  - destruct l as [|x t]; cbn [pad_to] in H.
    + injection H as <- <- <-. split; [lia|]. split; [cbn; now left|].
      exists [nx]. split; [reflexivity|]. split.
      * constructor; [intros []|constructor].
      * intros x [<-|[]]. lia.
    + injection H as <- <- <-. split; [lia|]. split.
      * rewrite idsl_cons. apply in_or_app. left. apply node_id_in_ids.
      * exists []. split; [now rewrite app_nil_r|]. split; [constructor|intros ? []].
  - destruct l as [|x t]; cbn [pad_to] in H.
    + destruct (pad_to [] i (nx + 1)) as [[t' r0] nx0] eqn:E. injection H as <- <- <-.
      destruct (IH _ _ _ _ _ E) as (Hle & He & F & EF & NDF & HF).
      split; [lia|]. split; [rewrite idsl_cons; apply in_or_app; now right|].
      exists (nx :: F). split.
      * rewrite idsl_cons, EF. reflexivity.
      * split.
        -- constructor; [|exact NDF]. intro K. apply HF in K. lia.
        -- intros y [<-|K]; [lia|]. apply HF in K. lia.
    + destruct (pad_to t i nx) as [[t' r0] nx0] eqn:E. injection H as <- <- <-.
      destruct (IH _ _ _ _ _ E) as (Hle & He & F & EF & NDF & HF).
      split; [lia|]. split; [rewrite idsl_cons; apply in_or_app; now right|].
      exists F. split; [|now split].
      rewrite !idsl_cons, EF. now rewrite app_assoc.
Qed.

Lemma remove_nth_ids : forall l i,
  NoDup (idsl l) -> NoDup (idsl (remove_nth l i)) /\ incl (idsl (remove_nth l i)) (idsl l).
Proof.
  induction l as [|x t IH]; intros i ND.
  - destruct i; cbn; split; auto using incl_refl.
  - rewrite idsl_cons in ND. destruct (NoDup_app_inv _ _ ND) as (NDx & NDt & D).
    destruct i as [|i]; cbn [remove_nth].
    + split; [exact NDt|]. rewrite idsl_cons. apply incl_appr, incl_refl.
    + destruct (IH i NDt) as (ND' & Hincl). rewrite !idsl_cons. split.
      * apply NoDup_app_intro; auto. intros y Hy Hy'. eapply D; eauto.
      * apply incl_app; [apply incl_appl, incl_refl|apply incl_appr, Hincl].
Qed.

Lemma remove_key_ids : forall l k,
  NoDup (idsl (map snd l)) ->
  NoDup (idsl (map snd (remove_key l k))) /\ incl (idsl (map snd (remove_key l k))) (idsl (map snd l)).
Proof.
  induction l as [|[k' v] t IH]; intros k ND.
  - cbn. split; auto using incl_refl.
  - cbn [map snd] in ND. rewrite idsl_cons in ND. destruct (NoDup_app_inv _ _ ND) as (NDx & NDt & D).
    cbn [remove_key]. destruct (bytes_eqb k k').
    + split; [exact NDt|]. cbn [map snd]. rewrite idsl_cons. apply incl_appr, incl_refl.
    + destruct (IH k NDt) as (ND' & Hincl). cbn [map snd]. rewrite !idsl_cons. split.
      * apply NoDup_app_intro; auto. intros y Hy Hy'. eapply D; eauto.
      * apply incl_app; [apply incl_appl, incl_refl|apply incl_appr, Hincl].
Qed.

Lemma member_id_in : forall l k e, member_id l k = Some e -> In e (idsl (map snd l)).
Proof.
  induction l as [|[k' v] t IH]; intros k e H; [discriminate|].
  cbn [member_id] in H. cbn [map snd]. rewrite idsl_cons. apply in_or_app.
  destruct (bytes_eqb k k').
  - injection H as <-. left. apply node_id_in_ids.
  - right. eapply IH; eauto.
Qed.

(* ---- copy_jv ---- *)

Section JvInd.
  Variable P : jv -> Prop.
  Hypothesis Hnull : P JNull.
  Hypothesis Hbool : forall b, P (JBool b).
  Hypothesis Hint : forall z, P (JInt z).
  Hypothesis Hfloat : forall f, P (JFloat f).
  Hypothesis Hdouble : forall f, P (JDouble f).
  Hypothesis Hstr : forall s, P (JStr s).
  Hypothesis Hraw : forall s, P (JRaw s).
  Hypothesis Harr : forall l, Forall P l -> P (JArr l).
  Hypothesis Hobj : forall l, Forall P (map snd l) -> P (JObj l).
  Fixpoint jv_ind2 (v : jv) : P v :=
    match v with
    | JNull => Hnull | JBool b => Hbool b | JInt z => Hint z | JFloat f => Hfloat f
    | JDouble f => Hdouble f | JStr s => Hstr s | JRaw s => Hraw s
    | JArr l =>
        Harr l ((fix go (l : list jv) : Forall P l :=
                   match l with [] => Forall_nil _ | x :: t => Forall_cons _ (jv_ind2 x) (go t) end) l)
    | JObj l =>
        Hobj l ((fix go (l : list (bytes * jv)) : Forall P (map snd l) :=
                   match l with [] => Forall_nil _ | kv :: t => Forall_cons _ (jv_ind2 (snd kv)) (go t) end) l)
    end.
End JvInd.

Fixpoint copy_list (l : list jv) (nx : N) : list node * N :=
  match l with
  | [] => ([], nx)
  | x :: t => let '(x', nx) := copy_jv x nx in let '(t', nx) := copy_list t nx in (x' :: t', nx)
  end.

Fixpoint copy_olist (l : list (bytes * jv)) (nx : N) : list (bytes * node) * N :=
  match l with
  | [] => ([], nx)
  | (k, x) :: t => let '(x', nx) := copy_jv x nx in let '(t', nx) := copy_olist t nx in ((k, x') :: t', nx)
  end.

Lemma copy_jv_arr : forall l next,
  copy_jv (JArr l) next = let '(l', nx) := copy_list l (next + 1) in (Node next (CArr l'), nx).
Proof. reflexivity. Qed.

Lemma copy_jv_obj : forall l next,
  copy_jv (JObj l) next = let '(l', nx) := copy_olist l (next + 1) in (Node next (CObj l'), nx).
Proof. reflexivity. Qed.

Definition copy_ok (v : jv) : Prop :=
  forall nx n nx', copy_jv v nx = (n, nx') ->
    nx < nx' /\ node_id n = nx /\ NoDup (ids n) /\ (forall x, In x (ids n) -> nx <= x < nx') /\ to_jv n = v.

Lemma copy_list_ok : forall l, Forall copy_ok l ->
  forall nx l' nx', copy_list l nx = (l', nx') ->
    nx <= nx' /\ NoDup (idsl l') /\ (forall x, In x (idsl l') -> nx <= x < nx') /\ map to_jv l' = l.
Proof.
  induction 1 as [|v t Hv Ht IH]; intros nx l' nx' H; cbn [copy_list] in H.
  - injection H as <- <-. split; [lia|]. split; [cbn; constructor|]. split; [intros ? []|reflexivity].
  - destruct (copy_jv v nx) as [x' n1] eqn:E1. destruct (copy_list t n1) as [t' n2] eqn:E2.
    injection H as <- <-.
    destruct (Hv _ _ _ E1) as (L1 & _ & ND1 & R1 & T1).
    destruct (IH _ _ _ E2) as (L2 & ND2 & R2 & T2).
    split; [lia|]. rewrite idsl_cons. split; [|split].
    + apply NoDup_app_intro; auto. intros y Hy Hy'. apply R1 in Hy. apply R2 in Hy'. lia.
    + intros y Hy. apply in_app_or in Hy. destruct Hy as [Hy|Hy]; [apply R1 in Hy|apply R2 in Hy]; lia.
    + cbn [map]. now rewrite T1, T2.
Qed.

Lemma copy_olist_ok : forall l, Forall copy_ok (map snd l) ->
  forall nx l' nx', copy_olist l nx = (l', nx') ->
    nx <= nx' /\ NoDup (idsl (map snd l')) /\ (forall x, In x (idsl (map snd l')) -> nx <= x < nx') /\
    map (fun kv => (fst kv, to_jv (snd kv))) l' = l.
Proof.
  induction l as [|[k v] t IH]; intros HF nx l' nx' H; cbn [copy_olist] in H.
  - injection H as <- <-. split; [lia|]. split; [cbn; constructor|]. split; [intros ? []|reflexivity].
  - cbn [map snd] in HF. inversion HF as [|? ? Hv Ht]; subst.
    destruct (copy_jv v nx) as [x' n1] eqn:E1. destruct (copy_olist t n1) as [t' n2] eqn:E2.
    injection H as <- <-.
    destruct (Hv _ _ _ E1) as (L1 & _ & ND1 & R1 & T1).
    destruct (IH Ht _ _ _ E2) as (L2 & ND2 & R2 & T2).
    split; [lia|]. cbn [map snd fst]. rewrite idsl_cons. split; [|split].
    + apply NoDup_app_intro; auto. intros y Hy Hy'. apply R1 in Hy. apply R2 in Hy'. lia.
    + intros y Hy. apply in_app_or in Hy. destruct Hy as [Hy|Hy]; [apply R1 in Hy|apply R2 in Hy]; lia.
    + now rewrite T1, T2.
Qed.

Lemma copy_jv_ok : forall v, copy_ok v.
Proof.
  apply jv_ind2; try (intros; intros nx n nx' H; cbn [copy_jv] in H; injection H as <- <-;
    cbn [ids node_id to_jv]; repeat split; try lia;
    [constructor; [intros []|constructor] | destruct H as [<-|[]]; lia | destruct H as [<-|[]]; lia]).
  - intros l HF nx n nx' H. rewrite copy_jv_arr in H.
    destruct (copy_list l (nx + 1)) as [l' n1] eqn:E. injection H as <- <-.
    destruct (copy_list_ok _ HF _ _ _ E) as (L & ND & R & T).
    split; [lia|]. split; [reflexivity|]. rewrite ids_eq. unfold cids. cbn [children].
    split; [|split].
    + constructor; [|exact ND]. intro K. apply R in K. lia.
    + intros y [<-|K]; [lia|]. apply R in K. lia.
    + cbn [to_jv]. now rewrite T.
  - intros l HF nx n nx' H. rewrite copy_jv_obj in H.
    destruct (copy_olist l (nx + 1)) as [l' n1] eqn:E. injection H as <- <-.
    destruct (copy_olist_ok _ HF _ _ _ E) as (L & ND & R & T).
    split; [lia|]. split; [reflexivity|]. rewrite ids_eq. unfold cids. cbn [children].
    split; [|split].
    + constructor; [|exact ND]. intro K. apply R in K. lia.
    + intros y [<-|K]; [lia|]. apply R in K. lia.
    + cbn [to_jv]. now rewrite T.
Qed.

(* the identities of a fresh copy are exactly the interval [next, next') and are pairwise distinct *)
Lemma copy_jv_ids : forall v nx n nx', copy_jv v nx = (n, nx') ->
  nx < nx' /\ NoDup (ids n) /\ forall x, In x (ids n) -> nx <= x < nx'.
Proof. intros v nx n nx' H. destruct (copy_jv_ok v _ _ _ H) as (A & _ & B & C & _). auto. Qed.

Lemma copy_jv_to_jv : forall v nx, to_jv (fst (copy_jv v nx)) = v.
Proof.
  intros v nx. destruct (copy_jv v nx) as [n nx'] eqn:E.
  now destruct (copy_jv_ok v _ _ _ E) as (_ & _ & _ & _ & T).
Qed.

Lemma copy_content_spec : forall w v c' w1, copy_content w v = (c', w1) ->
  docs w1 = docs w /\ next_id w < next_id w1 /\ NoDup (cids c') /\
  (forall x, In x (cids c') -> next_id w < x < next_id w1) /\
  (forall i, to_jv (Node i c') = v).
Proof.
  intros w v c' w1 H. unfold copy_content in H.
  destruct (copy_jv v (next_id w)) as [n nx] eqn:E. injection H as <- <-.
  destruct (copy_jv_ok v _ _ _ E) as (L & Hid & ND & R & T).
  destruct n as [i0 c0]. cbn [node_content node_id docs next_id] in *. subst i0.
  rewrite ids_eq in ND, R. inversion ND as [|? ? Hn ND']; subst.
  split; [reflexivity|]. split; [exact L|]. split; [exact ND'|]. split.
  - intros x Hx. assert (x <> next_id w) by (intros ->; tauto).
    specialize (R x (or_intror Hx)). lia.
  - intro i. reflexivity.
Qed.

(* ------------------------------------------------------------------------------------------ *)
(* Local updates: one replacement of the content of a slot e lying in the subtree of r, whose     *)
(* new children are old children of e or identities taken from the fresh supply [nx, nx')       *)
(* ------------------------------------------------------------------------------------------ *)

Definition good_upd (l : list node) (nx : N) (r : N) (l' : list node) (nx' : N) : Prop :=
  nx <= nx' /\
  (l' = l \/
   exists cr e c', findl r l = Some cr /\ In e (r :: cids cr) /\
     l' = map (update e (fun _ => c')) l /\ NoDup (cids c') /\
     forall ce x, findl e l = Some ce -> In x (cids c') -> In x (cids ce) \/ (nx <= x < nx')).

Lemma inside_cids_incl : forall l r cr e ce,
  NoDup (idsl l) -> findl r l = Some cr -> In e (r :: cids cr) -> findl e l = Some ce ->
  incl (cids ce) (cids cr).
Proof.
  intros l r cr e ce ND Hr [<-|He] Hce.
  - assert (ce = cr) by congruence. subst. apply incl_refl.
  - intros x Hx. eapply findl_below_incl; eauto. now right.
Qed.

Lemma good_upd_wff : forall l nx r l' nx', wff l nx -> good_upd l nx r l' nx' -> wff l' nx'.
Proof.
  intros l nx r l' nx' W (Hle & [->|(cr & e & c' & Hr & He & -> & NDc & Hnew)]).
  - destruct W as (ND & Hlt). split; [exact ND|]. intros x Hx. apply Hlt in Hx. lia.
  - eapply upd_wff_gen; eauto. intros ce Hce. split; [exact NDc|].
    intros x Hx. destruct W as (ND & Hlt). destruct (Hnew _ _ Hce Hx) as [K|K].
    + split; [|now left]. assert (In x (idsl l)) by (eapply findl_sub; eauto; now right).
      apply Hlt in H. lia.
    + split; [lia|]. right. intro K'. apply Hlt in K'. lia.
Qed.

Lemma good_upd_frame : forall l nx r l' nx' j cj,
  wff l nx -> good_upd l nx r l' nx' ->
  findl j l = Some cj ->
  (forall cr, findl r l = Some cr -> ~ In j (r :: cids cr)) ->
  ~ In r (cids cj) ->
  findl j l' = Some cj.
Proof.
  intros l nx r l' nx' j cj (ND & Hlt) (Hle & [->|(cr & e & c' & Hr & He & -> & NDc & Hnew)]) Hj Hout Hanc.
  - exact Hj.
  - rewrite <- Hj. apply (findl_update_frame r cr e _ j l ND Hr He (Hout _ Hr)).
    + intros ce Hce K. destruct (Hnew _ _ Hce K) as [K'|K'].
      * apply (Hout _ Hr). right. apply (inside_cids_incl l r cr e ce ND Hr He Hce). exact K'.
      * assert (In j (idsl l)) by (eapply findl_some_in; eauto). apply Hlt in H. lia.
    + intros cj' Hcj'. congruence.
Qed.

(* whatever is not strictly below r survives *)
Lemma good_upd_live : forall l nx r l' nx' j,
  wff l nx -> good_upd l nx r l' nx' ->
  In j (idsl l) ->
  (forall cr, findl r l = Some cr -> ~ In j (cids cr)) ->
  In j (idsl l').
Proof.
  intros l nx r l' nx' j (ND & Hlt) (Hle & [->|(cr & e & c' & Hr & He & -> & NDc & Hnew)]) Hj Hout.
  - exact Hj.
  - assert (Hel : In e (idsl l)) by (eapply findl_sub; eauto).
    destruct (in_findl_some _ _ Hel) as (ce & Hce).
    destruct (idsl_update_split _ _ _ ND Hce) as (A & B & E1 & E2).
    rewrite E2. rewrite E1 in Hj. rewrite in_app_iff in *. cbn [In] in *. rewrite in_app_iff in *.
    destruct Hj as [K|[K|[K|K]]]; auto.
    exfalso. apply (Hout _ Hr). apply (inside_cids_incl l r cr e ce ND Hr He Hce). exact K.
Qed.

Lemma good_refl : forall l nx r nx', nx <= nx' -> good_upd l nx r l nx'.
Proof. intros. split; [assumption|now left]. Qed.

Lemma good_direct : forall l nx r nx' c',
  nx <= nx' ->
  (forall cr, findl r l = Some cr ->
     NoDup (cids c') /\ forall x, In x (cids c') -> In x (cids cr) \/ (nx <= x < nx')) ->
  good_upd l nx r (map (update r (fun _ => c')) l) nx'.
Proof.
  intros l nx r nx' c' Hle H. split; [exact Hle|].
  destruct (findl r l) as [cr|] eqn:E.
  - right. destruct (H cr eq_refl) as (NDc & Hnew). exists cr, r, c'.
    split; [reflexivity|]. split; [now left|]. split; [reflexivity|]. split; [exact NDc|].
    intros ce x Hce. assert (ce = cr) by congruence. subst. apply Hnew.
  - left. apply updatel_not_in. now apply findl_none_iff.
Qed.

Lemma good_setter : forall l nx r c', cids c' = [] ->
  good_upd l nx r (map (update r (fun _ => c')) l) nx.
Proof.
  intros l nx r c' E. apply good_direct; [lia|]. intros cr _. rewrite E. split; [constructor|intros ? []].
Qed.

Lemma good_extend : forall l nx r cr nx' c' F,
  wff l nx -> findl r l = Some cr -> nx <= nx' ->
  cids c' = cids cr ++ F -> NoDup F -> (forall x, In x F -> nx <= x < nx') ->
  good_upd l nx r (map (update r (fun _ => c')) l) nx'.
Proof.
  intros l nx r cr nx' c' F (ND & Hlt) Hr Hle E NDF HF. apply good_direct; [exact Hle|].
  intros cr' Hr'. assert (cr' = cr) by congruence. subst cr'. rewrite E. split.
  - apply NoDup_app_intro; [now apply (findl_cids_nodup _ _ _ ND Hr)|exact NDF|].
    intros x Hx HxF. apply HF in HxF.
    assert (In x (idsl l)) by (eapply findl_sub; eauto; now right). apply Hlt in H. lia.
  - intros x Hx. apply in_app_or in Hx. destruct Hx; auto.
Qed.

Lemma good_shrink : forall l nx r cr c',
  findl r l = Some cr -> NoDup (cids c') -> incl (cids c') (cids cr) ->
  good_upd l nx r (map (update r (fun _ => c')) l) nx.
Proof.
  intros l nx r cr c' Hr NDc Hincl. apply good_direct; [lia|].
  intros cr' Hr'. assert (cr' = cr) by congruence. subst cr'. split; [exact NDc|].
  intros x Hx. left. now apply Hincl.
Qed.

Lemma good_fresh : forall l nx r nx' c',
  nx <= nx' -> NoDup (cids c') -> (forall x, In x (cids c') -> nx <= x < nx') ->
  good_upd l nx r (map (update r (fun _ => c')) l) nx'.
Proof.
  intros l nx r nx' c' Hle NDc HF. apply good_direct; [exact Hle|]. intros cr _. split; auto.
Qed.

Lemma good_child : forall l nx r cr e c',
  findl r l = Some cr -> In e (cids cr) -> cids c' = [] ->
  good_upd l nx r (map (update e (fun _ => c')) l) nx.
Proof.
  intros l nx r cr e c' Hr He E. split; [lia|]. right. exists cr, e, c'.
  split; [exact Hr|]. split; [now right|]. split; [reflexivity|]. rewrite E.
  split; [constructor|intros ? ? _ []].
Qed.

(* at most two local updates in a row; between them the subtree of r only contains old members of
   that subtree or fresh identities *)
Definition good2 (l : list node) (nx : N) (r : N) (l2 : list node) (nx2 : N) : Prop :=
  exists l1 nx1,
    good_upd l nx r l1 nx1 /\ good_upd l1 nx1 r l2 nx2 /\
    (forall cr1 x, findl r l1 = Some cr1 -> In x (cids cr1) ->
       (exists cr, findl r l = Some cr /\ In x (cids cr)) \/ nx <= x).

Lemma good2_single : forall l nx r l' nx', good_upd l nx r l' nx' -> good2 l nx r l' nx'.
Proof.
  intros l nx r l' nx' H. exists l, nx. split; [apply good_refl; lia|]. split; [exact H|].
  intros cr1 x Hr Hx. left. eauto.
Qed.

Lemma good2_wff : forall l nx r l' nx', wff l nx -> good2 l nx r l' nx' -> wff l' nx'.
Proof.
  intros l nx r l' nx' W (l1 & nx1 & G1 & G2 & _). eapply good_upd_wff; [|exact G2]. eapply good_upd_wff; eauto.
Qed.

Lemma good2_frame : forall l nx r l' nx' j cj,
  wff l nx -> good2 l nx r l' nx' ->
  findl j l = Some cj ->
  (forall cr, findl r l = Some cr -> ~ In j (r :: cids cr)) ->
  ~ In r (j :: cids cj) ->
  findl j l' = Some cj.
Proof.
  intros l nx r l' nx' j cj W (l1 & nx1 & G1 & G2 & Hmid) Hj Hout Hanc.
  assert (Hjr : j <> r) by (intros ->; apply Hanc; now left).
  assert (Hanc' : ~ In r (cids cj)) by (intro K; apply Hanc; now right).
  assert (W1 : wff l1 nx1) by (eapply good_upd_wff; eauto).
  assert (Hj1 : findl j l1 = Some cj) by (exact (good_upd_frame l nx r l1 nx1 j cj W G1 Hj Hout Hanc')).
  apply (good_upd_frame l1 nx1 r l' nx' j cj W1 G2 Hj1); [|exact Hanc'].
  intros cr1 Hr1 [K|K]; [congruence|].
  destruct (Hmid _ _ Hr1 K) as [(cr & Hr & K')|K'].
  - apply (Hout _ Hr). now right.
  - destruct W as (_ & Hlt). assert (In j (idsl l)) by (eapply findl_some_in; eauto).
    apply Hlt in H. lia.
Qed.

Lemma good2_live : forall l nx r l' nx' j,
  wff l nx -> good2 l nx r l' nx' ->
  In j (idsl l) ->
  (forall cr, findl r l = Some cr -> ~ In j (cids cr)) ->
  In j (idsl l').
Proof.
  intros l nx r l' nx' j W (l1 & nx1 & G1 & G2 & Hmid) Hj Hout.
  assert (W1 : wff l1 nx1) by (eapply good_upd_wff; eauto).
  assert (Hj1 : In j (idsl l1)) by (exact (good_upd_live l nx r l1 nx1 j W G1 Hj Hout)).
  apply (good_upd_live l1 nx1 r l' nx' j W1 G2 Hj1).
  intros cr1 Hr1 K.
  destruct (Hmid _ _ Hr1 K) as [(cr & Hr & K')|K'].
  - now apply (Hout _ Hr).
  - destruct W as (_ & Hlt). apply Hlt in Hj. lia.
Qed.

(* ------------------------------------------------------------------------------------------ *)
(* The shape of every targeted operation                                                        *)
(* ------------------------------------------------------------------------------------------ *)

Definition targets (o : op) : option N :=
  match o with
  | OSet r _ | OToArr r | OToObj r | OClear r | OAddNew r | OAddVal r _
  | OMakeElem r _ | OSetElem r _ _ | OMakeMember r _ | OSetMember r _ _
  | ORemoveIdx r _ | ORemoveKey r _ | OAssign r _ | ODeser r _ => Some r
  | _ => None
  end.

Lemma elem_shape : forall l nx r cr i lp e nx' c2,
  wff l nx -> findl r l = Some cr -> pad_to (children cr) i nx = (lp, e, nx') -> cids c2 = [] ->
  good2 l nx r (map (update e (fun _ => c2)) (map (update r (fun _ => CArr lp)) l)) nx'.
Proof.
  intros l nx r cr i lp e nx' c2 W Hr Hp E2.
  destruct (pad_to_spec _ _ _ _ _ _ Hp) as (Hle & He & F & EF & NDF & HF).
  exists (map (update r (fun _ => CArr lp)) l), nx'. split; [|split].
  - apply (good_extend l nx r cr nx' (CArr lp) F W Hr Hle EF NDF HF).
  - apply (good_child _ nx' r (CArr lp) e c2); [|exact He|exact E2].
    rewrite findl_update_same, Hr. reflexivity.
  - intros cr1 x Hr1 Hx. rewrite findl_update_same, Hr in Hr1. cbn [option_map] in Hr1.
    injection Hr1 as <-. unfold cids in Hx. cbn [children] in Hx. rewrite EF in Hx.
    apply in_app_or in Hx. destruct Hx as [Hx|Hx].
    + left. exists cr. split; [exact Hr|exact Hx].
    + right. apply HF in Hx. lia.
Qed.

Lemma append_shape : forall l nx r cr c',
  wff l nx -> findl r l = Some cr -> cids c' = cids cr ++ [nx] ->
  good2 l nx r (map (update r (fun _ => c')) l) (nx + 1).
Proof.
  intros l nx r cr c' W Hr E. apply good2_single.
  apply (good_extend l nx r cr (nx + 1) c' [nx] W Hr); [lia|exact E| |].
  - constructor; [intros []|constructor].
  - intros x [<-|[]]. lia.
Qed.

Lemma copy_shape : forall w v c' w1 r,
  copy_content w v = (c', w1) ->
  good2 (docs w) (next_id w) r (map (update r (fun _ => c')) (docs w1)) (next_id w1).
Proof.
  intros w v c' w1 r H. destruct (copy_content_spec _ _ _ _ H) as (Ed & Hlt & NDc & HF & _).
  rewrite Ed. apply good2_single. apply good_fresh; [lia|exact NDc|].
  intros x Hx. apply HF in Hx. lia.
Qed.

Lemma step_shape : forall w o w' res r,
  wfw w -> targets o = Some r -> step w o = (w', res) ->
  good2 (docs w) (next_id w) r (docs w') (next_id w').
Proof.
  intros w o w' res r W T H. apply wfw_wff in W.
  destruct o; cbn [targets] in T; try discriminate; injection T as ->; cbn [step] in H.
  - (* OSet *) injection H as <- <-. apply good2_single, good_setter, cids_scalar.
  - (* OToArr *) injection H as <- <-. apply good2_single, good_setter. reflexivity.
  - (* OToObj *) injection H as <- <-. apply good2_single, good_setter. reflexivity.
  - (* OClear *) injection H as <- <-. apply good2_single, good_setter. reflexivity.
  - (* OAddNew *)
    destruct (get w r) as [c|] eqn:G; [rewrite get_eq in G; destruct c|];
      try (injection H as <- <-; apply good2_single, good_refl; lia).
    + cbn [fresh] in H. injection H as <- <-. cbn [set_content upd docs next_id].
      apply (append_shape _ _ _ _ _ W G). reflexivity.
    + cbn [fresh] in H. injection H as <- <-. cbn [set_content upd docs next_id].
      apply (append_shape _ _ _ _ _ W G). unfold cids. cbn [children]. rewrite idsl_app. reflexivity.
  - (* OAddVal *)
    destruct (get w r) as [c|] eqn:G; [rewrite get_eq in G; destruct c|];
      try (injection H as <- <-; apply good2_single, good_refl; lia).
    + cbn [fresh] in H. injection H as <- <-. cbn [set_content upd docs next_id].
      apply (append_shape _ _ _ _ _ W G). unfold cids. cbn [children idsl flat_map app].
      rewrite ids_eq, cids_scalar. reflexivity.
    + cbn [fresh] in H. injection H as <- <-. cbn [set_content upd docs next_id].
      apply (append_shape _ _ _ _ _ W G). unfold cids. cbn [children]. rewrite idsl_app.
      cbn [idsl flat_map app]. rewrite ids_eq, cids_scalar. reflexivity.
  - (* OMakeElem *)
    destruct (get w r) as [c|] eqn:G; [rewrite get_eq in G; destruct c|];
      try (injection H as <- <-; apply good2_single, good_refl; lia).
    + destruct (pad_to [] i (next_id w)) as [[lp e] nx'] eqn:Hp. injection H as <- <-.
      cbn [set_content upd docs next_id].
      apply (elem_shape _ _ _ CNull i lp e nx' _ W G Hp). reflexivity.
    + destruct (pad_to l i (next_id w)) as [[lp e] nx'] eqn:Hp. injection H as <- <-.
      cbn [set_content upd docs next_id].
      apply (elem_shape _ _ _ (CArr l) i lp e nx' _ W G Hp). reflexivity.
  - (* OSetElem *)
    destruct (get w r) as [c|] eqn:G; [rewrite get_eq in G; destruct c|];
      try (injection H as <- <-; apply good2_single, good_refl; lia).
    + destruct (pad_to [] i (next_id w)) as [[lp e] nx'] eqn:Hp. injection H as <- <-.
      cbn [set_content upd docs next_id].
      apply (elem_shape _ _ _ CNull i lp e nx' _ W G Hp). apply cids_scalar.
    + destruct (pad_to l i (next_id w)) as [[lp e] nx'] eqn:Hp. injection H as <- <-.
      cbn [set_content upd docs next_id].
      apply (elem_shape _ _ _ (CArr l) i lp e nx' _ W G Hp). apply cids_scalar.
  - (* OMakeMember *)
    destruct (get w r) as [c|] eqn:G; [rewrite get_eq in G; destruct c|];
      try (injection H as <- <-; apply good2_single, good_refl; lia).
    + cbn [member_id fresh] in H. injection H as <- <-. cbn [set_content upd docs next_id].
      apply (append_shape _ _ _ _ _ W G). reflexivity.
    + destruct (member_id l k) as [e|] eqn:M.
      * injection H as <- <-. cbn [set_content upd docs next_id]. apply good2_single.
        apply (good_child _ _ r (CObj l) e CNull G); [|reflexivity].
        apply (member_id_in _ _ _ M).
      * cbn [fresh] in H. injection H as <- <-. cbn [set_content upd docs next_id].
        apply (append_shape _ _ _ _ _ W G). unfold cids. cbn [children].
        rewrite map_app, idsl_app. reflexivity.
  - (* OSetMember *)
    destruct (get w r) as [c|] eqn:G; [rewrite get_eq in G; destruct c|];
      try (injection H as <- <-; apply good2_single, good_refl; lia).
    + cbn [member_id fresh] in H. injection H as <- <-. cbn [set_content upd docs next_id].
      apply (append_shape _ _ _ _ _ W G). unfold cids. cbn [children app map snd idsl flat_map].
      rewrite ids_eq, cids_scalar. reflexivity.
    + destruct (member_id l k) as [e|] eqn:M.
      * injection H as <- <-. cbn [set_content upd docs next_id]. apply good2_single.
        apply (good_child _ _ r (CObj l) e _ G); [|apply cids_scalar].
        apply (member_id_in _ _ _ M).
      * cbn [fresh] in H. injection H as <- <-. cbn [set_content upd docs next_id].
        apply (append_shape _ _ _ _ _ W G). unfold cids. cbn [children].
        rewrite map_app, idsl_app. cbn [map snd idsl flat_map app].
        rewrite ids_eq, cids_scalar. reflexivity.
  - (* ORemoveIdx *)
    destruct (get w r) as [c|] eqn:G; [rewrite get_eq in G; destruct c|];
      try (injection H as <- <-; apply good2_single, good_refl; lia).
    injection H as <- <-. cbn [set_content upd docs next_id]. apply good2_single.
    destruct W as (ND & _). destruct (findl_cids_nodup _ _ _ ND G) as (NDc & _).
    destruct (remove_nth_ids l i NDc) as (ND' & Hincl).
    apply (good_shrink _ _ r (CArr l) _ G); assumption.
  - (* ORemoveKey *)
    destruct (get w r) as [c|] eqn:G; [rewrite get_eq in G; destruct c|];
      try (injection H as <- <-; apply good2_single, good_refl; lia).
    injection H as <- <-. cbn [set_content upd docs next_id]. apply good2_single.
    destruct W as (ND & _). destruct (findl_cids_nodup _ _ _ ND G) as (NDc & _).
    destruct (remove_key_ids l k NDc) as (ND' & Hincl).
    apply (good_shrink _ _ r (CObj l) _ G); assumption.
  - (* OAssign *)
    destruct (get w src) as [c|] eqn:G.
    + destruct (copy_content w (normalize_copy (to_jv (Node 0 c)))) as [c' w1] eqn:C.
      injection H as <- <-. cbn [set_content upd docs next_id]. eapply copy_shape; eauto.
    + injection H as <- <-. apply good2_single, good_refl; lia.
  - (* ODeser *)
    destruct (copy_content w (j_doc (json_run default_cfg None 10 text))) as [c' w1] eqn:C.
    injection H as <- <-. cbn [set_content upd docs next_id]. eapply copy_shape; eauto.
Qed.

(* ------------------------------------------------------------------------------------------ *)
(* Part 2 — the invariant is preserved by every operation                                       *)
(* ------------------------------------------------------------------------------------------ *)

Lemma upd_removed : forall l i c f x,
  NoDup (idsl l) -> findl i l = Some c -> In x (cids c) -> ~ In x (cids (f c)) ->
  ~ In x (idsl (map (update i f) l)).
Proof.
  intros l i c f x ND Hi Hx Hnx.
  destruct (idsl_update_split _ _ _ ND Hi) as (A & B & E1 & E2).
  rewrite E2. rewrite E1 in ND.
  destruct (NoDup_app_inv _ _ ND) as (_ & NDr & D1).
  inversion NDr as [|? ? Hn NDYB]; subst.
  destruct (NoDup_app_inv _ _ NDYB) as (_ & _ & D2).
  rewrite in_app_iff. cbn [In]. rewrite in_app_iff. intros [K|[K|[K|K]]].
  - apply (D1 x K). right. apply in_or_app. now left.
  - subst x. apply Hn. apply in_or_app. now left.
  - tauto.
  - eapply D2; eauto.
Qed.

Lemma root_find : forall l i c, NoDup (idsl l) -> In (Node i c) l -> findl i l = Some c.
Proof.
  induction l as [|x t IH]; intros i c ND Hin; [destruct Hin|]. destruct Hin as [->|Hin].
  - cbn [findl]. now rewrite find_eq, N.eqb_refl.
  - rewrite idsl_cons in ND. destruct (NoDup_app_inv _ _ ND) as (_ & NDt & D).
    cbn [findl]. assert (Hit : In i (idsl t)).
    { unfold idsl. apply in_flat_map. exists (Node i c). split; [exact Hin|]. rewrite ids_eq. now left. }
    assert (Hx : ~ In i (ids x)) by (intro K; eapply D; eauto).
    apply find_none_iff in Hx. rewrite Hx. now apply IH.
Qed.

Lemma root_not_child : forall l j cj i ci,
  NoDup (idsl l) -> In (Node j cj) l -> findl i l = Some ci -> ~ In j (cids ci).
Proof.
  induction l as [|x t IH]; intros j cj i ci ND Hin Hi Hj; [destruct Hin|]. destruct Hin as [->|Hin].
  - cbn [findl] in Hi. rewrite idsl_cons in ND. destruct (NoDup_app_inv _ _ ND) as (NDx & _ & D).
    rewrite ids_eq in NDx. inversion NDx as [|? ? Hn _]; subst.
    destruct (find i (Node j cj)) as [c|] eqn:E.
    + injection Hi as ->. rewrite find_eq in E. destruct (i =? j).
      * injection E as ->. tauto.
      * apply Hn. eapply findl_sub; eauto. now right.
    + apply (D j).
      * rewrite ids_eq. now left.
      * eapply findl_sub; eauto. now right.
  - cbn [findl] in Hi. rewrite idsl_cons in ND. destruct (NoDup_app_inv _ _ ND) as (_ & NDt & D).
    assert (Hjt : In j (idsl t)).
    { unfold idsl. apply in_flat_map. exists (Node j cj). split; [exact Hin|]. rewrite ids_eq. now left. }
    destruct (find i x) as [c|] eqn:E.
    + injection Hi as ->. apply (D j); [|exact Hjt]. eapply find_sub; eauto. now right.
    + eapply IH; eauto.
Qed.

Lemma swap_wff : forall l nx i ci j cj,
  wff l nx -> In (Node i ci) l -> In (Node j cj) l ->
  wff (map (update i (fun _ => cj)) (map (update j (fun _ => ci)) (map (update i (fun _ => CNull)) l))) nx.
Proof.
  intros l nx i ci j cj W Ii Ij. pose proof W as (ND & Hlt).
  pose proof (root_find _ _ _ ND Ii) as Hi. pose proof (root_find _ _ _ ND Ij) as Hj.
  destruct (findl_cids_nodup _ _ _ ND Hi) as (NDci & Hici).
  destruct (findl_cids_nodup _ _ _ ND Hj) as (NDcj & Hjcj).
  set (l1 := map (update i (fun _ => CNull)) l).
  assert (G1 : good_upd l nx i l1 nx) by (apply good_setter; reflexivity).
  assert (W1 : wff l1 nx) by (eapply good_upd_wff; eauto).
  assert (Hi1 : findl i l1 = Some CNull) by (unfold l1; rewrite findl_update_same, Hi; reflexivity).
  assert (Hrem1 : forall x, In x (cids ci) -> ~ In x (idsl l1)).
  { intros x Hx. apply (upd_removed l i ci (fun _ => CNull) x ND Hi Hx). intros []. }
  assert (Hlt_ci : forall x, In x (cids ci) -> x < nx).
  { intros x Hx. apply Hlt. apply (findl_sub _ _ _ Hi). now right. }
  assert (Hlt_cj : forall x, In x (cids cj) -> x < nx).
  { intros x Hx. apply Hlt. apply (findl_sub _ _ _ Hj). now right. }
  destruct (N.eq_dec i j) as [->|Hij].
  - assert (ci = cj) by congruence. subst cj.
    set (l2 := map (update j (fun _ => ci)) l1).
    assert (W2 : wff l2 nx).
    { apply (upd_wff_gen l1 nx j _ nx W1); [lia|]. intros c Hc. split; [exact NDci|].
      intros x Hx. split; [now apply Hlt_ci|right; now apply Hrem1]. }
    assert (Hj2 : findl j l2 = Some ci) by (unfold l2; rewrite findl_update_same, Hi1; reflexivity).
    eapply good_upd_wff; [exact W2|]. apply (good_shrink l2 nx j ci ci Hj2 NDci). apply incl_refl.
  - assert (Hjci : ~ In j (cids ci)) by (exact (root_not_child l j cj i ci ND Ij Hi)).
    assert (Hicj : ~ In i (cids cj)) by (exact (root_not_child l i ci j cj ND Ii Hj)).
    assert (Hj1 : findl j l1 = Some cj).
    { apply (good_upd_frame l nx i l1 nx j cj W G1 Hj); [|exact Hicj].
      intros cr Hcr. assert (cr = ci) by congruence. subst cr. intros [K|K]; [congruence|tauto]. }
    set (l2 := map (update j (fun _ => ci)) l1).
    assert (W2 : wff l2 nx).
    { apply (upd_wff_gen l1 nx j _ nx W1); [lia|]. intros c Hc. split; [exact NDci|].
      intros x Hx. split; [now apply Hlt_ci|right; now apply Hrem1]. }
    destruct W1 as (ND1 & Hlt1).
    assert (Hi2 : findl i l2 = Some CNull).
    { rewrite <- Hi1. apply (findl_update_frame j cj j _ i l1 ND1 Hj1); [now left| | |].
      - intros [K|K]; [congruence|tauto].
      - intros ce _. exact Hici.
      - intros c Hc. assert (c = CNull) by congruence. subst c. intros []. }
    apply (upd_wff_gen l2 nx i _ nx W2); [lia|]. intros c Hc.
    assert (c = CNull) by congruence. subst c. split; [exact NDcj|].
    intros x Hx. split; [now apply Hlt_cj|right].
    apply (upd_removed l1 j cj (fun _ => ci) x ND1 Hj1 Hx).
    intro K. apply (Hrem1 x K). apply (findl_sub _ _ _ Hj1). now right.
Qed.

Theorem step_wfw : forall w o w' r, wfw w -> step w o = (w', r) -> wfw w'.
Proof.
  intros w o w' res W H. destruct (targets o) as [r|] eqn:T.
  - apply wfw_wff. eapply good2_wff; [apply wfw_wff; exact W|]. eapply step_shape; eauto.
  - destruct o; cbn [targets] in T; try discriminate; cbn [step] in H.
    + (* OGetElem *)
      destruct (get w r) as [[]|]; injection H as <- <-; exact W.
    + (* OGetMember *)
      destruct (get w r) as [[]|]; injection H as <- <-; exact W.
    + (* ODocClear *)
      destruct (nth_error (docs w) d) as [[i c]|] eqn:E; injection H as <- <-; [|exact W].
      apply wfw_wff. cbn [set_content upd docs next_id].
      eapply good_upd_wff; [apply wfw_wff; exact W|]. apply (good_setter _ _ i). reflexivity.
    + (* ODocCopy *)
      destruct (nth_error (docs w) d) as [[i c]|] eqn:E; [|injection H as <- <-; exact W].
      destruct (nth_error (docs w) s) as [src|] eqn:E2; [|injection H as <- <-; exact W].
      destruct (copy_content w (normalize_copy (to_jv src))) as [c' w1] eqn:C.
      injection H as <- <-. apply wfw_wff. cbn [set_content upd docs next_id].
      eapply good2_wff; [apply wfw_wff; exact W|]. apply (copy_shape _ _ _ _ i C).
    + (* ODocSwap *)
      destruct (nth_error (docs w) d) as [[i ci]|] eqn:E; [|injection H as <- <-; exact W].
      destruct (nth_error (docs w) s) as [[j cj]|] eqn:E2; [|injection H as <- <-; exact W].
      injection H as <- <-. apply wfw_wff. cbn [set_content upd docs next_id].
      apply swap_wff; [apply wfw_wff; exact W| |]; eapply nth_error_In; eauto.
    + (* ODocShrink *)
      injection H as <- <-. exact W.
Qed.

(* ------------------------------------------------------------------------------------------ *)
(* Part 5 — other documents are untouched                                                       *)
(* ------------------------------------------------------------------------------------------ *)

Definition doc_go (i : N) : nat -> list node -> option nat :=
  fix go (k : nat) (l : list node) : option nat :=
  match l with
  | [] => None
  | d :: t => if mem i (ids d) then Some k else go (S k) t
  end.

Lemma doc_of_eq : forall w i, doc_of w i = doc_go i 0 (docs w).
Proof. reflexivity. Qed.

Lemma doc_go_spec : forall i l k d, doc_go i k l = Some d ->
  exists nd, (k <= d)%nat /\ nth_error l (d - k) = Some nd /\ In i (ids nd).
Proof.
  induction l as [|a t IH]; intros k d H; cbn in H; [discriminate|].
  destruct (mem i (ids a)) eqn:M.
  - injection H as <-. exists a. rewrite Nat.sub_diag. split; [lia|]. split; [reflexivity|].
    now apply mem_iff.
  - destruct (IH _ _ H) as (nd & Hle & Hn & Hi). exists nd. split; [lia|]. split; [|exact Hi].
    replace (d - k)%nat with (S (d - S k)) by lia. exact Hn.
Qed.

Lemma doc_of_spec : forall w i d, doc_of w i = Some d ->
  exists nd, nth_error (docs w) d = Some nd /\ In i (ids nd).
Proof.
  intros w i d H. rewrite doc_of_eq in H. destruct (doc_go_spec _ _ _ _ H) as (nd & _ & Hn & Hi).
  rewrite Nat.sub_0_r in Hn. eauto.
Qed.

Lemma docs_disjoint : forall l a b x y z,
  NoDup (idsl l) -> nth_error l a = Some x -> nth_error l b = Some y -> a <> b ->
  In z (ids x) -> In z (ids y) -> False.
Proof.
  induction l as [|h t IH]; intros a b x y z ND Ha Hb Hab Hx Hy.
  - destruct a; discriminate.
  - rewrite idsl_cons in ND. destruct (NoDup_app_inv _ _ ND) as (_ & NDt & D).
    assert (Hin : forall k n, nth_error t k = Some n -> In z (ids n) -> In z (idsl t)).
    { intros k n Hk Hz. unfold idsl. apply in_flat_map. exists n. split; [eapply nth_error_In; eauto|exact Hz]. }
    destruct a as [|a], b as [|b]; cbn [nth_error] in Ha, Hb.
    + congruence.
    + injection Ha as ->. apply (D z Hx). eapply Hin; eauto.
    + injection Hb as ->. apply (D z Hy). eapply Hin; eauto.
    + eapply (IH a b); eauto.
Qed.

Lemma findl_in_doc : forall l nd r, NoDup (idsl l) -> In nd l -> In r (ids nd) -> findl r l = find r nd.
Proof.
  induction l as [|x t IH]; intros nd r ND Hin Hr; [destruct Hin|].
  rewrite idsl_cons in ND. destruct (NoDup_app_inv _ _ ND) as (_ & NDt & D).
  cbn [findl]. destruct Hin as [->|Hin].
  - destruct (in_find_some _ _ Hr) as (c & E). now rewrite E.
  - assert (Hrt : In r (idsl t)).
    { unfold idsl. apply in_flat_map. exists nd. split; assumption. }
    assert (Hx : ~ In r (ids x)) by (intro K; eapply D; eauto).
    apply find_none_iff in Hx. rewrite Hx. now apply IH.
Qed.

(* the subtree of r lies entirely in the document that contains r *)
Lemma subtree_in_doc : forall l d nd r cr x,
  NoDup (idsl l) -> nth_error l d = Some nd -> In r (ids nd) -> findl r l = Some cr ->
  In x (r :: cids cr) -> In x (ids nd).
Proof.
  intros l d nd r cr x ND Hd Hr Hcr Hx.
  rewrite (findl_in_doc l nd r ND (nth_error_In _ _ Hd) Hr) in Hcr.
  apply (find_sub _ _ _ Hcr). exact Hx.
Qed.

Theorem update_other_doc : forall w i f d k,
  wfw w -> doc_of w i = Some d -> k <> d ->
  nth_error (docs (upd w i f)) k = nth_error (docs w) k.
Proof.
  intros w i f d k (ND & _) Hd Hk. cbn [upd docs]. rewrite nth_error_map.
  destruct (nth_error (docs w) k) as [n|] eqn:E; [|reflexivity]. cbn [option_map]. f_equal.
  apply update_not_in. intro K.
  destruct (doc_of_spec _ _ _ Hd) as (nd & Hnd & Hi).
  eapply (docs_disjoint (docs w) d k); eauto.
Qed.

(* updating a slot of document d leaves `to_jv` of every other document unchanged *)
Theorem to_jv_update_other_doc : forall w i f d k,
  wfw w -> doc_of w i = Some d -> k <> d ->
  option_map to_jv (nth_error (docs (upd w i f)) k) = option_map to_jv (nth_error (docs w) k).
Proof. intros. erewrite update_other_doc; eauto. Qed.

Lemma good_upd_other : forall l nx r l' nx' k,
  good_upd l nx r l' nx' ->
  (forall n cr x, nth_error l k = Some n -> findl r l = Some cr -> In x (r :: cids cr) -> ~ In x (ids n)) ->
  nth_error l' k = nth_error l k.
Proof.
  intros l nx r l' nx' k (Hle & [->|(cr & e & c' & Hr & He & -> & NDc & Hnew)]) H; [reflexivity|].
  rewrite nth_error_map. destruct (nth_error l k) as [n|] eqn:E; [|reflexivity].
  cbn [option_map]. f_equal. apply update_not_in. eapply H; eauto.
Qed.

(* a targeted operation on a slot of document d leaves every other document (hence its to_jv) unchanged *)
Theorem step_other_doc : forall w o w' res r d k,
  wfw w -> targets o = Some r -> step w o = (w', res) ->
  doc_of w r = Some d -> k <> d ->
  nth_error (docs w') k = nth_error (docs w) k.
Proof.
  intros w o w' res r d k W T H Hd Hk.
  destruct (step_shape _ _ _ _ _ W T H) as (l1 & nx1 & G1 & G2 & Hmid).
  apply wfw_wff in W. pose proof W as (ND & Hlt).
  destruct (doc_of_spec _ _ _ Hd) as (nd & Hnd & Hi).
  assert (Hsub : forall n cr x, nth_error (docs w) k = Some n -> findl r (docs w) = Some cr ->
                   In x (r :: cids cr) -> ~ In x (ids n)).
  { intros n cr x Hn Hcr Hx K.
    apply (docs_disjoint (docs w) d k nd n x ND Hnd Hn (fun e => Hk (eq_sym e))); [|exact K].
    eapply subtree_in_doc; eauto. }
  assert (E1 : nth_error l1 k = nth_error (docs w) k) by (eapply good_upd_other; eauto).
  rewrite <- E1. eapply good_upd_other; [exact G2|].
  intros n cr1 x Hn Hcr1 Hx K. rewrite E1 in Hn.
  assert (Hxl : x < next_id w).
  { apply Hlt. unfold idsl. apply in_flat_map. exists n. split; [eapply nth_error_In; eauto|exact K]. }
  destruct (findl r (docs w)) as [cr|] eqn:Hcr.
  - destruct Hx as [<-|Hx].
    + apply (Hsub n cr r Hn eq_refl); [now left|exact K].
    + destruct (Hmid _ _ Hcr1 Hx) as [(cr' & Hcr' & Hx')|Hge]; [|lia].
      injection Hcr' as <-. apply (Hsub n cr x Hn eq_refl); [now right|exact K].
  - apply findl_none_iff in Hcr. apply Hcr. unfold idsl. apply in_flat_map.
    exists nd. split; [eapply nth_error_In; eauto|exact Hi].
Qed.

(* ------------------------------------------------------------------------------------------ *)
(* Part 3 — a mutation changes only its target                                                  *)
(* ------------------------------------------------------------------------------------------ *)

(* j is i or a descendant of i *)
Definition inside (n : node) (i j : N) : Prop :=
  exists c, find i n = Some c /\ In j (ids (Node i c)).
Definition inside_w (w : world) (i j : N) : Prop :=
  exists c, get w i = Some c /\ In j (ids (Node i c)).

Lemma inside_w_iff : forall w i j,
  inside_w w i j <-> exists c, findl i (docs w) = Some c /\ In j (i :: cids c).
Proof.
  intros w i j. unfold inside_w. split; intros (c & H1 & H2); exists c;
    rewrite get_eq, ids_eq in *; auto.
Qed.

(* Part 1, single tree, in the requested shape *)
Lemma find_update_other : forall n i j f,
  NoDup (ids n) -> ~ inside n i j -> ~ inside n j i ->
  (forall c, find i n = Some c -> ~ In j (cids (f c))) ->
  find j (update i f n) = find j n.
Proof.
  intros n i j f ND Hij Hji Hnew. destruct (find i n) as [ci|] eqn:Ei.
  - assert (Hj : ~ In j (i :: cids ci)).
    { intro K. apply Hij. exists ci. rewrite ids_eq. auto. }
    refine (proj1 (find_update_frame_both i ci i f j (or_introl eq_refl) Hj) n ND Ei _ _).
    + intros ce Hce. rewrite Ei in Hce. injection Hce as <-. now apply Hnew.
    + intros cj Hcj K. apply Hji. exists cj. rewrite ids_eq. split; [exact Hcj|now right].
  - rewrite update_not_in; [reflexivity|]. now apply find_none_iff.
Qed.

Theorem frame : forall w o w' res r j c,
  wfw w -> targets o = Some r -> step w o = (w', res) ->
  get w j = Some c -> ~ inside_w w r j -> ~ inside_w w j r ->
  get w' j = Some c.
Proof.
  intros w o w' res r j c W T H Hj Hrj Hjr. rewrite get_eq in *.
  apply (good2_frame (docs w) (next_id w) r (docs w') (next_id w') j c).
  - now apply wfw_wff.
  - eapply step_shape; eauto.
  - exact Hj.
  - intros cr Hcr K. apply Hrj. apply inside_w_iff. eauto.
  - intro K. apply Hjr. apply inside_w_iff. eauto.
Qed.

(* every live slot that is not strictly below the target stays live *)
Theorem outside_stays_live : forall w o w' res r j,
  wfw w -> targets o = Some r -> step w o = (w', res) ->
  live w j = true ->
  (forall cr, get w r = Some cr -> ~ In j (cids cr)) ->
  live w' j = true.
Proof.
  intros w o w' res r j W T H Hj Hout. rewrite live_iff in *.
  apply (good2_live (docs w) (next_id w) r (docs w') (next_id w') j).
  - now apply wfw_wff.
  - eapply step_shape; eauto.
  - exact Hj.
  - intros cr Hcr. apply Hout. now rewrite get_eq.
Qed.

Theorem ancestors_stay_live : forall w o w' res r j,
  wfw w -> targets o = Some r -> step w o = (w', res) ->
  inside_w w j r -> live w' j = true.
Proof.
  intros w o w' res r j W T H Hjr. apply inside_w_iff in Hjr. destruct Hjr as (cj & Hcj & Hr).
  pose proof W as (ND & _).
  eapply outside_stays_live; eauto.
  - apply live_iff. eapply findl_some_in; eauto.
  - intros cr Hcr K. rewrite get_eq in Hcr. destruct Hr as [<-|Hr].
    + now apply (findl_cids_nodup _ _ _ ND Hcr).
    + exact (findl_no_cycle r cr j cj (docs w) ND Hcr Hcj K Hr).
Qed.

(* the target itself stays live *)
Corollary target_stays_live : forall w o w' res r,
  wfw w -> targets o = Some r -> step w o = (w', res) -> live w r = true -> live w' r = true.
Proof.
  intros w o w' res r W T H L. apply live_get in L. destruct L as (c & Hc).
  eapply ancestors_stay_live; eauto. exists c. split; [exact Hc|]. rewrite ids_eq. now left.
Qed.

Lemma inside_w_trans : forall w a b c,
  wfw w -> inside_w w a b -> inside_w w b c -> inside_w w a c.
Proof.
  intros w a b c (ND & _) Hab Hbc. apply inside_w_iff in Hab, Hbc. apply inside_w_iff.
  destruct Hab as (ca & Hca & Hb). destruct Hbc as (cb & Hcb & Hc).
  exists ca. split; [exact Hca|]. destruct Hb as [<-|Hb].
  - assert (cb = ca) by congruence. now subst.
  - right. apply (findl_below_incl a ca b cb (docs w) ND Hca Hb Hcb). exact Hc.
Qed.

(* ------------------------------------------------------------------------------------------ *)
(* Part 4 — copies are deep and independent                                                     *)
(* ------------------------------------------------------------------------------------------ *)

Theorem assign_fresh_ids : forall w dst src w' r c cd,
  wfw w -> step w (OAssign dst src) = (w', r) ->
  get w src = Some c -> get w dst = Some cd ->
  exists c',
    get w' dst = Some c' /\
    (forall x, In x (cids c') -> next_id w <= x < next_id w') /\
    (forall x, In x (cids c') -> ~ In x (flat_map ids (docs w))) /\
    to_jv (Node dst c') = normalize_copy (to_jv (Node src c)) /\
    r = RBool true.
Proof.
  intros w dst src w' r c cd (ND & Hlt) H Hsrc Hdst. cbn [step] in H. rewrite Hsrc in H.
  destruct (copy_content w (normalize_copy (to_jv (Node 0 c)))) as [c' w1] eqn:C.
  injection H as <- <-.
  destruct (copy_content_spec _ _ _ _ C) as (Ed & Hnx & NDc & HF & Tj).
  exists c'. split; [|split; [|split; [|split]]].
  - rewrite get_eq in *. cbn [set_content upd docs]. rewrite findl_update_same, Ed, Hdst. reflexivity.
  - intros x Hx. cbn [set_content upd next_id]. apply HF in Hx. lia.
  - intros x Hx K. apply HF in Hx. apply Hlt in K. lia.
  - rewrite (Tj dst). reflexivity.
  - reflexivity.
Qed.

(* after dst := src, a later mutation anywhere in the copy leaves the source unchanged,
   and a later mutation anywhere in the source leaves the copy unchanged *)
Theorem copy_independent : forall w dst src w1 r1 c cd,
  wfw w -> step w (OAssign dst src) = (w1, r1) ->
  get w src = Some c -> get w dst = Some cd ->
  ~ inside_w w dst src -> ~ inside_w w src dst ->
  exists c',
    get w1 src = Some c /\ get w1 dst = Some c' /\
    (forall o t w2 r2, targets o = Some t -> inside_w w1 dst t -> step w1 o = (w2, r2) ->
       get w2 src = Some c) /\
    (forall o t w2 r2, targets o = Some t -> inside_w w1 src t -> step w1 o = (w2, r2) ->
       get w2 dst = Some c').
Proof.
  intros w dst src w1 r1 c cd W H Hsrc Hdst Hds Hsd.
  destruct (assign_fresh_ids _ _ _ _ _ _ _ W H Hsrc Hdst) as (c' & Hdst1 & Hrange & Hfresh & _ & _).
  assert (W1 : wfw w1) by (eapply step_wfw; eauto).
  assert (Hsrc1 : get w1 src = Some c).
  { exact (frame w (OAssign dst src) w1 r1 dst src c W eq_refl H Hsrc Hds Hsd). }
  assert (Hold : forall x, In x (src :: cids c) -> In x (flat_map ids (docs w))).
  { intros x Hx. rewrite get_eq in Hsrc. apply (findl_sub _ _ _ Hsrc). exact Hx. }
  assert (Hdst_src : ~ In dst (src :: cids c)).
  { intro K. apply Hsd. apply inside_w_iff. exists c. rewrite <- get_eq. auto. }
  assert (Hsrc_dst : ~ In src (dst :: cids c')).
  { intros [K|K].
    - apply Hds. apply inside_w_iff. exists cd. rewrite <- get_eq. split; [exact Hdst|now left].
    - apply (Hfresh _ K). apply Hold. now left. }
  (* the two subtrees are disjoint in w1 *)
  assert (Hdisj : forall t, In t (dst :: cids c') -> In t (src :: cids c) -> False).
  { intros t [<-|K] K2; [tauto|]. apply (Hfresh _ K). now apply Hold. }
  exists c'. split; [exact Hsrc1|]. split; [exact Hdst1|]. split.
  - intros o t w2 r2 T Ht Hstep.
    apply (frame w1 o w2 r2 t src c W1 T Hstep Hsrc1).
    + intro K. apply Hsrc_dst.
      pose proof (inside_w_trans _ _ _ _ W1 Ht K) as K2. apply inside_w_iff in K2.
      destruct K2 as (c2 & Hc2 & K2). rewrite <- get_eq, Hdst1 in Hc2. injection Hc2 as <-. exact K2.
    + intro K. apply inside_w_iff in K, Ht.
      destruct K as (c2 & Hc2 & K). rewrite <- get_eq, Hsrc1 in Hc2. injection Hc2 as <-.
      destruct Ht as (c3 & Hc3 & Ht). rewrite <- get_eq, Hdst1 in Hc3. injection Hc3 as <-.
      eapply Hdisj; eauto.
  - intros o t w2 r2 T Ht Hstep.
    apply (frame w1 o w2 r2 t dst c' W1 T Hstep Hdst1).
    + intro K. apply Hdst_src.
      pose proof (inside_w_trans _ _ _ _ W1 Ht K) as K2. apply inside_w_iff in K2.
      destruct K2 as (c2 & Hc2 & K2). rewrite <- get_eq, Hsrc1 in Hc2. injection Hc2 as <-. exact K2.
    + intro K. apply inside_w_iff in K, Ht.
      destruct K as (c2 & Hc2 & K). rewrite <- get_eq, Hdst1 in Hc2. injection Hc2 as <-.
      destruct Ht as (c3 & Hc3 & Ht). rewrite <- get_eq, Hsrc1 in Hc3. injection Hc3 as <-.
      eapply Hdisj; eauto.
Qed.

(* ------------------------------------------------------------------------------------------ *)
(* The invariant holds initially and along every history                                        *)
(* ------------------------------------------------------------------------------------------ *)

Lemma N_range_in : forall n s x, In x (N_range s n) -> s <= x < s + N.of_nat n.
Proof.
  induction n as [|n IH]; intros s x H; [destruct H|].
  cbn [N_range] in H. destruct H as [<-|H]; [lia|]. apply IH in H. lia.
Qed.

Lemma N_range_nodup : forall n s, NoDup (N_range s n).
Proof.
  induction n as [|n IH]; intro s; cbn [N_range]; constructor; [|apply IH].
  intro K. apply N_range_in in K. lia.
Qed.

Lemma idsl_null_roots : forall l, idsl (map (fun k => Node k CNull) l) = l.
Proof. induction l as [|k t IH]; [reflexivity|]. cbn [map]. rewrite idsl_cons, IH. reflexivity. Qed.

Theorem init_world_wfw : forall n, wfw (init_world n).
Proof.
  intro n. apply wfw_wff. unfold init_world, wff. cbn [docs next_id]. rewrite idsl_null_roots. split.
  - apply N_range_nodup.
  - intros x Hx. apply N_range_in in Hx. lia.
Qed.

Fixpoint run (w : world) (ops : list op) : world :=
  match ops with
  | [] => w
  | o :: t => run (fst (step w o)) t
  end.

Theorem run_wfw : forall ops w, wfw w -> wfw (run w ops).
Proof.
  induction ops as [|o t IH]; intros w W; [exact W|]. cbn [run]. apply IH.
  destruct (step w o) as [w' r] eqn:E. cbn [fst]. eapply step_wfw; eauto.
Qed.

Corollary reachable_wfw : forall n ops, wfw (run (init_world n) ops).
Proof. intros. apply run_wfw, init_world_wfw. Qed.

(* ------------------------------------------------------------------------------------------ *)
(* Whole-document operations                                                                    *)
(* ------------------------------------------------------------------------------------------ *)

Lemma root_in_ids : forall i c, In i (ids (Node i c)).
Proof. intros. rewrite ids_eq. now left. Qed.

Lemma upd_root_other_doc : forall w d i c f k,
  wfw w -> nth_error (docs w) d = Some (Node i c) -> k <> d ->
  nth_error (docs (upd w i f)) k = nth_error (docs w) k.
Proof.
  intros w d i c f k (ND & _) Hd Hk. cbn [upd docs]. rewrite nth_error_map.
  destruct (nth_error (docs w) k) as [n|] eqn:E; [|reflexivity]. cbn [option_map]. f_equal.
  apply update_not_in. intro K.
  exact (docs_disjoint (docs w) d k _ _ i ND Hd E (fun e => Hk (eq_sym e)) (root_in_ids i c) K).
Qed.

Theorem doc_clear_spec : forall w d w' res i c,
  wfw w -> nth_error (docs w) d = Some (Node i c) -> step w (ODocClear d) = (w', res) ->
  nth_error (docs w') d = Some (Node i CNull) /\
  forall k, k <> d -> nth_error (docs w') k = nth_error (docs w) k.
Proof.
  intros w d w' res i c W Hd H. cbn [step] in H. rewrite Hd in H. injection H as <- <-. split.
  - cbn [set_content upd docs]. rewrite nth_error_map, Hd. cbn [option_map].
    now rewrite update_eq, N.eqb_refl.
  - intros k Hk. eapply upd_root_other_doc; eauto.
Qed.

Theorem doc_copy_spec : forall w d s w' res i c src,
  wfw w -> nth_error (docs w) d = Some (Node i c) -> nth_error (docs w) s = Some src ->
  step w (ODocCopy d s) = (w', res) ->
  (exists c', nth_error (docs w') d = Some (Node i c') /\
              to_jv (Node i c') = normalize_copy (to_jv src) /\
              forall x, In x (cids c') -> next_id w <= x < next_id w') /\
  forall k, k <> d -> nth_error (docs w') k = nth_error (docs w) k.
Proof.
  intros w d s w' res i c src W Hd Hs H. cbn [step] in H. rewrite Hd, Hs in H.
  destruct (copy_content w (normalize_copy (to_jv src))) as [c' w1] eqn:C. injection H as <- <-.
  destruct (copy_content_spec _ _ _ _ C) as (Ed & Hnx & NDc & HF & Tj).
  cbn [set_content upd docs next_id]. rewrite Ed. split.
  - exists c'. split; [|split].
    + rewrite nth_error_map, Hd. cbn [option_map]. now rewrite update_eq, N.eqb_refl.
    + apply Tj.
    + intros x Hx. apply HF in Hx. lia.
  - intros k Hk. exact (upd_root_other_doc w d i c (fun _ => c') k W Hd Hk).
Qed.

(* swap exchanges the contents of the two roots and nothing else *)
Theorem doc_swap_spec : forall w d s w' res i ci j cj,
  wfw w -> nth_error (docs w) d = Some (Node i ci) -> nth_error (docs w) s = Some (Node j cj) ->
  d <> s -> step w (ODocSwap d s) = (w', res) ->
  nth_error (docs w') d = Some (Node i cj) /\
  nth_error (docs w') s = Some (Node j ci) /\
  forall k, k <> d -> k <> s -> nth_error (docs w') k = nth_error (docs w) k.
Proof.
  intros w d s w' res i ci j cj (ND & _) Hd Hs Hds H. cbn [step] in H. rewrite Hd, Hs in H.
  injection H as <- <-. cbn [set_content upd docs]. rewrite !nth_error_map.
  assert (Hij : i <> j).
  { intros ->. exact (docs_disjoint (docs w) d s _ _ j ND Hd Hs Hds (root_in_ids _ _) (root_in_ids _ _)). }
  assert (Hi_s : ~ In i (ids (Node j cj))).
  { intro K. exact (docs_disjoint (docs w) d s _ _ i ND Hd Hs Hds (root_in_ids _ _) K). }
  pose proof (root_find _ _ _ ND (nth_error_In _ _ Hd)) as Fi.
  destruct (findl_cids_nodup _ _ _ ND Fi) as (_ & Hici).
  split; [|split].
  - rewrite Hd. cbn [option_map]. f_equal.
    rewrite (update_eq i _ i ci), N.eqb_refl.
    rewrite (update_eq j _ i CNull). replace (j =? i) with false by (symmetry; apply N.eqb_neq; congruence).
    cbn [map_children]. now rewrite update_eq, N.eqb_refl.
  - rewrite Hs. cbn [option_map]. f_equal.
    rewrite (update_not_in i _ (Node j cj) Hi_s).
    rewrite (update_eq j _ j cj), N.eqb_refl.
    apply update_not_in. rewrite ids_eq. intros [K|K]; [congruence|tauto].
  - intros k Hkd Hks. rewrite !nth_error_map. destruct (nth_error (docs w) k) as [n|] eqn:E; [|reflexivity].
    cbn [option_map]. f_equal.
    assert (Hin : ~ In i (ids n)).
    { intro K. exact (docs_disjoint (docs w) d k _ _ i ND Hd E (fun e => Hkd (eq_sym e)) (root_in_ids _ _) K). }
    assert (Hjn : ~ In j (ids n)).
    { intro K. exact (docs_disjoint (docs w) s k _ _ j ND Hs E (fun e => Hks (eq_sym e)) (root_in_ids _ _) K). }
    now rewrite (update_not_in i _ n Hin), (update_not_in j _ n Hjn), (update_not_in i _ n Hin).
Qed.
