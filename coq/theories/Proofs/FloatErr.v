(* FloatErr.v — accuracy of the floating-point path of parse_number (property C12).
   Real-number reading (Flocq [SF2R radix2]) of the SpecFloat values computed by the model:
   table accuracy, one multiplication, integer -> float, make_float, and the tail of parse_number.
   Uses Flocq 4.1 (BinarySingleNaN) and Coq's Reals; nothing is assumed here beyond what Reals brings.

   Notation: [p10 e] is 10^e as a real ([p10_powerRZ : p10 e = powerRZ 10 e]); [uro f] = 2^-prec f;
   [within u n v X] : (1-u)^n X <= v <= (1+u)^n X.

   Main results
     M1  table64_pos_chk, table64_neg_chk, table32_pos_chk, table32_neg_chk   (computed in Z)
         table64_pos_accuracy, table64_neg_accuracy, table32_pos_accuracy, table32_neg_accuracy
     M2  fmul_correct (both formats), fmul64_correct (constants spelled out)
     M3  f_of_Z_exact, f_of_Z_rel, f_of_Z64_exact, f_of_Z64_rel
     M4  make_float64_accuracy (|e| <= 290), make_float64_accuracy_wide (-307 <= e <= 291),
         make_float64_accuracy_gen (side condition on the real value), make_float64_fin
         (no upper bound: a finite result is accurate), make_float32_accuracy(_gen), make_float32_fin
     M5  finish_double_accuracy, finish_float_accuracy, finish_small_accuracy, finish_accuracy,
         finish_double_total / finish_double_wide, finish_float_cfg_accuracy / finish_float_cfg_total,
         exp_literal_double_accuracy, exp_literal_float_accuracy (through parse_exp_literal) *)
From Coq Require Import ZArith Reals Lia Lra List Bool.
From Flocq Require Import Core BinarySingleNaN Relative.
From Coq Require Import Floats.SpecFloat.
From AJ Require Import Model.Base Model.FloatModel Model.Value Model.NumParse Proofs.NumProofs.
Import ListNotations.
Local Open Scope Z_scope.

(* ------------------------------------------------------------------------------------------ *)
(* Part 0 — bridge between Coq.Floats.SpecFloat operations and Flocq's BinarySingleNaN         *)
(* ------------------------------------------------------------------------------------------ *)

Section Bridge.
Variable prec emax : Z.
Context (prec_gt_0_ : Prec_gt_0 prec).
Context (prec_lt_emax_ : Prec_lt_emax prec emax).

Lemma rne_choice : forall s m l, round_nearest_even m l = choice_mode mode_NE s m l.
Proof.
  intros s m l. destruct l as [|c]; [reflexivity|].
  destruct c; try reflexivity.
  cbn. unfold Round.cond_incr. destruct (Z.even m); reflexivity.
Qed.

Lemma bra_equiv : forall sx mx ex lx,
  SpecFloat.binary_round_aux prec emax sx mx ex lx
  = BinarySingleNaN.binary_round_aux prec emax mode_NE sx mx ex lx.
Proof.
  intros sx mx ex lx.
  unfold SpecFloat.binary_round_aux, BinarySingleNaN.binary_round_aux.
  destruct (shr_fexp prec emax mx ex lx) as [mrs' e'].
  rewrite (rne_choice sx).
  destruct (shr_fexp prec emax _ e' loc_Exact) as [mrs'' e''].
  destruct (shr_m mrs''); try reflexivity.
Qed.

Lemma bround_equiv : forall s m e,
  SpecFloat.binary_round prec emax s m e = BinarySingleNaN.binary_round prec emax mode_NE s m e.
Proof.
  intros s m e. unfold SpecFloat.binary_round, BinarySingleNaN.binary_round, shl_align_fexp.
  destruct (shl_align m e _) as [mz ez]. apply bra_equiv.
Qed.

Lemma bnorm_equiv : forall m e szero,
  SpecFloat.binary_normalize prec emax m e szero
  = B2SF (BinarySingleNaN.binary_normalize prec emax prec_gt_0_ prec_lt_emax_ mode_NE m e szero).
Proof.
  intros m e szero. destruct m as [|p|p]; cbn.
  - reflexivity.
  - rewrite B2SF_SF2B. apply bround_equiv.
  - rewrite B2SF_SF2B. apply bround_equiv.
Qed.

Lemma SFmul_Bmult : forall x y,
  SFmul prec emax (B2SF x) (B2SF y)
  = B2SF (Bmult (prec:=prec) (emax:=emax) mode_NE x y).
Proof.
  intros [sx|sx| |sx mx ex Hx] [sy|sy| |sy my ey Hy]; try reflexivity.
  cbn. rewrite B2SF_SF2B. apply bra_equiv.
Qed.

End Bridge.

(* ------------------------------------------------------------------------------------------ *)
(* Part 1 — one multiplication, one integer conversion (generic format)                        *)
(* ------------------------------------------------------------------------------------------ *)

Lemma is_finite_SF_eq : forall x, is_finite_SF x = FloatModel.is_finite x.
Proof. destruct x; reflexivity. Qed.

Section Ops.
Variable prec emax : Z.
Context (prec_gt_0_ : Prec_gt_0 prec).
Context (prec_lt_emax_ : Prec_lt_emax prec emax).
Notation fexp := (FLT_exp (SpecFloat.emin prec emax) prec).
Notation rnd := (round radix2 fexp ZnearestE).

Lemma SFmul_correct : forall x y,
  valid_binary prec emax x = true -> valid_binary prec emax y = true ->
  FloatModel.is_finite x = true -> FloatModel.is_finite y = true ->
  (Rabs (rnd (SF2R radix2 x * SF2R radix2 y)) < bpow radix2 emax)%R ->
  SF2R radix2 (SFmul prec emax x y) = rnd (SF2R radix2 x * SF2R radix2 y) /\
  valid_binary prec emax (SFmul prec emax x y) = true /\
  FloatModel.is_finite (SFmul prec emax x y) = true.
Proof.
  intros x y Hx Hy Fx Fy Hlt.
  replace (SFmul prec emax x y)
    with (B2SF (Bmult (prec:=prec) (emax:=emax) mode_NE (SF2B x Hx) (SF2B y Hy)))
    by (rewrite <- (SFmul_Bmult prec emax prec_gt_0_ prec_lt_emax_), !B2SF_SF2B; reflexivity).
  generalize (Bmult_correct prec emax prec_gt_0_ prec_lt_emax_ mode_NE (SF2B x Hx) (SF2B y Hy)).
  rewrite !B2R_SF2B. cbn [round_mode].
  rewrite Rlt_bool_true by exact Hlt.
  intros [H1 [H2 _]].
  rewrite SF2R_B2SF. split; [exact H1|]. split; [apply valid_binary_B2SF|].
  rewrite <- is_finite_SF_eq, is_finite_SF_B2SF, H2.
  rewrite !is_finite_SF2B, (is_finite_SF_eq x), (is_finite_SF_eq y), Fx, Fy. reflexivity.
Qed.

Lemma SFnorm_correct : forall m,
  (Rabs (rnd (IZR m)) < bpow radix2 emax)%R ->
  SF2R radix2 (SpecFloat.binary_normalize prec emax m 0 false) = rnd (IZR m) /\
  valid_binary prec emax (SpecFloat.binary_normalize prec emax m 0 false) = true /\
  FloatModel.is_finite (SpecFloat.binary_normalize prec emax m 0 false) = true.
Proof.
  intros m Hlt.
  rewrite (bnorm_equiv prec emax prec_gt_0_ prec_lt_emax_).
  generalize (binary_normalize_correct prec emax prec_gt_0_ prec_lt_emax_ mode_NE m 0 false).
  cbn [round_mode].
  replace (F2R (Float radix2 m 0)) with (IZR m)
    by (unfold F2R; cbn [Fnum Fexp bpow]; ring).
  rewrite Rlt_bool_true by exact Hlt.
  intros [H1 [H2 _]].
  rewrite SF2R_B2SF. split; [exact H1|]. split; [apply valid_binary_B2SF|].
  rewrite <- is_finite_SF_eq, is_finite_SF_B2SF. exact H2.
Qed.

Lemma emin_facts : SpecFloat.emin prec emax <= emax - 1 /\ SpecFloat.emin prec emax + prec - 1 <= 0
  /\ SpecFloat.emin prec emax <= 0.
Proof.
  unfold SpecFloat.emin. pose proof prec_gt_0_ as H0. pose proof prec_lt_emax_ as H1.
  unfold Prec_gt_0, Prec_lt_emax in *. lia.
Qed.

Lemma half_ulp : (/ 2 * bpow radix2 (- prec + 1) = bpow radix2 (- prec))%R.
Proof.
  rewrite bpow_plus. change (bpow radix2 1) with 2%R. field.
Qed.

Lemma rnd_abs_le_bpow : forall x e, SpecFloat.emin prec emax <= e ->
  (Rabs x <= bpow radix2 e)%R -> (Rabs (rnd x) <= bpow radix2 e)%R.
Proof.
  intros x e He Hx. apply abs_round_le_generic; auto with typeclass_instances.
  apply generic_format_FLT_bpow; [exact prec_gt_0_| exact He].
Qed.

Lemma rnd_rel : forall x, (bpow radix2 (SpecFloat.emin prec emax + prec - 1) <= Rabs x)%R ->
  exists d, (Rabs d <= bpow radix2 (- prec))%R /\ rnd x = (x * (1 + d))%R.
Proof.
  intros x Hx.
  destruct (relative_error_N_FLT_ex radix2 (SpecFloat.emin prec emax) prec prec_gt_0_
              (fun z => negb (Z.even z)) x Hx) as [d [Hd Hr]].
  exists d. rewrite <- half_ulp. split; assumption.
Qed.

(* M2, generic: a product of two finite numbers whose exact value is in the normal range *)
Lemma SFmul_rel : forall x y,
  valid_binary prec emax x = true -> valid_binary prec emax y = true ->
  FloatModel.is_finite x = true -> FloatModel.is_finite y = true ->
  (bpow radix2 (SpecFloat.emin prec emax + prec - 1) <= Rabs (SF2R radix2 x * SF2R radix2 y)
     <= bpow radix2 (emax - 1))%R ->
  SF2R radix2 (SFmul prec emax x y) = rnd (SF2R radix2 x * SF2R radix2 y) /\
  (exists d, (Rabs d <= bpow radix2 (- prec))%R /\
     SF2R radix2 (SFmul prec emax x y) = (SF2R radix2 x * SF2R radix2 y * (1 + d))%R) /\
  valid_binary prec emax (SFmul prec emax x y) = true /\
  FloatModel.is_finite (SFmul prec emax x y) = true.
Proof.
  intros x y Hx Hy Fx Fy [Hlo Hhi].
  destruct (SFmul_correct x y Hx Hy Fx Fy) as [H1 [H2 H3]].
  - apply Rle_lt_trans with (bpow radix2 (emax - 1)).
    + apply rnd_abs_le_bpow; [apply emin_facts | exact Hhi].
    + apply bpow_lt. lia.
  - split; [exact H1|]. split; [|split; assumption].
    destruct (rnd_rel _ Hlo) as [d [Hd Hr]]. exists d. split; [exact Hd|].
    rewrite H1. exact Hr.
Qed.

(* M3, generic: integer -> float *)
Lemma SFnorm_rel : forall m, m <> 0 -> (IZR (Z.abs m) <= bpow radix2 (emax - 1))%R ->
  SF2R radix2 (SpecFloat.binary_normalize prec emax m 0 false) = rnd (IZR m) /\
  (exists d, (Rabs d <= bpow radix2 (- prec))%R /\
     SF2R radix2 (SpecFloat.binary_normalize prec emax m 0 false) = (IZR m * (1 + d))%R) /\
  valid_binary prec emax (SpecFloat.binary_normalize prec emax m 0 false) = true /\
  FloatModel.is_finite (SpecFloat.binary_normalize prec emax m 0 false) = true.
Proof.
  intros m Hm Hhi. rewrite abs_IZR in Hhi.
  destruct (SFnorm_correct m) as [H1 [H2 H3]].
  - apply Rle_lt_trans with (bpow radix2 (emax - 1)).
    + apply rnd_abs_le_bpow; [apply emin_facts | exact Hhi].
    + apply bpow_lt. lia.
  - split; [exact H1|]. split; [|split; assumption].
    destruct (rnd_rel (IZR m)) as [d [Hd Hr]].
    + apply Rle_trans with 1%R.
      * change 1%R with (bpow radix2 0). apply bpow_le. apply emin_facts.
      * rewrite <- abs_IZR. apply IZR_le. lia.
    + exists d. split; [exact Hd|]. rewrite H1. exact Hr.
Qed.

Lemma SFnorm_exact : forall m, Z.abs m < 2 ^ prec ->
  SF2R radix2 (SpecFloat.binary_normalize prec emax m 0 false) = IZR m /\
  valid_binary prec emax (SpecFloat.binary_normalize prec emax m 0 false) = true /\
  FloatModel.is_finite (SpecFloat.binary_normalize prec emax m 0 false) = true.
Proof.
  intros m Hm.
  assert (G : generic_format radix2 fexp (IZR m)).
  { apply generic_format_FLT. apply FLT_spec with (Float radix2 m 0).
    - unfold F2R; cbn [Fnum Fexp bpow]. ring.
    - exact Hm.
    - apply emin_facts. }
  assert (R : rnd (IZR m) = IZR m).
  { apply round_generic; auto with typeclass_instances. }
  destruct (SFnorm_correct m) as [H1 [H2 H3]].
  - rewrite R. rewrite <- abs_IZR. apply Rlt_le_trans with (bpow radix2 prec).
    + rewrite <- IZR_Zpower by (pose proof prec_gt_0_ as H0; unfold Prec_gt_0 in H0; lia).
      apply IZR_lt. exact Hm.
    + apply bpow_le. pose proof prec_lt_emax_ as H1. unfold Prec_lt_emax in H1. lia.
  - rewrite H1, R. auto.
Qed.

(* a product of two finite numbers is correctly rounded, or overflows to an infinity *)
Lemma SFmul_cases : forall x y,
  valid_binary prec emax x = true -> valid_binary prec emax y = true ->
  FloatModel.is_finite x = true -> FloatModel.is_finite y = true ->
  (SF2R radix2 (SFmul prec emax x y) = rnd (SF2R radix2 x * SF2R radix2 y) /\
   valid_binary prec emax (SFmul prec emax x y) = true /\
   FloatModel.is_finite (SFmul prec emax x y) = true) \/
  (exists s, SFmul prec emax x y = S754_infinity s).
Proof.
  intros x y Hx Hy Fx Fy.
  destruct (Rlt_bool_spec (Rabs (rnd (SF2R radix2 x * SF2R radix2 y))) (bpow radix2 emax)) as [H|H].
  - left. apply SFmul_correct; assumption.
  - right.
    replace (SFmul prec emax x y)
      with (B2SF (Bmult (prec:=prec) (emax:=emax) mode_NE (SF2B x Hx) (SF2B y Hy)))
      by (rewrite <- (SFmul_Bmult prec emax prec_gt_0_ prec_lt_emax_), !B2SF_SF2B; reflexivity).
    generalize (Bmult_correct prec emax prec_gt_0_ prec_lt_emax_ mode_NE (SF2B x Hx) (SF2B y Hy)).
    rewrite !B2R_SF2B. cbn [round_mode].
    rewrite Rlt_bool_false by exact H.
    intros ->. unfold binary_overflow. cbn [overflow_to_inf]. eexists. reflexivity.
Qed.

(* relative error from a lower bound only, when the result is known to be finite *)
Lemma SFmul_rel_fin : forall x y,
  valid_binary prec emax x = true -> valid_binary prec emax y = true ->
  FloatModel.is_finite x = true -> FloatModel.is_finite y = true ->
  (bpow radix2 (SpecFloat.emin prec emax + prec - 1) <= Rabs (SF2R radix2 x * SF2R radix2 y))%R ->
  FloatModel.is_finite (SFmul prec emax x y) = true ->
  (exists d, (Rabs d <= bpow radix2 (- prec))%R /\
     SF2R radix2 (SFmul prec emax x y) = (SF2R radix2 x * SF2R radix2 y * (1 + d))%R) /\
  valid_binary prec emax (SFmul prec emax x y) = true.
Proof.
  intros x y Hx Hy Fx Fy Hlo Fr.
  destruct (SFmul_cases x y Hx Hy Fx Fy) as [[H1 [H2 H3]]|[s Hs]].
  - split; [|exact H2].
    destruct (rnd_rel _ Hlo) as [d [Hd Hr]]. exists d. split; [exact Hd|].
    rewrite H1. exact Hr.
  - rewrite Hs in Fr. discriminate.
Qed.

Lemma SFmul_nonfinite : forall x y, FloatModel.is_finite x = false ->
  FloatModel.is_finite (SFmul prec emax x y) = false.
Proof. intros [s|s| |s m e] [s'|s'| |s' m' e'] H; try reflexivity; discriminate. Qed.

End Ops.

(* ------------------------------------------------------------------------------------------ *)
(* Part 2 — the two formats                                                                    *)
(* ------------------------------------------------------------------------------------------ *)

Definition good_fmt (f : fmt) : Prop := 0 < prec f /\ prec f < emax f.

Lemma good_F64 : good_fmt F64. Proof. split; reflexivity. Qed.
Lemma good_F32 : good_fmt F32. Proof. split; reflexivity. Qed.

(* unit roundoff 2^-p, smallest normal number *)
Definition uro (f : fmt) : R := bpow radix2 (- prec f).
Definition rnd_of (f : fmt) (x : R) : R := round radix2 (FLT_exp (femin f) (prec f)) ZnearestE x.

Lemma uro_pos : forall f, (0 < uro f)%R.
Proof. intros f. apply bpow_gt_0. Qed.

Lemma uro_lt_1 : forall f, good_fmt f -> (uro f <= / 2)%R.
Proof.
  intros f [H0 _]. unfold uro. change (/ 2)%R with (bpow radix2 (-1)). apply bpow_le. lia.
Qed.

(* M2 for any of the two formats *)
Theorem fmul_correct : forall f x y, good_fmt f ->
  valid f x -> valid f y -> FloatModel.is_finite x = true -> FloatModel.is_finite y = true ->
  (bpow radix2 (femin f + prec f - 1) <= Rabs (SF2R radix2 x * SF2R radix2 y)
     <= bpow radix2 (emax f - 1))%R ->
  SF2R radix2 (fmul f x y) = rnd_of f (SF2R radix2 x * SF2R radix2 y) /\
  (exists d, (Rabs d <= uro f)%R /\
     SF2R radix2 (fmul f x y) = (SF2R radix2 x * SF2R radix2 y * (1 + d))%R) /\
  valid f (fmul f x y) /\ FloatModel.is_finite (fmul f x y) = true.
Proof.
  intros f x y [H0 H1] Hx Hy Fx Fy Hr.
  exact (SFmul_rel (prec f) (emax f) H0 H1 x y Hx Hy Fx Fy Hr).
Qed.

(* M3 for any of the two formats *)
Theorem f_of_Z_exact : forall f m, good_fmt f -> Z.abs m < 2 ^ prec f ->
  SF2R radix2 (f_of_Z f m) = IZR m /\ valid f (f_of_Z f m) /\
  FloatModel.is_finite (f_of_Z f m) = true.
Proof.
  intros f m [H0 H1] Hm. exact (SFnorm_exact (prec f) (emax f) H0 H1 m Hm).
Qed.

Theorem f_of_Z_rel : forall f m, good_fmt f -> m <> 0 ->
  (IZR (Z.abs m) <= bpow radix2 (emax f - 1))%R ->
  SF2R radix2 (f_of_Z f m) = rnd_of f (IZR m) /\
  (exists d, (Rabs d <= uro f)%R /\ SF2R radix2 (f_of_Z f m) = (IZR m * (1 + d))%R) /\
  valid f (f_of_Z f m) /\ FloatModel.is_finite (f_of_Z f m) = true.
Proof.
  intros f m [H0 H1] Hm Hr. exact (SFnorm_rel (prec f) (emax f) H0 H1 m Hm Hr).
Qed.

(* --- the statements of M2 and M3 for binary64, with the constants spelled out --- *)

Theorem fmul64_correct : forall x y,
  valid F64 x -> valid F64 y -> FloatModel.is_finite x = true -> FloatModel.is_finite y = true ->
  (bpow radix2 (-1000) <= Rabs (SF2R radix2 x * SF2R radix2 y) <= bpow radix2 1000)%R ->
  SF2R radix2 (fmul F64 x y)
    = round radix2 (FLT_exp (-1074) 53) ZnearestE (SF2R radix2 x * SF2R radix2 y) /\
  (exists d, (Rabs d <= bpow radix2 (-53))%R /\
     SF2R radix2 (fmul F64 x y) = (SF2R radix2 x * SF2R radix2 y * (1 + d))%R) /\
  valid F64 (fmul F64 x y) /\ FloatModel.is_finite (fmul F64 x y) = true.
Proof.
  intros x y Hx Hy Fx Fy [Hlo Hhi].
  apply (fmul_correct F64 x y good_F64 Hx Hy Fx Fy). split.
  - apply Rle_trans with (2 := Hlo). apply bpow_le. vm_compute. discriminate.
  - apply Rle_trans with (1 := Hhi). apply bpow_le. vm_compute. discriminate.
Qed.

Theorem f_of_Z64_exact : forall m, 0 <= m < 2 ^ 53 ->
  SF2R radix2 (f_of_Z F64 m) = IZR m.
Proof.
  intros m Hm. apply (f_of_Z_exact F64 m good_F64). change (prec F64) with 53. lia.
Qed.

Theorem f_of_Z64_rel : forall m, 0 <= m < 2 ^ 64 ->
  SF2R radix2 (f_of_Z F64 m) = round radix2 (FLT_exp (-1074) 53) ZnearestE (IZR m) /\
  exists d, (Rabs d <= bpow radix2 (-53))%R /\ SF2R radix2 (f_of_Z F64 m) = (IZR m * (1 + d))%R.
Proof.
  intros m Hm. destruct (Z.eq_dec m 0) as [E|E].
  - subst m. split.
    + rewrite round_0 by auto with typeclass_instances. reflexivity.
    + exists 0%R. split; [rewrite Rabs_R0; apply bpow_ge_0 | cbn; ring].
  - destruct (f_of_Z_rel F64 m good_F64 E) as [H1 [H2 _]].
    + change (emax F64 - 1) with 1023. rewrite <- IZR_Zpower by lia. apply IZR_le.
      change (Z.abs m <= 2 ^ 1023).
      assert (2 ^ 64 <= 2 ^ 1023) by (apply Z.pow_le_mono_r; lia). lia.
    + split; assumption.
Qed.

(* ------------------------------------------------------------------------------------------ *)
(* Part 3 — M1: accuracy of the powers-of-ten tables                                           *)
(* ------------------------------------------------------------------------------------------ *)

Definition radix10 : radix := Build_radix 10 eq_refl.
(* 10^e as a real number, e any integer *)
Definition p10 (e : Z) : R := bpow radix10 e.

Lemma p10_powerRZ : forall e, p10 e = powerRZ 10 e.
Proof. intros e. unfold p10. rewrite bpow_powerRZ. reflexivity. Qed.

Lemma p10_pos : forall e, (0 < p10 e)%R.
Proof. intros e. apply bpow_gt_0. Qed.

(* the value m * 2^e as a fraction N / D *)
Definition num_den (m : positive) (e : Z) : Z * Z :=
  if 0 <=? e then (Z.pos m * 2 ^ e, 1) else (Z.pos m, 2 ^ (- e)).

Lemma num_den_spec : forall m e,
  let '(N, D) := num_den m e in
  0 < D /\ SF2R radix2 (S754_finite false m e) = (IZR N / IZR D)%R.
Proof.
  intros m e. unfold num_den. destruct (0 <=? e) eqn:E.
  - apply Z.leb_le in E. split; [lia|].
    cbn [SF2R cond_Zopp]. unfold F2R; cbn [Fnum Fexp].
    rewrite mult_IZR, (IZR_Zpower radix2) by exact E. field.
  - apply Z.leb_gt in E. split; [apply Z.pow_pos_nonneg; lia|].
    cbn [SF2R cond_Zopp]. unfold F2R; cbn [Fnum Fexp].
    rewrite (IZR_Zpower radix2) by lia. rewrite bpow_opp. field.
    apply Rgt_not_eq, bpow_gt_0.
Qed.

(* cross-multiplied accuracy test, decided by computation in Z:
   direct:  | N/D - b |   <= 2^-p * b        inverse:  | N/D - 1/b | <= 2^-p / b *)
Definition entry_ok (p : Z) (inv : bool) (b : Z) (v : spec_float) : bool :=
  match v with
  | S754_finite false m e =>
      let '(N, D) := num_den m e in
      if inv then Z.abs (N * b - D) * 2 ^ p <=? D
      else Z.abs (N - b * D) * 2 ^ p <=? b * D
  | _ => false
  end.

Fixpoint tbl_chk (f : fmt) (inv : bool) (b : Z) (tbl : list spec_float) : bool :=
  match tbl with
  | [] => true
  | v :: t => valid_binary (prec f) (emax f) v && entry_ok (prec f) inv b v && tbl_chk f inv (b * b) t
  end.

(* M1 in computational form: every entry of the four tables passes the test *)
Theorem table64_pos_chk : tbl_chk F64 false 10 (pow10_table F64 true) = true.
Proof. vm_compute. reflexivity. Qed.
Theorem table64_neg_chk : tbl_chk F64 true 10 (pow10_table F64 false) = true.
Proof. vm_compute. reflexivity. Qed.
Theorem table32_pos_chk : tbl_chk F32 false 10 (pow10_table F32 true) = true.
Proof. vm_compute. reflexivity. Qed.
Theorem table32_neg_chk : tbl_chk F32 true 10 (pow10_table F32 false) = true.
Proof. vm_compute. reflexivity. Qed.

(* --- real-number reading of the test --- *)

Lemma entry_ok_direct : forall p b v, 0 <= p -> 0 < b -> entry_ok p false b v = true ->
  (Rabs (SF2R radix2 v - IZR b) <= bpow radix2 (- p) * IZR b)%R /\ FloatModel.is_finite v = true.
Proof.
  intros p b v Hp Hb H. destruct v as [s|s| |s m e]; try discriminate.
  destruct s; [discriminate|]. split; [|reflexivity].
  unfold entry_ok in H. pose proof (num_den_spec m e) as S.
  destruct (num_den m e) as [N D]. destruct S as [HD HS]. rewrite HS.
  apply Z.leb_le in H. apply IZR_le in H.
  rewrite !mult_IZR, abs_IZR, minus_IZR, mult_IZR, (IZR_Zpower radix2) in H by exact Hp.
  assert (Hd : (0 < IZR D)%R) by (apply IZR_lt; exact HD).
  assert (HP : (0 < bpow radix2 p)%R) by apply bpow_gt_0.
  rewrite bpow_opp.
  set (n := IZR N) in *. set (d := IZR D) in *. set (B := IZR b) in *. set (P := bpow radix2 p) in *.
  replace (n / d - B)%R with ((n - B * d) * / d)%R by (field; lra).
  rewrite Rabs_mult, (Rabs_pos_eq (/ d)) by (left; apply Rinv_0_lt_compat; exact Hd).
  set (a := Rabs (n - B * d)) in *.
  replace (a * / d)%R with ((a * P) * (/ d * / P))%R by (field; lra).
  replace (/ P * B)%R with ((B * d) * (/ d * / P))%R by (field; lra).
  apply Rmult_le_compat_r; [|exact H].
  left. apply Rmult_lt_0_compat; apply Rinv_0_lt_compat; assumption.
Qed.

Lemma entry_ok_inverse : forall p b v, 0 <= p -> 0 < b -> entry_ok p true b v = true ->
  (Rabs (SF2R radix2 v - / IZR b) <= bpow radix2 (- p) * / IZR b)%R /\ FloatModel.is_finite v = true.
Proof.
  intros p b v Hp Hb H. destruct v as [s|s| |s m e]; try discriminate.
  destruct s; [discriminate|]. split; [|reflexivity].
  unfold entry_ok in H. pose proof (num_den_spec m e) as S.
  destruct (num_den m e) as [N D]. destruct S as [HD HS]. rewrite HS.
  apply Z.leb_le in H. apply IZR_le in H.
  rewrite !mult_IZR, abs_IZR, minus_IZR, mult_IZR, (IZR_Zpower radix2) in H by exact Hp.
  assert (Hd : (0 < IZR D)%R) by (apply IZR_lt; exact HD).
  assert (HB : (0 < IZR b)%R) by (apply IZR_lt; exact Hb).
  assert (HP : (0 < bpow radix2 p)%R) by apply bpow_gt_0.
  rewrite bpow_opp.
  set (n := IZR N) in *. set (d := IZR D) in *. set (B := IZR b) in *. set (P := bpow radix2 p) in *.
  replace (n / d - / B)%R with ((n * B - d) * (/ d * / B))%R by (field; lra).
  rewrite Rabs_mult, (Rabs_pos_eq (/ d * / B))
    by (left; apply Rmult_lt_0_compat; apply Rinv_0_lt_compat; assumption).
  set (a := Rabs (n * B - d)) in *.
  replace (a * (/ d * / B))%R with ((a * P) * (/ d * / B * / P))%R by (field; lra).
  replace (/ P * / B)%R with (d * (/ d * / B * / P))%R by (field; lra).
  apply Rmult_le_compat_r; [|exact H].
  left. repeat apply Rmult_lt_0_compat; apply Rinv_0_lt_compat; assumption.
Qed.

(* a table for base B: entry k approximates B^(2^k) within relative error 2^-p *)
Inductive tbl_ok (f : fmt) : R -> list spec_float -> Prop :=
| tbl_ok_nil : forall B, tbl_ok f B []
| tbl_ok_cons : forall B v t,
    valid f v -> FloatModel.is_finite v = true ->
    (Rabs (SF2R radix2 v - B) <= uro f * B)%R ->
    tbl_ok f (B * B) t -> tbl_ok f B (v :: t).

Lemma tbl_chk_direct : forall f tbl b, 0 <= prec f -> 0 < b -> tbl_chk f false b tbl = true ->
  tbl_ok f (IZR b) tbl.
Proof.
  intros f tbl. induction tbl as [|v t IH]; intros b Hp Hb H.
  - constructor.
  - cbn [tbl_chk] in H. apply andb_prop in H. destruct H as [H H3].
    apply andb_prop in H. destruct H as [H1 H2].
    destruct (entry_ok_direct _ _ _ Hp Hb H2) as [Ha Hf].
    constructor; [exact H1 | exact Hf | exact Ha |].
    rewrite <- mult_IZR. apply IH; [exact Hp | nia | exact H3].
Qed.

Lemma tbl_chk_inverse : forall f tbl b, 0 <= prec f -> 0 < b -> tbl_chk f true b tbl = true ->
  tbl_ok f (/ IZR b) tbl.
Proof.
  intros f tbl. induction tbl as [|v t IH]; intros b Hp Hb H.
  - constructor.
  - cbn [tbl_chk] in H. apply andb_prop in H. destruct H as [H H3].
    apply andb_prop in H. destruct H as [H1 H2].
    destruct (entry_ok_inverse _ _ _ Hp Hb H2) as [Ha Hf].
    constructor; [exact H1 | exact Hf | exact Ha |].
    assert (HB : (0 < IZR b)%R) by (apply IZR_lt; exact Hb).
    replace (/ IZR b * / IZR b)%R with (/ IZR (b * b))%R
      by (rewrite mult_IZR; field; lra).
    apply IH; [exact Hp | nia | exact H3].
Qed.

Lemma tbl_ok_nth : forall f tbl B k, tbl_ok f B tbl -> (k < length tbl)%nat ->
  (Rabs (SF2R radix2 (nth k tbl S754_nan) - B ^ (2 ^ k)) <= uro f * B ^ (2 ^ k))%R.
Proof.
  intros f tbl B k H. revert k. induction H as [B|B v t Hv Hf Ha Ht IH]; intros k Hk.
  - cbn in Hk. lia.
  - destruct k as [|k].
    + cbn [nth Nat.pow]. rewrite pow_1. exact Ha.
    + cbn [nth]. cbn [length] in Hk.
      replace (B ^ (2 ^ S k))%R with ((B * B) ^ (2 ^ k))%R.
      * apply IH. lia.
      * rewrite <- pow_sqr. reflexivity.
Qed.

Lemma tbl64_pos_ok : tbl_ok F64 10 (pow10_table F64 true).
Proof. apply (tbl_chk_direct F64 _ 10); [discriminate | reflexivity | exact table64_pos_chk]. Qed.
Lemma tbl64_neg_ok : tbl_ok F64 (/ 10) (pow10_table F64 false).
Proof. apply (tbl_chk_inverse F64 _ 10); [discriminate | reflexivity | exact table64_neg_chk]. Qed.
Lemma tbl32_pos_ok : tbl_ok F32 10 (pow10_table F32 true).
Proof. apply (tbl_chk_direct F32 _ 10); [discriminate | reflexivity | exact table32_pos_chk]. Qed.
Lemma tbl32_neg_ok : tbl_ok F32 (/ 10) (pow10_table F32 false).
Proof. apply (tbl_chk_inverse F32 _ 10); [discriminate | reflexivity | exact table32_neg_chk]. Qed.

Lemma pow10_nat : forall n : nat, (10 ^ n)%R = p10 (Z.of_nat n).
Proof.
  intros n. unfold p10. rewrite <- IZR_Zpower by lia. change (radix10 : Z) with 10.
  rewrite <- pow_IZR. reflexivity.
Qed.

Lemma powinv10_nat : forall n : nat, ((/ 10) ^ n)%R = p10 (- Z.of_nat n).
Proof.
  intros n. unfold p10. rewrite bpow_opp. fold (p10 (Z.of_nat n)). rewrite <- pow10_nat.
  rewrite pow_inv. reflexivity.
Qed.

Lemma two_pow_nat : forall k : nat, Z.of_nat (2 ^ k) = 2 ^ Z.of_nat k.
Proof. intros k. rewrite Nat2Z.inj_pow. reflexivity. Qed.

(* M1, real-number form *)
Theorem table64_pos_accuracy : forall k, (k < 9)%nat ->
  (Rabs (SF2R radix2 (nth k (pow10_table F64 true) S754_nan) - p10 (2 ^ Z.of_nat k))
     <= bpow radix2 (-53) * p10 (2 ^ Z.of_nat k))%R.
Proof.
  intros k Hk. rewrite <- two_pow_nat, <- pow10_nat.
  apply (tbl_ok_nth F64 _ 10 k tbl64_pos_ok). rewrite pow10_table_length64. exact Hk.
Qed.

Theorem table64_neg_accuracy : forall k, (k < 9)%nat ->
  (Rabs (SF2R radix2 (nth k (pow10_table F64 false) S754_nan) - p10 (- 2 ^ Z.of_nat k))
     <= bpow radix2 (-53) * p10 (- 2 ^ Z.of_nat k))%R.
Proof.
  intros k Hk. rewrite <- two_pow_nat, <- powinv10_nat.
  apply (tbl_ok_nth F64 _ (/ 10) k tbl64_neg_ok). rewrite pow10_table_length64. exact Hk.
Qed.

Theorem table32_pos_accuracy : forall k, (k < 6)%nat ->
  (Rabs (SF2R radix2 (nth k (pow10_table F32 true) S754_nan) - p10 (2 ^ Z.of_nat k))
     <= bpow radix2 (-24) * p10 (2 ^ Z.of_nat k))%R.
Proof.
  intros k Hk. rewrite <- two_pow_nat, <- pow10_nat.
  apply (tbl_ok_nth F32 _ 10 k tbl32_pos_ok). rewrite pow10_table_length32. exact Hk.
Qed.

Theorem table32_neg_accuracy : forall k, (k < 6)%nat ->
  (Rabs (SF2R radix2 (nth k (pow10_table F32 false) S754_nan) - p10 (- 2 ^ Z.of_nat k))
     <= bpow radix2 (-24) * p10 (- 2 ^ Z.of_nat k))%R.
Proof.
  intros k Hk. rewrite <- two_pow_nat, <- powinv10_nat.
  apply (tbl_ok_nth F32 _ (/ 10) k tbl32_neg_ok). rewrite pow10_table_length32. exact Hk.
Qed.

(* ------------------------------------------------------------------------------------------ *)
(* Part 4 — M4: make_float                                                                      *)
(* ------------------------------------------------------------------------------------------ *)

(* v approximates X > 0 after n roundings of relative size at most u *)
Definition within (u : R) (n : nat) (v X : R) : Prop :=
  ((1 - u) ^ n * X <= v <= (1 + u) ^ n * X)%R.

Lemma within_refl : forall u X, within u 0 X X.
Proof. intros u X. unfold within. cbn [pow]. lra. Qed.

Lemma pow_le_1 : forall x n, (0 <= x <= 1)%R -> (x ^ n <= 1)%R.
Proof.
  intros x n Hx. apply Rle_trans with (1 ^ n)%R; [apply pow_incr; exact Hx | rewrite pow1; lra].
Qed.

Lemma pow_1mu_le : forall u n n', (0 <= u <= 1)%R -> (n <= n')%nat -> ((1 - u) ^ n' <= (1 - u) ^ n)%R.
Proof.
  intros u n n' Hu Hn. replace n' with (n + (n' - n))%nat by lia. rewrite pow_add.
  assert (H0 : (0 <= (1 - u) ^ n)%R) by (apply pow_le; lra).
  assert (H1 : ((1 - u) ^ (n' - n) <= 1)%R).
  { apply pow_le_1. lra. }
  nra.
Qed.

Lemma pow_1pu_le : forall u n n', (0 <= u)%R -> (n <= n')%nat -> ((1 + u) ^ n <= (1 + u) ^ n')%R.
Proof. intros u n n' Hu Hn. apply Rle_pow; [lra | exact Hn]. Qed.

Lemma within_weaken : forall u n n' v X, (0 <= u <= 1)%R -> (0 <= X)%R -> (n <= n')%nat ->
  within u n v X -> within u n' v X.
Proof.
  intros u n n' v X Hu HX Hn [H1 H2]. split.
  - apply Rle_trans with (2 := H1). apply Rmult_le_compat_r; [exact HX|].
    apply pow_1mu_le; assumption.
  - apply Rle_trans with (1 := H2). apply Rmult_le_compat_r; [exact HX|].
    apply pow_1pu_le; [lra | exact Hn].
Qed.

Lemma within_mult : forall u n v X p B, (0 <= u <= 1)%R -> (0 <= X)%R -> (0 <= B)%R ->
  within u n v X -> (Rabs (p - B) <= u * B)%R -> within u (S n) (v * p) (X * B).
Proof.
  intros u n v X p B Hu HX HB [H1 H2] Hp.
  apply Rabs_le_inv in Hp.
  assert (Ha : (0 <= (1 - u) ^ n)%R) by (apply pow_le; lra).
  assert (Hb : (0 <= (1 + u) ^ n)%R) by (apply pow_le; lra).
  assert (Hv : (0 <= v)%R) by (apply Rle_trans with (2 := H1); apply Rmult_le_pos; assumption).
  assert (Hp0 : (0 <= p)%R) by nra.
  unfold within. cbn [pow]. split.
  - replace ((1 - u) * (1 - u) ^ n * (X * B))%R with (((1 - u) ^ n * X) * ((1 - u) * B))%R by ring.
    apply Rmult_le_compat; [apply Rmult_le_pos; assumption | nra | exact H1 | lra].
  - replace ((1 + u) * (1 + u) ^ n * (X * B))%R with (((1 + u) ^ n * X) * ((1 + u) * B))%R by ring.
    apply Rmult_le_compat; [exact Hv | exact Hp0 | exact H2 | lra].
Qed.

Lemma within_round : forall u n v X d, (0 <= u <= 1)%R -> (0 <= X)%R ->
  within u n v X -> (Rabs d <= u)%R -> within u (S n) (v * (1 + d)) X.
Proof.
  intros u n v X d Hu HX Hw Hd.
  replace X with (X * 1)%R by ring. apply within_mult; try assumption; [lra|].
  replace (1 + d - 1)%R with d by ring. lra.
Qed.

Lemma within_abs : forall u n v X c, (0 <= u <= 1)%R -> (0 <= X)%R ->
  within u n v X -> ((1 + u) ^ n - 1 <= c)%R -> (1 - (1 - u) ^ n <= c)%R ->
  (Rabs (v - X) <= c * X)%R.
Proof.
  intros u n v X c Hu HX [H1 H2] Hc1 Hc2. apply Rabs_le. split; nra.
Qed.

Lemma range_ends : forall X B (N : nat) l h, (0 < X)%R -> (0 < B)%R ->
  (l <= X <= h)%R -> (l <= X * B ^ N <= h)%R ->
  forall j, (j <= N)%nat -> (l <= X * B ^ j <= h)%R.
Proof.
  intros X B N l h HX HB H0 HN j Hj.
  destruct (Rle_lt_dec 1 B) as [H1|H1].
  - assert (A : (1 <= B ^ j)%R) by (apply pow_R1_Rle; exact H1).
    assert (C : (B ^ j <= B ^ N)%R) by (apply Rle_pow; assumption).
    split; nra.
  - assert (A : (B ^ j <= 1)%R) by (apply pow_le_1; lra).
    assert (C : (B ^ N <= B ^ j)%R).
    { replace N with (j + (N - j))%nat by lia. rewrite pow_add.
      assert (D : (B ^ (N - j) <= 1)%R) by (apply pow_le_1; lra).
      assert (E : (0 < B ^ j)%R) by (apply pow_lt; exact HB). nra. }
    assert (E : (0 < B ^ j)%R) by (apply pow_lt; exact HB).
    split; nra.
Qed.

(* number of 1 bits among the k low bits of e = number of multiplications in make_float *)
Fixpoint popc (k : nat) (e : Z) : nat :=
  match k with
  | O => O
  | S k' => ((if Z.odd e then 1 else 0) + popc k' (Z.shiftr e 1))%nat
  end.

Lemma popc_0 : forall k, popc k 0 = O.
Proof. induction k as [|k IH]; [reflexivity|]. cbn [popc]. rewrite Z.shiftr_0_l, IH. reflexivity. Qed.

Lemma popc_le : forall k e, (popc k e <= k)%nat.
Proof.
  induction k as [|k IH]; intros e; [cbn; lia|]. cbn [popc].
  specialize (IH (Z.shiftr e 1)). destruct (Z.odd e); lia.
Qed.

Section Loop.
Variable f : fmt.
Hypothesis Hf : good_fmt f.
Variable NMAX : nat.
Hypothesis Hup : ((1 + uro f) ^ NMAX <= 2)%R.
Hypothesis Hum : (/ 2 <= (1 - uro f) ^ NMAX)%R.

(* safe range for exact products: twice the smallest normal number .. 2^(emax-2) *)
Definition lo_R : R := bpow radix2 (femin f + prec f).
Definition hi_R : R := bpow radix2 (emax f - 2).

Lemma u01 : (0 <= uro f <= 1)%R.
Proof. pose proof (uro_pos f). pose proof (uro_lt_1 f Hf). lra. Qed.

Lemma half_lo : (/ 2 * lo_R = bpow radix2 (femin f + prec f - 1))%R.
Proof.
  unfold lo_R. replace (femin f + prec f - 1) with (-1 + (femin f + prec f)) by ring.
  rewrite (bpow_plus radix2 (-1)). reflexivity.
Qed.

Lemma twice_hi : (2 * hi_R = bpow radix2 (emax f - 1))%R.
Proof.
  unfold hi_R. replace (emax f - 1) with (1 + (emax f - 2)) by ring.
  rewrite (bpow_plus radix2 1). reflexivity.
Qed.

(* one multiplication by a table entry *)
Lemma mul_step : forall x v X B n,
  valid f x -> valid f v -> FloatModel.is_finite x = true -> FloatModel.is_finite v = true ->
  (0 < X)%R -> (0 < B)%R ->
  within (uro f) n (SF2R radix2 x) X -> (Rabs (SF2R radix2 v - B) <= uro f * B)%R ->
  (S n <= NMAX)%nat -> (lo_R <= X * B <= hi_R)%R ->
  valid f (fmul f x v) /\ FloatModel.is_finite (fmul f x v) = true /\
  within (uro f) (S (S n)) (SF2R radix2 (fmul f x v)) (X * B).
Proof.
  intros x v X B n Vx Vv Fx Fv HX HB Hw Hv Hn [Hl Hh].
  pose proof u01 as Hu.
  assert (W : within (uro f) (S n) (SF2R radix2 x * SF2R radix2 v) (X * B)).
  { apply within_mult; try assumption; lra. }
  assert (XB : (0 < X * B)%R) by (apply Rmult_lt_0_compat; assumption).
  destruct W as [W1 W2].
  assert (L : (/ 2 * lo_R <= SF2R radix2 x * SF2R radix2 v)%R).
  { apply Rle_trans with (2 := W1).
    assert ((1 - uro f) ^ NMAX <= (1 - uro f) ^ S n)%R by (apply pow_1mu_le; assumption).
    assert (0 < lo_R)%R by apply bpow_gt_0. nra. }
  assert (U : (SF2R radix2 x * SF2R radix2 v <= 2 * hi_R)%R).
  { apply Rle_trans with (1 := W2).
    assert ((1 + uro f) ^ S n <= (1 + uro f) ^ NMAX)%R by (apply pow_1pu_le; [lra|assumption]).
    assert (0 < hi_R)%R by apply bpow_gt_0.
    assert (0 <= (1 + uro f) ^ S n)%R by (apply pow_le; lra). nra. }
  assert (P : (0 <= SF2R radix2 x * SF2R radix2 v)%R).
  { apply Rle_trans with (2 := L). assert (0 < lo_R)%R by apply bpow_gt_0. lra. }
  destruct (fmul_correct f x v Hf Vx Vv Fx Fv) as [_ [[d [Hd Hr]] [Vr Fr]]].
  - rewrite Rabs_pos_eq by exact P. rewrite <- half_lo, <- twice_hi. split; assumption.
  - split; [exact Vr|]. split; [exact Fr|]. rewrite Hr.
    apply within_round; try assumption; [lra | split; assumption].
Qed.

Lemma loop_ok : forall tbl B, tbl_ok f B tbl -> forall fuel x e X n,
  (0 < B)%R -> 0 <= e < 2 ^ Z.of_nat (length tbl) -> (length tbl <= fuel)%nat ->
  valid f x -> FloatModel.is_finite x = true -> (0 < X)%R ->
  within (uro f) n (SF2R radix2 x) X ->
  (n + 2 * popc (length tbl) e <= NMAX)%nat ->
  (forall j, (j <= Z.to_nat e)%nat -> (lo_R <= X * B ^ j <= hi_R)%R) ->
  exists r, make_float_loop f tbl fuel x e = Some r /\ valid f r /\
    FloatModel.is_finite r = true /\
    within (uro f) (n + 2 * popc (length tbl) e) (SF2R radix2 r) (X * B ^ Z.to_nat e).
Proof.
  intros tbl B H. induction H as [B|B v t Vv Fv Av Ht IH]; intros fuel x e X n HB He Hfuel Vx Fx HX Hw Hn Hr.
  - cbn [length] in He. change (2 ^ Z.of_nat 0) with 1 in He.
    assert (e = 0) by lia. subst e. exists x.
    split; [destruct fuel; reflexivity|]. split; [exact Vx|]. split; [exact Fx|].
    cbn [length popc]. replace (n + 2 * 0)%nat with n by lia. cbn [Z.to_nat pow].
    replace (X * 1)%R with X by ring. exact Hw.
  - pose proof u01 as Hu.
    destruct fuel as [|fuel]; [cbn [length] in Hfuel; lia|].
    cbn [make_float_loop]. destruct (e =? 0) eqn:E0.
    + apply Z.eqb_eq in E0. subst e. exists x.
      split; [reflexivity|]. split; [exact Vx|]. split; [exact Fx|].
      cbn [Z.to_nat pow]. replace (X * 1)%R with X by ring.
      rewrite popc_0. replace (n + 2 * 0)%nat with n by lia. exact Hw.
    + apply Z.eqb_neq in E0.
      cbn [length popc] in He, Hfuel, Hn |- *.
      rewrite Nat2Z.inj_succ, Z.pow_succ_r in He by lia.
      assert (Hq : e = 2 * Z.shiftr e 1 + Z.b2z (Z.odd e)).
      { rewrite <- Z.div2_spec. apply Z.div2_odd. }
      set (q := Z.shiftr e 1) in *.
      set (pq := popc (length t) q) in *.
      assert (BB : (0 < B * B)%R) by (apply Rmult_lt_0_compat; assumption).
      destruct (Z.odd e) eqn:Odd; cbn [Z.b2z] in Hq.
      * assert (Hq0 : 0 <= q) by lia.
        assert (Hnat : Z.to_nat e = S (2 * Z.to_nat q)) by lia.
        assert (Hpow : forall j, (X * B * (B * B) ^ j = X * B ^ S (2 * j))%R).
        { intros j. rewrite <- pow_sqr. cbn [pow]. ring. }
        destruct (mul_step x v X B n Vx Vv Fx Fv HX HB Hw Av) as [Vr [Fr Wr]].
        { lia. }
        { replace (X * B)%R with (X * B ^ 1)%R by (cbn [pow]; ring). apply Hr. lia. }
        destruct (IH fuel (fmul f x v) q (X * B)%R (S (S n))) as [r [R1 [R2 [R3 R4]]]];
          try assumption.
        { lia. } { lia. } { apply Rmult_lt_0_compat; assumption. } { lia. }
        { intros j Hj. rewrite Hpow. apply Hr. lia. }
        exists r. split; [exact R1|]. split; [exact R2|]. split; [exact R3|].
        rewrite Hnat, <- Hpow.
        replace (n + 2 * (1 + pq))%nat with (S (S n) + 2 * pq)%nat by lia. exact R4.
      * assert (Hq0 : 0 <= q) by lia.
        assert (Hnat : Z.to_nat e = (2 * Z.to_nat q)%nat) by lia.
        assert (Hpow : forall j, (X * (B * B) ^ j = X * B ^ (2 * j))%R).
        { intros j. rewrite <- pow_sqr. reflexivity. }
        destruct (IH fuel x q X n) as [r [R1 [R2 [R3 R4]]]]; try assumption.
        { lia. } { lia. }
        { intros j Hj. rewrite Hpow. apply Hr. lia. }
        exists r. split; [exact R1|]. split; [exact R2|]. split; [exact R3|].
        rewrite Hnat, <- Hpow. exact R4.
Qed.

(* --- the same, when the upper bound is replaced by "the result is finite" --- *)

Lemma mul_step_fin : forall x v X B n,
  valid f x -> valid f v -> FloatModel.is_finite x = true -> FloatModel.is_finite v = true ->
  (0 < X)%R -> (0 < B)%R ->
  within (uro f) n (SF2R radix2 x) X -> (Rabs (SF2R radix2 v - B) <= uro f * B)%R ->
  (S n <= NMAX)%nat -> (lo_R <= X * B)%R ->
  FloatModel.is_finite (fmul f x v) = true ->
  valid f (fmul f x v) /\ within (uro f) (S (S n)) (SF2R radix2 (fmul f x v)) (X * B).
Proof.
  intros x v X B n Vx Vv Fx Fv HX HB Hw Hv Hn Hl Fr.
  pose proof u01 as Hu.
  assert (W : within (uro f) (S n) (SF2R radix2 x * SF2R radix2 v) (X * B)).
  { apply within_mult; try assumption; lra. }
  assert (XB : (0 < X * B)%R) by (apply Rmult_lt_0_compat; assumption).
  assert (L : (/ 2 * lo_R <= SF2R radix2 x * SF2R radix2 v)%R).
  { destruct W as [W1 W2]. apply Rle_trans with (2 := W1).
    assert ((1 - uro f) ^ NMAX <= (1 - uro f) ^ S n)%R by (apply pow_1mu_le; assumption).
    assert (0 < lo_R)%R by apply bpow_gt_0. nra. }
  assert (P : (0 <= SF2R radix2 x * SF2R radix2 v)%R).
  { apply Rle_trans with (2 := L). assert (0 < lo_R)%R by apply bpow_gt_0. lra. }
  destruct Hf as [H0 H1].
  destruct (SFmul_rel_fin (prec f) (emax f) H0 H1 x v Vx Vv Fx Fv) as [[d [Hd Hr]] Vr].
  - rewrite Rabs_pos_eq by exact P. pose proof half_lo as HL. unfold femin in HL.
    rewrite <- HL. exact L.
  - exact Fr.
  - split; [exact Vr|]. unfold fmul. rewrite Hr.
    apply within_round; try assumption. lra.
Qed.

Lemma loop_nonfinite : forall tbl fuel x e r, FloatModel.is_finite x = false ->
  make_float_loop f tbl fuel x e = Some r -> FloatModel.is_finite r = false.
Proof.
  intros tbl. induction tbl as [|v t IH]; intros fuel x e r Fx H.
  - destruct fuel; cbn [make_float_loop] in H; destruct (e =? 0); try discriminate;
      inversion H; subst; exact Fx.
  - destruct fuel as [|fuel]; cbn [make_float_loop] in H; destruct (e =? 0); try discriminate.
    + inversion H; subst; exact Fx.
    + inversion H; subst; exact Fx.
    + destruct (Z.odd e).
      * apply IH in H; [exact H|]. apply SFmul_nonfinite. exact Fx.
      * apply IH in H; [exact H| exact Fx].
Qed.

Lemma loop_ok_fin : forall tbl B, tbl_ok f B tbl -> forall fuel x e X n r,
  (0 < B)%R -> 0 <= e ->
  valid f x -> FloatModel.is_finite x = true -> (0 < X)%R ->
  within (uro f) n (SF2R radix2 x) X ->
  (n + 2 * popc (length tbl) e <= NMAX)%nat ->
  (forall j, (j <= Z.to_nat e)%nat -> (lo_R <= X * B ^ j)%R) ->
  make_float_loop f tbl fuel x e = Some r -> FloatModel.is_finite r = true ->
  valid f r /\
  within (uro f) (n + 2 * popc (length tbl) e) (SF2R radix2 r) (X * B ^ Z.to_nat e).
Proof.
  intros tbl B H. induction H as [B|B v t Vv Fv Av Ht IH];
    intros fuel x e X n r HB He Vx Fx HX Hw Hn Hr Hrun Fr.
  - assert (E : e = 0 /\ r = x).
    { destruct fuel; cbn [make_float_loop] in Hrun; destruct (e =? 0) eqn:E0; try discriminate;
        apply Z.eqb_eq in E0; inversion Hrun; auto. }
    destruct E as [-> ->]. split; [exact Vx|].
    cbn [length popc]. replace (n + 2 * 0)%nat with n by lia. cbn [Z.to_nat pow].
    replace (X * 1)%R with X by ring. exact Hw.
  - pose proof u01 as Hu.
    destruct fuel as [|fuel]; cbn [make_float_loop] in Hrun; destruct (e =? 0) eqn:E0;
      try discriminate.
    + apply Z.eqb_eq in E0. inversion Hrun. subst e r. split; [exact Vx|].
      cbn [Z.to_nat pow]. replace (X * 1)%R with X by ring.
      rewrite popc_0. replace (n + 2 * 0)%nat with n by lia. exact Hw.
    + apply Z.eqb_eq in E0. inversion Hrun. subst e r. split; [exact Vx|].
      cbn [Z.to_nat pow]. replace (X * 1)%R with X by ring.
      rewrite popc_0. replace (n + 2 * 0)%nat with n by lia. exact Hw.
    + apply Z.eqb_neq in E0.
      cbn [length popc] in Hn |- *.
      assert (Hq : e = 2 * Z.shiftr e 1 + Z.b2z (Z.odd e)).
      { rewrite <- Z.div2_spec. apply Z.div2_odd. }
      set (q := Z.shiftr e 1) in *.
      set (pq := popc (length t) q) in *.
      assert (BB : (0 < B * B)%R) by (apply Rmult_lt_0_compat; assumption).
      destruct (Z.odd e) eqn:Odd; cbn [Z.b2z] in Hq.
      * assert (Hq0 : 0 <= q) by lia.
        assert (Hnat : Z.to_nat e = S (2 * Z.to_nat q)) by lia.
        assert (Hpow : forall j, (X * B * (B * B) ^ j = X * B ^ S (2 * j))%R).
        { intros j. rewrite <- pow_sqr. cbn [pow]. ring. }
        destruct (FloatModel.is_finite (fmul f x v)) eqn:Fm.
        2:{ rewrite (loop_nonfinite _ _ _ _ _ Fm Hrun) in Fr. discriminate. }
        destruct (mul_step_fin x v X B n Vx Vv Fx Fv HX HB Hw Av) as [Vr Wr].
        { lia. }
        { replace (X * B)%R with (X * B ^ 1)%R by (cbn [pow]; ring). apply Hr. lia. }
        { exact Fm. }
        destruct (IH fuel (fmul f x v) q (X * B)%R (S (S n)) r) as [R2 R4]; try assumption.
        { apply Rmult_lt_0_compat; assumption. } { lia. }
        { intros j Hj. rewrite Hpow. apply Hr. lia. }
        split; [exact R2|]. rewrite Hnat, <- Hpow.
        replace (n + 2 * (1 + pq))%nat with (S (S n) + 2 * pq)%nat by lia. exact R4.
      * assert (Hq0 : 0 <= q) by lia.
        assert (Hnat : Z.to_nat e = (2 * Z.to_nat q)%nat) by lia.
        assert (Hpow : forall j, (X * (B * B) ^ j = X * B ^ (2 * j))%R).
        { intros j. rewrite <- pow_sqr. reflexivity. }
        destruct (IH fuel x q X n r) as [R2 R4]; try assumption.
        { intros j Hj. rewrite Hpow. apply Hr. lia. }
        split; [exact R2|]. rewrite Hnat, <- Hpow. exact R4.
Qed.

End Loop.

(* make_float for a format whose tables are accurate *)
Lemma make_float_ok : forall f NMAX L, good_fmt f ->
  ((1 + uro f) ^ NMAX <= 2)%R -> (/ 2 <= (1 - uro f) ^ NMAX)%R ->
  tbl_ok f 10 (pow10_table f true) -> tbl_ok f (/ 10) (pow10_table f false) ->
  length (pow10_table f true) = L -> length (pow10_table f false) = L -> (L <= 64)%nat ->
  forall x X n e,
  valid f x -> FloatModel.is_finite x = true -> (0 < X)%R ->
  within (uro f) n (SF2R radix2 x) X -> (n + 2 * popc L (Z.abs e) <= NMAX)%nat ->
  - 2 ^ Z.of_nat L < e < 2 ^ Z.of_nat L ->
  (lo_R f <= X <= hi_R f)%R -> (lo_R f <= X * p10 e <= hi_R f)%R ->
  exists r, make_float f x e = Some r /\ valid f r /\ FloatModel.is_finite r = true /\
    within (uro f) (n + 2 * popc L (Z.abs e)) (SF2R radix2 r) (X * p10 e).
Proof.
  intros f NMAX L Hf Hup Hum Tp Tn Lp Ln L64 x X n e Vx Fx HX Hw Hn He R0 Re.
  unfold make_float. destruct (0 <? e) eqn:Epos.
  - apply Z.ltb_lt in Epos.
    replace (e <=? 0) with false by (symmetry; apply Z.leb_gt; exact Epos).
    assert (P : p10 e = (10 ^ Z.to_nat e)%R) by (rewrite pow10_nat, Z2Nat.id by lia; reflexivity).
    rewrite P in *. rewrite <- Lp in *. rewrite Z.abs_eq in * by lia.
    apply (loop_ok f Hf NMAX Hup Hum _ 10%R Tp); try assumption; try lia; try lra.
    apply range_ends; try assumption; lra.
  - apply Z.ltb_ge in Epos.
    replace (e <=? 0) with true by (symmetry; apply Z.leb_le; exact Epos).
    assert (P : p10 e = ((/ 10) ^ Z.to_nat (- e))%R).
    { rewrite powinv10_nat, Z2Nat.id by lia. f_equal. ring. }
    rewrite P in *. rewrite <- Ln in *. rewrite Z.abs_neq in * by lia.
    apply (loop_ok f Hf NMAX Hup Hum _ (/ 10)%R Tn); try assumption; try lia; try lra.
    apply range_ends; try assumption; lra.
Qed.

(* --- numeric facts about the unit roundoffs --- *)

Lemma uro64_val : uro F64 = (/ 9007199254740992)%R.
Proof.
  unfold uro. change (- prec F64) with (- (53)). rewrite bpow_opp, <- IZR_Zpower by lia.
  reflexivity.
Qed.

Lemma uro32_val : uro F32 = (/ 16777216)%R.
Proof.
  unfold uro. change (- prec F32) with (- (24)). rewrite bpow_opp, <- IZR_Zpower by lia.
  reflexivity.
Qed.

Lemma u64_up : ((1 + uro F64) ^ 18 - 1 <= 2e-15)%R.
Proof. rewrite uro64_val. lra. Qed.
Lemma u64_dn : (1 - (1 - uro F64) ^ 18 <= 2e-15)%R.
Proof. rewrite uro64_val. lra. Qed.
Lemma u32_up : ((1 + uro F32) ^ 12 - 1 <= 7.2e-7)%R.
Proof. rewrite uro32_val. lra. Qed.
Lemma u32_dn : (1 - (1 - uro F32) ^ 12 <= 7.2e-7)%R.
Proof. rewrite uro32_val. lra. Qed.

Lemma u64_hyp : ((1 + uro F64) ^ 18 <= 2)%R /\ (/ 2 <= (1 - uro F64) ^ 18)%R.
Proof. pose proof u64_up. pose proof u64_dn. split; lra. Qed.
Lemma u32_hyp : ((1 + uro F32) ^ 12 <= 2)%R /\ (/ 2 <= (1 - uro F32) ^ 12)%R.
Proof. pose proof u32_up. pose proof u32_dn. split; lra. Qed.

Lemma lo64_val : lo_R F64 = bpow radix2 (-1021). Proof. reflexivity. Qed.
Lemma hi64_val : hi_R F64 = bpow radix2 1022. Proof. reflexivity. Qed.
Lemma lo32_val : lo_R F32 = bpow radix2 (-125). Proof. reflexivity. Qed.
Lemma hi32_val : hi_R F32 = bpow radix2 126. Proof. reflexivity. Qed.

(* integers in the safe range of a format *)
Lemma int_in_range : forall f m k, good_fmt f -> 1 <= m < 2 ^ k -> 0 <= k <= emax f - 2 ->
  femin f + prec f <= 0 -> (lo_R f <= IZR m <= hi_R f)%R.
Proof.
  intros f m k Hf Hm Hk Hlo. unfold lo_R, hi_R. split.
  - apply Rle_trans with 1%R; [|apply IZR_le; lia].
    change 1%R with (bpow radix2 0). apply bpow_le. exact Hlo.
  - apply Rle_trans with (bpow radix2 k); [|apply bpow_le; lia].
    rewrite <- IZR_Zpower by lia. apply IZR_le. change (radix2 : Z) with 2. lia.
Qed.

(* M4, general form: any decimal exponent the table can express, provided the exact value
   m * 10^e is in the safe normal range [2^-1021, 2^1022] *)
Theorem make_float64_accuracy_gen : forall m e, 1 <= m < 2 ^ 53 -> -511 <= e <= 511 ->
  (bpow radix2 (-1021) <= IZR m * p10 e <= bpow radix2 1022)%R ->
  exists r, make_float F64 (f_of_Z F64 m) e = Some r /\ valid F64 r /\
    FloatModel.is_finite r = true /\
    (Rabs (SF2R radix2 r - IZR m * p10 e) <= 2e-15 * (IZR m * p10 e))%R.
Proof.
  intros m e Hm He Hr.
  destruct (f_of_Z_exact F64 m good_F64) as [X1 [X2 X3]]; [change (prec F64) with 53; lia|].
  assert (Xpos : (0 < IZR m)%R) by (apply IZR_lt; lia).
  pose proof (popc_le 9 (Z.abs e)) as Hp.
  destruct u64_hyp as [Hup Hum].
  destruct (make_float_ok F64 18 9 good_F64 Hup Hum tbl64_pos_ok tbl64_neg_ok
              (pow10_table_length64 true) (pow10_table_length64 false) ltac:(lia)
              (f_of_Z F64 m) (IZR m) 0%nat e X2 X3 Xpos) as [r [R1 [R2 [R3 R4]]]].
  - rewrite X1. apply within_refl.
  - lia.
  - change (2 ^ Z.of_nat 9) with 512. lia.
  - apply (int_in_range F64 m 53 good_F64); [lia | split; [lia | discriminate] | discriminate].
  - rewrite lo64_val, hi64_val. exact Hr.
  - exists r. split; [exact R1|]. split; [exact R2|]. split; [exact R3|].
    assert (P : (0 <= IZR m * p10 e)%R).
    { left. apply Rmult_lt_0_compat; [exact Xpos | apply p10_pos]. }
    apply within_abs with (uro F64) 18%nat.
    + apply (u01 F64 good_F64).
    + exact P.
    + apply within_weaken with (2 := P) (4 := R4); [apply (u01 F64 good_F64) | lia].
    + exact u64_up.
    + exact u64_dn.
Qed.

Lemma p10_le_bpow2 : forall e k, 0 <= e -> 0 <= k -> 10 ^ e <= 2 ^ k ->
  (p10 e <= bpow radix2 k)%R.
Proof.
  intros e k He Hk H. unfold p10. rewrite <- !IZR_Zpower by assumption. apply IZR_le. exact H.
Qed.

Lemma p10_mono : forall a b, a <= b -> (p10 a <= p10 b)%R.
Proof. intros a b H. apply bpow_le. exact H. Qed.

Lemma p10_0 : p10 0 = 1%R. Proof. reflexivity. Qed.

Lemma p10_opp : forall e, p10 (- e) = (/ p10 e)%R.
Proof. intros e. apply bpow_opp. Qed.

(* decimal exponents of absolute value at most E keep m * 10^e between 2^-K and 2^(k+K) *)
Lemma dec_range : forall m e k E K, 1 <= m < 2 ^ k -> 0 <= k -> 0 <= E -> 0 <= K ->
  - E <= e <= E -> 10 ^ E <= 2 ^ K ->
  (bpow radix2 (- K) <= IZR m * p10 e <= bpow radix2 (k + K))%R.
Proof.
  intros m e k E K Hm Hk HE HK He H10.
  assert (M1 : (1 <= IZR m)%R) by (apply IZR_le; lia).
  assert (M2 : (IZR m <= bpow radix2 k)%R).
  { rewrite <- IZR_Zpower by lia. apply IZR_le. change (radix2 : Z) with 2. lia. }
  assert (PE : (p10 E <= bpow radix2 K)%R) by (apply p10_le_bpow2; assumption).
  assert (P1 : (p10 e <= p10 E)%R) by (apply p10_mono; lia).
  assert (P2 : (p10 (- E) <= p10 e)%R) by (apply p10_mono; lia).
  assert (P0 : (0 < p10 e)%R) by apply p10_pos.
  assert (B0 : (0 < bpow radix2 k)%R) by apply bpow_gt_0.
  assert (BK : (0 < bpow radix2 K)%R) by apply bpow_gt_0.
  split.
  - apply Rle_trans with (p10 (- E)).
    + rewrite bpow_opp, p10_opp. apply Rinv_le_contravar; [apply p10_pos | exact PE].
    + apply Rle_trans with (1 := P2). nra.
  - rewrite bpow_plus. apply Rmult_le_compat; lra.
Qed.

(* M4 as stated: |e| <= 290.  Justification of the range: 10^290 < 2^964, so for 1 <= m < 2^53
   every exact intermediate product lies in [2^-964, 2^1017], inside the normal range
   [2^-1022, 2^1024) of binary64 with room for the accumulated rounding factor. *)
Theorem make_float64_accuracy : forall m e, 1 <= m < 2 ^ 53 -> -290 <= e <= 290 ->
  exists r, make_float F64 (f_of_Z F64 m) e = Some r /\ valid F64 r /\
    FloatModel.is_finite r = true /\
    (Rabs (SF2R radix2 r - IZR m * p10 e) <= 2e-15 * (IZR m * p10 e))%R.
Proof.
  intros m e Hm He. apply make_float64_accuracy_gen; [exact Hm | lia |].
  destruct (dec_range m e 53 290 964 Hm) as [H1 H2]; try lia.
  split.
  - apply Rle_trans with (2 := H1). apply bpow_le. lia.
  - apply Rle_trans with (1 := H2). apply bpow_le. lia.
Qed.

(* wider exponent range for binary64, still without any side condition: 10^291 < 2^967 and
   10^307 < 2^1020 *)
Theorem make_float64_accuracy_wide : forall m e, 1 <= m < 2 ^ 53 -> -307 <= e <= 291 ->
  exists r, make_float F64 (f_of_Z F64 m) e = Some r /\ valid F64 r /\
    FloatModel.is_finite r = true /\
    (Rabs (SF2R radix2 r - IZR m * p10 e) <= 2e-15 * (IZR m * p10 e))%R.
Proof.
  intros m e Hm He. apply make_float64_accuracy_gen; [exact Hm | lia |].
  assert (M1 : (1 <= IZR m)%R) by (apply IZR_le; lia).
  assert (M2 : (IZR m <= bpow radix2 53)%R).
  { rewrite <- IZR_Zpower by lia. apply IZR_le. change (radix2 : Z) with 2. lia. }
  assert (P0 : (0 < p10 e)%R) by apply p10_pos.
  assert (B53 : (0 < bpow radix2 53)%R) by apply bpow_gt_0.
  destruct (Z_le_gt_dec 0 e) as [Hpos|Hneg].
  - assert (P1 : (1 <= p10 e)%R) by (rewrite <- p10_0; apply p10_mono; lia).
    assert (P2 : (p10 e <= bpow radix2 967)%R).
    { apply Rle_trans with (p10 291); [apply p10_mono; lia|]. apply p10_le_bpow2; lia. }
    split.
    + apply Rle_trans with 1%R; [change 1%R with (bpow radix2 0); apply bpow_le; lia | nra].
    + apply Rle_trans with (bpow radix2 (53 + 967)); [|apply bpow_le; lia].
      rewrite bpow_plus. apply Rmult_le_compat; lra.
  - assert (P1 : (p10 e <= 1)%R) by (rewrite <- p10_0; apply p10_mono; lia).
    assert (P2 : (bpow radix2 (- (1020)) <= p10 e)%R).
    { apply Rle_trans with (p10 (- (307))); [|apply p10_mono; lia].
      rewrite bpow_opp, p10_opp. apply Rinv_le_contravar; [apply p10_pos|].
      apply p10_le_bpow2; lia. }
    split.
    + apply Rle_trans with (bpow radix2 (- (1020))); [apply bpow_le; lia | nra].
    + apply Rle_trans with (bpow radix2 53); [nra | apply bpow_le; lia].
Qed.

(* --- binary32 --- *)

Lemma u32_up10 : ((1 + uro F32) ^ 10 - 1 <= 6e-7)%R.
Proof. rewrite uro32_val. lra. Qed.
Lemma u32_dn10 : (1 - (1 - uro F32) ^ 10 <= 6e-7)%R.
Proof. rewrite uro32_val. lra. Qed.

(* a decimal exponent of absolute value at most 38 has at most five 1 bits *)
Lemma popc6_38 : forall e, -38 <= e <= 38 -> (popc 6 (Z.abs e) <= 5)%nat.
Proof.
  intros e He.
  assert (H : forall n, (n <= 38)%nat -> (popc 6 (Z.of_nat n) <= 5)%nat).
  { intros n Hn. do 39 (destruct n as [|n]; [vm_compute; lia|]). lia. }
  replace (Z.abs e) with (Z.of_nat (Z.to_nat (Z.abs e))) by lia. apply H. lia.
Qed.

Lemma make_float32_within : forall m e, 1 <= m < 2 ^ 24 -> -63 <= e <= 63 ->
  (bpow radix2 (-125) <= IZR m * p10 e <= bpow radix2 126)%R ->
  exists r, make_float F32 (f_of_Z F32 m) e = Some r /\ valid F32 r /\
    FloatModel.is_finite r = true /\
    within (uro F32) (2 * popc 6 (Z.abs e)) (SF2R radix2 r) (IZR m * p10 e).
Proof.
  intros m e Hm He Hr.
  destruct (f_of_Z_exact F32 m good_F32) as [X1 [X2 X3]]; [change (prec F32) with 24; lia|].
  assert (Xpos : (0 < IZR m)%R) by (apply IZR_lt; lia).
  pose proof (popc_le 6 (Z.abs e)) as Hp.
  destruct u32_hyp as [Hup Hum].
  destruct (make_float_ok F32 12 6 good_F32 Hup Hum tbl32_pos_ok tbl32_neg_ok
              (pow10_table_length32 true) (pow10_table_length32 false) ltac:(lia)
              (f_of_Z F32 m) (IZR m) 0%nat e X2 X3 Xpos) as [r [R1 [R2 [R3 R4]]]].
  - rewrite X1. apply within_refl.
  - lia.
  - change (2 ^ Z.of_nat 6) with 64. lia.
  - apply (int_in_range F32 m 24 good_F32); [lia | split; [lia | discriminate] | discriminate].
  - rewrite lo32_val, hi32_val. exact Hr.
  - exists r. auto.
Qed.

(* binary32, any exponent the table can express: 12 rounding factors *)
Theorem make_float32_accuracy_gen : forall m e, 1 <= m < 2 ^ 24 -> -63 <= e <= 63 ->
  (bpow radix2 (-125) <= IZR m * p10 e <= bpow radix2 126)%R ->
  exists r, make_float F32 (f_of_Z F32 m) e = Some r /\ valid F32 r /\
    FloatModel.is_finite r = true /\
    (Rabs (SF2R radix2 r - IZR m * p10 e) <= 7.2e-7 * (IZR m * p10 e))%R.
Proof.
  intros m e Hm He Hr.
  destruct (make_float32_within m e Hm He Hr) as [r [R1 [R2 [R3 R4]]]].
  exists r. split; [exact R1|]. split; [exact R2|]. split; [exact R3|].
  assert (P : (0 <= IZR m * p10 e)%R).
  { left. apply Rmult_lt_0_compat; [apply IZR_lt; lia | apply p10_pos]. }
  pose proof (popc_le 6 (Z.abs e)) as Hp.
  apply within_abs with (uro F32) 12%nat.
  - apply (u01 F32 good_F32).
  - exact P.
  - apply within_weaken with (2 := P) (4 := R4); [apply (u01 F32 good_F32) | lia].
  - exact u32_up.
  - exact u32_dn.
Qed.

(* binary32, |e| <= 38 (the exponents parse_number sends to the float path): at most five
   multiplications, ten rounding factors *)
Theorem make_float32_accuracy : forall m e, 1 <= m < 2 ^ 24 -> -38 <= e <= 38 ->
  (bpow radix2 (-125) <= IZR m * p10 e <= bpow radix2 126)%R ->
  exists r, make_float F32 (f_of_Z F32 m) e = Some r /\ valid F32 r /\
    FloatModel.is_finite r = true /\
    (Rabs (SF2R radix2 r - IZR m * p10 e) <= 6e-7 * (IZR m * p10 e))%R.
Proof.
  intros m e Hm He Hr.
  destruct (make_float32_within m e Hm ltac:(lia) Hr) as [r [R1 [R2 [R3 R4]]]].
  exists r. split; [exact R1|]. split; [exact R2|]. split; [exact R3|].
  assert (P : (0 <= IZR m * p10 e)%R).
  { left. apply Rmult_lt_0_compat; [apply IZR_lt; lia | apply p10_pos]. }
  pose proof (popc6_38 e He) as Hp.
  apply within_abs with (uro F32) 10%nat.
  - apply (u01 F32 good_F32).
  - exact P.
  - apply within_weaken with (2 := P) (4 := R4); [apply (u01 F32 good_F32) | lia].
  - exact u32_up10.
  - exact u32_dn10.
Qed.

(* ------------------------------------------------------------------------------------------ *)
(* Part 5 — M5: the tail of parse_number                                                        *)
(* ------------------------------------------------------------------------------------------ *)

Definition sgnR (neg : bool) : R := if neg then (-1)%R else 1%R.
Definition sgn_sf (neg : bool) (r : spec_float) : spec_float := if neg then fneg r else r.

Lemma SF2R_fneg : forall r, SF2R radix2 (fneg r) = (- SF2R radix2 r)%R.
Proof.
  intros [s|s| |s m e]; cbn [fneg SFopp SF2R]; try (symmetry; apply Ropp_0).
  rewrite <- F2R_Zopp. destruct s; reflexivity.
Qed.

Lemma sgn_sf_props : forall f neg r, valid f r -> FloatModel.is_finite r = true ->
  valid f (sgn_sf neg r) /\ FloatModel.is_finite (sgn_sf neg r) = true /\
  SF2R radix2 (sgn_sf neg r) = (sgnR neg * SF2R radix2 r)%R.
Proof.
  intros f neg r V F. destruct neg; cbn [sgn_sf sgnR].
  - split; [|split].
    + destruct r; exact V.
    + destruct r; exact F.
    + rewrite SF2R_fneg. ring.
  - split; [exact V|]. split; [exact F|]. ring.
Qed.

Lemma sgn_err : forall neg v X c, (Rabs (v - X) <= c)%R ->
  (Rabs (sgnR neg * v - sgnR neg * X) <= c)%R.
Proof.
  intros neg v X c H. destruct neg; cbn [sgnR].
  - replace (-1 * v - -1 * X)%R with (- (v - X))%R by ring. rewrite Rabs_Ropp. exact H.
  - replace (1 * v - 1 * X)%R with (v - X)%R by ring. exact H.
Qed.

(* double branch: configuration with use_double, mantissa needing more than 23 bits or decimal
   exponent outside [-38, 38] *)
Theorem finish_double_accuracy : forall c neg mant expo, use_double c = true ->
  1 <= mant < 2 ^ 53 -> -290 <= expo <= 290 ->
  (mant > 2 ^ 23 - 1 \/ expo < -38 \/ expo > 38) ->
  exists r, finish c neg mant expo = NumDouble r /\ valid F64 r /\
    FloatModel.is_finite r = true /\
    (Rabs (SF2R radix2 r - sgnR neg * (IZR mant * p10 expo)) <= 2e-15 * (IZR mant * p10 expo))%R.
Proof.
  intros c neg mant expo UD Hm He Hbr.
  destruct (make_float64_accuracy mant expo Hm He) as [r [R1 [R2 [R3 R4]]]].
  destruct (sgn_sf_props F64 neg r R2 R3) as [S1 [S2 S3]].
  exists (sgn_sf neg r). split; [|split; [exact S1|split; [exact S2|]]].
  - unfold finish, exp_max_of. rewrite UD, R1.
    replace (mant =? 0) with false by (symmetry; apply Z.eqb_neq; lia).
    replace (expo >? 308) with false by (symmetry; rewrite Z.gtb_ltb; apply Z.ltb_ge; lia).
    replace (expo <? - (308) - 20) with false by (symmetry; apply Z.ltb_ge; lia).
    replace ((expo <? -38) || (expo >? 38) || (mant >? 2 ^ 23 - 1)) with true; [reflexivity|].
    symmetry. rewrite !orb_true_iff, !Z.gtb_ltb, !Z.ltb_lt. lia.
  - rewrite S3. apply sgn_err. exact R4.
Qed.

(* float branch of a configuration with use_double: small mantissa and exponent, value in the
   normal range of binary32 *)
Theorem finish_float_accuracy : forall c neg mant expo, use_double c = true ->
  1 <= mant <= 2 ^ 23 - 1 -> -38 <= expo <= 38 ->
  (bpow radix2 (-125) <= IZR mant * p10 expo <= bpow radix2 126)%R ->
  exists r, finish c neg mant expo = NumFloat r /\ valid F32 r /\
    FloatModel.is_finite r = true /\
    (Rabs (SF2R radix2 r - sgnR neg * (IZR mant * p10 expo)) <= 6e-7 * (IZR mant * p10 expo))%R.
Proof.
  intros c neg mant expo UD Hm He Hr.
  destruct (make_float32_accuracy mant expo ltac:(lia) He Hr) as [r [R1 [R2 [R3 R4]]]].
  destruct (sgn_sf_props F32 neg r R2 R3) as [S1 [S2 S3]].
  exists (sgn_sf neg r). split; [|split; [exact S1|split; [exact S2|]]].
  - unfold finish, exp_max_of. rewrite UD, R1.
    replace (mant =? 0) with false by (symmetry; apply Z.eqb_neq; lia).
    replace (expo >? 308) with false by (symmetry; rewrite Z.gtb_ltb; apply Z.ltb_ge; lia).
    replace (expo <? - (308) - 20) with false by (symmetry; apply Z.ltb_ge; lia).
    replace ((expo <? -38) || (expo >? 38) || (mant >? 2 ^ 23 - 1)) with false.
    + replace (is_inf r) with false by (destruct r; try reflexivity; discriminate R3).
      reflexivity.
    + symmetry. rewrite !orb_false_iff, !Z.gtb_ltb, !Z.ltb_ge. lia.
  - rewrite S3. apply sgn_err. exact R4.
Qed.

(* configuration without use_double (ARDUINOJSON_USE_DOUBLE = 0): everything goes through the
   binary32 path *)
Theorem finish_float_cfg_accuracy : forall c neg mant expo, use_double c = false ->
  1 <= mant < 2 ^ 24 -> -38 <= expo <= 38 ->
  (bpow radix2 (-125) <= IZR mant * p10 expo <= bpow radix2 126)%R ->
  exists r, finish c neg mant expo = NumFloat r /\ valid F32 r /\
    FloatModel.is_finite r = true /\
    (Rabs (SF2R radix2 r - sgnR neg * (IZR mant * p10 expo)) <= 6e-7 * (IZR mant * p10 expo))%R.
Proof.
  intros c neg mant expo UD Hm He Hr.
  destruct (make_float32_accuracy mant expo Hm He Hr) as [r [R1 [R2 [R3 R4]]]].
  destruct (sgn_sf_props F32 neg r R2 R3) as [S1 [S2 S3]].
  exists (sgn_sf neg r). split; [|split; [exact S1|split; [exact S2|]]].
  - unfold finish, exp_max_of. rewrite UD, R1.
    replace (mant =? 0) with false by (symmetry; apply Z.eqb_neq; lia).
    replace (expo >? 38) with false by (symmetry; rewrite Z.gtb_ltb; apply Z.ltb_ge; lia).
    replace (expo <? - (38) - 20) with false by (symmetry; apply Z.ltb_ge; lia).
    reflexivity.
  - rewrite S3. apply sgn_err. exact R4.
Qed.

(* --- end to end for literals  [sign] digits (e|E) [sign] digits  (NumProofs.parse_exp_literal) --- *)

Theorem exp_literal_double_accuracy : forall c (sg : option bool) ds eb (esg : option bool) es,
  use_double c = true ->
  Forall digitb ds -> 1 <= dec ds 0 <= 2 ^ 52 - 1 -> (eb = 101 \/ eb = 69)%N ->
  Forall digitb es -> dec es 0 <= 290 ->
  let E := if sign_neg esg then - dec es 0 else dec es 0 in
  (dec ds 0 > 2 ^ 23 - 1 \/ E < -38 \/ E > 38) ->
  exists r, parse_number c (sign_bytes sg ++ ds ++ eb :: sign_bytes esg ++ es) = NumDouble r /\
    valid F64 r /\ FloatModel.is_finite r = true /\
    (Rabs (SF2R radix2 r - sgnR (sign_neg sg) * (IZR (dec ds 0) * p10 E))
       <= 2e-15 * (IZR (dec ds 0) * p10 E))%R.
Proof.
  intros c sg ds eb esg es UD F Hm Heb Fe He E Hbr.
  assert (Hne : ds <> []) by (intros ->; cbn in Hm; lia).
  pose proof (dec_nonneg es Fe) as He0.
  rewrite parse_exp_literal; auto.
  - rewrite exp_of_small by (auto; lia). fold E.
    apply finish_double_accuracy; auto.
    + lia.
    + subst E. destruct (sign_neg esg); lia.
  - unfold mant_max_of. rewrite UD. lia.
Qed.

Theorem exp_literal_float_accuracy : forall c (sg : option bool) ds eb (esg : option bool) es,
  use_double c = true ->
  Forall digitb ds -> 1 <= dec ds 0 <= 2 ^ 23 - 1 -> (eb = 101 \/ eb = 69)%N ->
  Forall digitb es -> dec es 0 <= 38 ->
  let E := if sign_neg esg then - dec es 0 else dec es 0 in
  (bpow radix2 (-125) <= IZR (dec ds 0) * p10 E <= bpow radix2 126)%R ->
  exists r, parse_number c (sign_bytes sg ++ ds ++ eb :: sign_bytes esg ++ es) = NumFloat r /\
    valid F32 r /\ FloatModel.is_finite r = true /\
    (Rabs (SF2R radix2 r - sgnR (sign_neg sg) * (IZR (dec ds 0) * p10 E))
       <= 6e-7 * (IZR (dec ds 0) * p10 E))%R.
Proof.
  intros c sg ds eb esg es UD F Hm Heb Fe He E Hr.
  assert (Hne : ds <> []) by (intros ->; cbn in Hm; lia).
  pose proof (dec_nonneg es Fe) as He0.
  rewrite parse_exp_literal; auto.
  - rewrite exp_of_small by (auto; lia). fold E.
    apply finish_float_accuracy; auto.
    subst E. destruct (sign_neg esg); lia.
  - unfold mant_max_of. rewrite UD. lia.
Qed.

(* ------------------------------------------------------------------------------------------ *)
(* Part 6 — no assumption on the upper end: a finite result is an accurate result              *)
(* ------------------------------------------------------------------------------------------ *)

Lemma range_lo : forall X B (N : nat) l, (0 < X)%R -> (0 < B)%R ->
  (l <= X)%R -> (l <= X * B ^ N)%R -> forall j, (j <= N)%nat -> (l <= X * B ^ j)%R.
Proof.
  intros X B N l HX HB H0 HN j Hj.
  apply (range_ends X B N l (Rmax X (X * B ^ N)) HX HB); [| |exact Hj].
  - split; [exact H0 | apply Rmax_l].
  - split; [exact HN | apply Rmax_r].
Qed.

Lemma make_float_ok_fin : forall f NMAX L, good_fmt f ->
  (/ 2 <= (1 - uro f) ^ NMAX)%R ->
  tbl_ok f 10 (pow10_table f true) -> tbl_ok f (/ 10) (pow10_table f false) ->
  length (pow10_table f true) = L -> length (pow10_table f false) = L ->
  forall x X n e r,
  valid f x -> FloatModel.is_finite x = true -> (0 < X)%R ->
  within (uro f) n (SF2R radix2 x) X -> (n + 2 * popc L (Z.abs e) <= NMAX)%nat ->
  (lo_R f <= X)%R -> (lo_R f <= X * p10 e)%R ->
  make_float f x e = Some r -> FloatModel.is_finite r = true ->
  valid f r /\ within (uro f) (n + 2 * popc L (Z.abs e)) (SF2R radix2 r) (X * p10 e).
Proof.
  intros f NMAX L Hf Hum Tp Tn Lp Ln x X n e r Vx Fx HX Hw Hn R0 Re Hrun Fr.
  unfold make_float in Hrun. destruct (0 <? e) eqn:Epos.
  - apply Z.ltb_lt in Epos.
    replace (e <=? 0) with false in Hrun by (symmetry; apply Z.leb_gt; exact Epos).
    assert (P : p10 e = (10 ^ Z.to_nat e)%R) by (rewrite pow10_nat, Z2Nat.id by lia; reflexivity).
    rewrite P in *. rewrite <- Lp in *. rewrite Z.abs_eq in * by lia.
    apply (loop_ok_fin f Hf NMAX Hum _ 10%R Tp 64%nat x e X n r); try assumption; try lia; try lra.
    apply range_lo; try assumption; lra.
  - apply Z.ltb_ge in Epos.
    replace (e <=? 0) with true in Hrun by (symmetry; apply Z.leb_le; exact Epos).
    assert (P : p10 e = ((/ 10) ^ Z.to_nat (- e))%R).
    { rewrite powinv10_nat, Z2Nat.id by lia. f_equal. ring. }
    rewrite P in *. rewrite <- Ln in *. rewrite Z.abs_neq in * by lia.
    apply (loop_ok_fin f Hf NMAX Hum _ (/ 10)%R Tn 64%nat x (- e) X n r); try assumption; try lia; try lra.
    apply range_lo; try assumption; lra.
Qed.

(* make_float never produces a NaN: the result is finite or an infinity *)
Definition foi (f : fmt) (x : spec_float) : Prop :=
  (valid f x /\ FloatModel.is_finite x = true) \/ exists s, x = S754_infinity s.

Definition proper (f : fmt) (v : spec_float) : Prop :=
  valid f v /\ exists s m e, v = S754_finite s m e.

Lemma fmul_foi : forall f x v, good_fmt f -> foi f x -> proper f v -> foi f (fmul f x v).
Proof.
  intros f x v [H0 H1] [[Vx Fx]|[s ->]] [Vv [sv [mv [ev ->]]]].
  - destruct (SFmul_cases (prec f) (emax f) H0 H1 x _ Vx Vv Fx eq_refl) as [[_ [A B]]|[s Hs]].
    + left. split; assumption.
    + right. exists s. exact Hs.
  - right. eexists. reflexivity.
Qed.

Lemma loop_foi : forall f tbl fuel x e r, good_fmt f -> Forall (proper f) tbl -> foi f x ->
  make_float_loop f tbl fuel x e = Some r -> foi f r.
Proof.
  intros f tbl. induction tbl as [|v t IH]; intros fuel x e r Hf Ht Hx H.
  - destruct fuel; cbn [make_float_loop] in H; destruct (e =? 0); try discriminate;
      inversion H; subst; exact Hx.
  - inversion Ht as [|? ? Pv Pt]; subst.
    destruct fuel as [|fuel]; cbn [make_float_loop] in H; destruct (e =? 0); try discriminate.
    + inversion H; subst; exact Hx.
    + inversion H; subst; exact Hx.
    + destruct (Z.odd e).
      * apply IH in H; try assumption. apply fmul_foi; assumption.
      * apply IH in H; assumption.
Qed.

Lemma tbl_ok_proper : forall f B tbl, good_fmt f -> (0 < B)%R -> tbl_ok f B tbl ->
  Forall (proper f) tbl.
Proof.
  intros f B tbl Hf HB H. induction H as [B|B v t Vv Fv Av Ht IH]; constructor.
  - split; [exact Vv|].
    pose proof (uro_lt_1 f Hf) as Hu. pose proof (uro_pos f) as Hu0.
    apply Rabs_le_inv in Av.
    assert (P : (0 < SF2R radix2 v)%R) by nra.
    destruct v as [s|s| |s m e]; try discriminate Fv.
    + cbn in P. lra.
    + eauto.
  - apply IH. apply Rmult_lt_0_compat; assumption.
Qed.

Lemma make_float_foi : forall f x e r, good_fmt f ->
  tbl_ok f 10 (pow10_table f true) -> tbl_ok f (/ 10) (pow10_table f false) ->
  foi f x -> make_float f x e = Some r -> foi f r.
Proof.
  intros f x e r Hf Tp Tn Hx H. unfold make_float in H.
  apply (loop_foi f _ _ _ _ _ Hf) with (3 := H); [|exact Hx].
  destruct (0 <? e).
  - apply (tbl_ok_proper f 10); [exact Hf | lra | exact Tp].
  - apply (tbl_ok_proper f (/ 10)); [exact Hf | lra | exact Tn].
Qed.

(* lower end of the float path: 1 <= m, -38 <= e.  Only 1e-38 and 2e-38 are below 2^-125;
   they are checked by computation. *)
Lemma small32_lower : forall m e, 1 <= m -> -38 <= e -> (3 <= m \/ -37 <= e) ->
  (bpow radix2 (-125) <= IZR m * p10 e)%R.
Proof.
  intros m e Hm He Hc.
  assert (M1 : (1 <= IZR m)%R) by (apply IZR_le; lia).
  assert (P0 : (0 < p10 e)%R) by apply p10_pos.
  destruct (Z_le_gt_dec (-37) e) as [H37|H38].
  - apply Rle_trans with (p10 (- (37))).
    + apply Rle_trans with (bpow radix2 (- (123))); [apply bpow_le; lia|].
      rewrite bpow_opp, p10_opp. apply Rinv_le_contravar; [apply p10_pos|].
      apply p10_le_bpow2; lia.
    + apply Rle_trans with (p10 e); [apply p10_mono; lia | nra].
  - assert (e = -38) by lia. subst e. assert (M3 : (3 <= IZR m)%R) by (apply IZR_le; lia).
    change (-38) with (- (38)). change (-125) with (- (125)). rewrite bpow_opp, p10_opp.
    assert (A : (p10 38 <= 3 * bpow radix2 125)%R).
    { unfold p10. rewrite <- !IZR_Zpower by lia. rewrite <- mult_IZR. apply IZR_le.
      vm_compute. discriminate. }
    assert (a0 : (0 < p10 38)%R) by apply p10_pos.
    assert (b0 : (0 < bpow radix2 125)%R) by apply bpow_gt_0.
    set (a := p10 38) in *. set (b := bpow radix2 125) in *.
    apply Rle_trans with (3 * / a)%R.
    + replace (/ b)%R with (a * (/ a * / b))%R by (field; lra).
      replace (3 * / a)%R with ((3 * b) * (/ a * / b))%R by (field; lra).
      apply Rmult_le_compat_r; [|exact A].
      left. apply Rmult_lt_0_compat; apply Rinv_0_lt_compat; assumption.
    + apply Rmult_le_compat_r; [left; apply Rinv_0_lt_compat; exact a0 | exact M3].
Qed.

Lemma tiny32_case : forall m b r0, 0 < b -> 10 ^ 38 = m * b -> 0 < m ->
  make_float F32 (f_of_Z F32 m) (-38) = Some r0 -> entry_ok 21 true b r0 = true ->
  (Rabs (SF2R radix2 r0 - IZR m * p10 (-38)) <= 6e-7 * (IZR m * p10 (-38)))%R.
Proof.
  intros m b r0 Hb Hmb Hm _ Hchk.
  destruct (entry_ok_inverse 21 b r0 ltac:(lia) Hb Hchk) as [H _].
  assert (B0 : (0 < IZR b)%R) by (apply IZR_lt; exact Hb).
  assert (M0 : (0 < IZR m)%R) by (apply IZR_lt; exact Hm).
  assert (E : (IZR m * p10 (-38) = / IZR b)%R).
  { change (-38) with (- (38)). rewrite p10_opp. unfold p10. rewrite <- IZR_Zpower by lia.
    change (radix10 ^ 38) with (10 ^ 38). rewrite Hmb, mult_IZR. field. lra. }
  rewrite E. apply Rle_trans with (1 := H).
  apply Rmult_le_compat_r; [left; apply Rinv_0_lt_compat; exact B0|].
  change (-21) with (- (21)). rewrite bpow_opp, <- IZR_Zpower by lia.
  change (radix2 ^ 21) with 2097152. lra.
Qed.

Theorem make_float32_fin : forall m e r, 1 <= m < 2 ^ 24 -> -38 <= e <= 38 ->
  make_float F32 (f_of_Z F32 m) e = Some r -> FloatModel.is_finite r = true ->
  valid F32 r /\
  (Rabs (SF2R radix2 r - IZR m * p10 e) <= 6e-7 * (IZR m * p10 e))%R.
Proof.
  intros m e r Hm He Hrun Fr.
  destruct (f_of_Z_exact F32 m good_F32) as [X1 [X2 X3]]; [change (prec F32) with 24; lia|].
  assert (Xpos : (0 < IZR m)%R) by (apply IZR_lt; lia).
  destruct u32_hyp as [Hup Hum].
  assert (Vr : valid F32 r).
  { destruct (make_float_foi F32 _ e r good_F32 tbl32_pos_ok tbl32_neg_ok
                (or_introl (conj X2 X3)) Hrun) as [[V _]|[s ->]]; [exact V | discriminate Fr]. }
  split; [exact Vr|].
  assert (Hcase : (3 <= m \/ -37 <= e) \/ (e = -38 /\ (m = 1 \/ m = 2))) by lia.
  destruct Hcase as [Hc|[-> Hc]].
  - pose proof (small32_lower m e ltac:(lia) ltac:(lia) Hc) as Hlo.
    pose proof (popc6_38 e He) as Hp.
    destruct (make_float_ok_fin F32 12 6 good_F32 Hum tbl32_pos_ok tbl32_neg_ok
                (pow10_table_length32 true) (pow10_table_length32 false)
                (f_of_Z F32 m) (IZR m) 0%nat e r X2 X3 Xpos) as [_ R4]; try assumption.
    + rewrite X1. apply within_refl.
    + lia.
    + apply (int_in_range F32 m 24 good_F32); [lia | split; [lia | discriminate] | discriminate].
    + assert (P : (0 <= IZR m * p10 e)%R).
      { left. apply Rmult_lt_0_compat; [exact Xpos | apply p10_pos]. }
      apply within_abs with (uro F32) 10%nat.
      * apply (u01 F32 good_F32).
      * exact P.
      * apply within_weaken with (2 := P) (4 := R4); [apply (u01 F32 good_F32) | lia].
      * exact u32_up10.
      * exact u32_dn10.
  - destruct Hc as [-> | ->].
    + apply (tiny32_case 1 (10 ^ 38) r);
        [reflexivity | vm_compute; reflexivity | reflexivity | exact Hrun |].
      vm_compute in Hrun. inversion Hrun. vm_compute. reflexivity.
    + apply (tiny32_case 2 (5 * 10 ^ 37) r);
        [reflexivity | vm_compute; reflexivity | reflexivity | exact Hrun |].
      vm_compute in Hrun. inversion Hrun. vm_compute. reflexivity.
Qed.

(* M5, float path, total form: a literal with a small mantissa and exponent is returned either as
   a binary32 value within 6e-7, or (when the binary32 product overflows) as a binary64 value
   within 2e-15 *)
Theorem finish_small_accuracy : forall c neg mant expo, use_double c = true ->
  1 <= mant <= 2 ^ 23 - 1 -> -38 <= expo <= 38 ->
  (exists r, finish c neg mant expo = NumFloat r /\ valid F32 r /\
     FloatModel.is_finite r = true /\
     (Rabs (SF2R radix2 r - sgnR neg * (IZR mant * p10 expo)) <= 6e-7 * (IZR mant * p10 expo))%R)
  \/
  (exists r, finish c neg mant expo = NumDouble r /\ valid F64 r /\
     FloatModel.is_finite r = true /\
     (Rabs (SF2R radix2 r - sgnR neg * (IZR mant * p10 expo)) <= 2e-15 * (IZR mant * p10 expo))%R).
Proof.
  intros c neg mant expo UD Hm He.
  destruct (make_float_some32 (f_of_Z F32 mant) expo ltac:(lia)) as [r Hrun].
  destruct (f_of_Z_exact F32 mant good_F32) as [X1 [X2 X3]]; [change (prec F32) with 24; lia|].
  assert (Hfin : finish c neg mant expo =
                 if is_inf r then match make_float F64 (f_of_Z F64 mant) expo with
                                  | Some r' => NumDouble (sgn_sf neg r')
                                  | None => NumFault
                                  end
                 else NumFloat (sgn_sf neg r)).
  { unfold finish, exp_max_of. rewrite UD, Hrun.
    replace (mant =? 0) with false by (symmetry; apply Z.eqb_neq; lia).
    replace (expo >? 308) with false by (symmetry; rewrite Z.gtb_ltb; apply Z.ltb_ge; lia).
    replace (expo <? - (308) - 20) with false by (symmetry; apply Z.ltb_ge; lia).
    replace ((expo <? -38) || (expo >? 38) || (mant >? 2 ^ 23 - 1)) with false; [reflexivity|].
    symmetry. rewrite !orb_false_iff, !Z.gtb_ltb, !Z.ltb_ge. lia. }
  destruct (make_float_foi F32 _ expo r good_F32 tbl32_pos_ok tbl32_neg_ok
              (or_introl (conj X2 X3)) Hrun) as [[Vr Fr]|[s ->]].
  - left.
    destruct (make_float32_fin mant expo r ltac:(lia) He Hrun Fr) as [_ R4].
    destruct (sgn_sf_props F32 neg r Vr Fr) as [S1 [S2 S3]].
    exists (sgn_sf neg r). split; [|split; [exact S1|split; [exact S2|]]].
    + rewrite Hfin. replace (is_inf r) with false by (destruct r; try reflexivity; discriminate Fr).
      reflexivity.
    + rewrite S3. apply sgn_err. exact R4.
  - right.
    destruct (make_float64_accuracy mant expo ltac:(lia) ltac:(lia)) as [r [R1 [R2 [R3 R4]]]].
    destruct (sgn_sf_props F64 neg r R2 R3) as [S1 [S2 S3]].
    exists (sgn_sf neg r). split; [|split; [exact S1|split; [exact S2|]]].
    + rewrite Hfin, R1. reflexivity.
    + rewrite S3. apply sgn_err. exact R4.
Qed.

(* configuration without use_double: the binary32 result is accurate unless it overflowed *)
Theorem finish_float_cfg_total : forall c neg mant expo, use_double c = false ->
  1 <= mant < 2 ^ 24 -> -38 <= expo <= 38 ->
  exists r, finish c neg mant expo = NumFloat r /\
    ((exists s, r = S754_infinity s) \/
     (valid F32 r /\ FloatModel.is_finite r = true /\
      (Rabs (SF2R radix2 r - sgnR neg * (IZR mant * p10 expo)) <= 6e-7 * (IZR mant * p10 expo))%R)).
Proof.
  intros c neg mant expo UD Hm He.
  destruct (make_float_some32 (f_of_Z F32 mant) expo ltac:(lia)) as [r Hrun].
  destruct (f_of_Z_exact F32 mant good_F32) as [X1 [X2 X3]]; [change (prec F32) with 24; lia|].
  exists (sgn_sf neg r). split.
  - unfold finish, exp_max_of. rewrite UD, Hrun.
    replace (mant =? 0) with false by (symmetry; apply Z.eqb_neq; lia).
    replace (expo >? 38) with false by (symmetry; rewrite Z.gtb_ltb; apply Z.ltb_ge; lia).
    replace (expo <? - (38) - 20) with false by (symmetry; apply Z.ltb_ge; lia).
    reflexivity.
  - destruct (make_float_foi F32 _ expo r good_F32 tbl32_pos_ok tbl32_neg_ok
                (or_introl (conj X2 X3)) Hrun) as [[Vr Fr]|[s ->]].
    + right.
      destruct (make_float32_fin mant expo r Hm He Hrun Fr) as [_ R4].
      destruct (sgn_sf_props F32 neg r Vr Fr) as [S1 [S2 S3]].
      split; [exact S1|]. split; [exact S2|]. rewrite S3. apply sgn_err. exact R4.
    + left. destruct neg; eexists; reflexivity.
Qed.

(* --- binary64 without an upper bound: whenever the result is finite it is accurate --- *)

Theorem make_float64_fin : forall m e r, 1 <= m < 2 ^ 53 -> -511 <= e <= 511 ->
  (bpow radix2 (-1021) <= IZR m * p10 e)%R ->
  make_float F64 (f_of_Z F64 m) e = Some r -> FloatModel.is_finite r = true ->
  valid F64 r /\
  (Rabs (SF2R radix2 r - IZR m * p10 e) <= 2e-15 * (IZR m * p10 e))%R.
Proof.
  intros m e r Hm He Hlo Hrun Fr.
  destruct (f_of_Z_exact F64 m good_F64) as [X1 [X2 X3]]; [change (prec F64) with 53; lia|].
  assert (Xpos : (0 < IZR m)%R) by (apply IZR_lt; lia).
  destruct u64_hyp as [Hup Hum].
  pose proof (popc_le 9 (Z.abs e)) as Hp.
  destruct (make_float_ok_fin F64 18 9 good_F64 Hum tbl64_pos_ok tbl64_neg_ok
              (pow10_table_length64 true) (pow10_table_length64 false)
              (f_of_Z F64 m) (IZR m) 0%nat e r X2 X3 Xpos) as [Vr R4]; try assumption.
  - rewrite X1. apply within_refl.
  - lia.
  - apply (int_in_range F64 m 53 good_F64); [lia | split; [lia | discriminate] | discriminate].
  - split; [exact Vr|].
    assert (P : (0 <= IZR m * p10 e)%R).
    { left. apply Rmult_lt_0_compat; [exact Xpos | apply p10_pos]. }
    apply within_abs with (uro F64) 18%nat.
    + apply (u01 F64 good_F64).
    + exact P.
    + apply within_weaken with (2 := P) (4 := R4); [apply (u01 F64 good_F64) | lia].
    + exact u64_up.
    + exact u64_dn.
Qed.

Lemma dec64_lower : forall m e, 1 <= m -> -307 <= e -> (bpow radix2 (-1021) <= IZR m * p10 e)%R.
Proof.
  intros m e Hm He.
  assert (M1 : (1 <= IZR m)%R) by (apply IZR_le; lia).
  assert (P0 : (0 < p10 e)%R) by apply p10_pos.
  apply Rle_trans with (p10 (- (307))).
  - apply Rle_trans with (bpow radix2 (- (1020))); [apply bpow_le; lia|].
    rewrite bpow_opp, p10_opp. apply Rinv_le_contravar; [apply p10_pos|].
    apply p10_le_bpow2; lia.
  - apply Rle_trans with (p10 e); [apply p10_mono; lia | nra].
Qed.

(* the whole double branch of [finish] (every exponent that reaches make_float), for results that
   are not subnormal: the value returned is an infinity (overflow) or accurate to 2e-15 *)
Theorem finish_double_total : forall c neg mant expo, use_double c = true ->
  1 <= mant < 2 ^ 53 -> -328 <= expo <= 308 ->
  (mant > 2 ^ 23 - 1 \/ expo < -38 \/ expo > 38) ->
  (bpow radix2 (-1021) <= IZR mant * p10 expo)%R ->
  exists r, finish c neg mant expo = NumDouble r /\
    ((exists s, r = S754_infinity s) \/
     (valid F64 r /\ FloatModel.is_finite r = true /\
      (Rabs (SF2R radix2 r - sgnR neg * (IZR mant * p10 expo)) <= 2e-15 * (IZR mant * p10 expo))%R)).
Proof.
  intros c neg mant expo UD Hm He Hbr Hlo.
  destruct (make_float_some64 (f_of_Z F64 mant) expo ltac:(lia)) as [r Hrun].
  destruct (f_of_Z_exact F64 mant good_F64) as [X1 [X2 X3]]; [change (prec F64) with 53; lia|].
  exists (sgn_sf neg r). split.
  - unfold finish, exp_max_of. rewrite UD, Hrun.
    replace (mant =? 0) with false by (symmetry; apply Z.eqb_neq; lia).
    replace (expo >? 308) with false by (symmetry; rewrite Z.gtb_ltb; apply Z.ltb_ge; lia).
    replace (expo <? - (308) - 20) with false by (symmetry; apply Z.ltb_ge; lia).
    replace ((expo <? -38) || (expo >? 38) || (mant >? 2 ^ 23 - 1)) with true; [reflexivity|].
    symmetry. rewrite !orb_true_iff, !Z.gtb_ltb, !Z.ltb_lt. lia.
  - destruct (make_float_foi F64 _ expo r good_F64 tbl64_pos_ok tbl64_neg_ok
                (or_introl (conj X2 X3)) Hrun) as [[Vr Fr]|[s ->]].
    + right.
      destruct (make_float64_fin mant expo r Hm ltac:(lia) Hlo Hrun Fr) as [_ R4].
      destruct (sgn_sf_props F64 neg r Vr Fr) as [S1 [S2 S3]].
      split; [exact S1|]. split; [exact S2|]. rewrite S3. apply sgn_err. exact R4.
    + left. destruct neg; eexists; reflexivity.
Qed.

(* M5, summary for the default configuration: every literal tail with 1 <= mant < 2^53 and
   |expo| <= 290 yields a binary32 value within 6e-7 or a binary64 value within 2e-15 *)
Theorem finish_accuracy : forall c neg mant expo, use_double c = true ->
  1 <= mant < 2 ^ 53 -> -290 <= expo <= 290 ->
  (exists r, finish c neg mant expo = NumFloat r /\ valid F32 r /\
     FloatModel.is_finite r = true /\
     (Rabs (SF2R radix2 r - sgnR neg * (IZR mant * p10 expo)) <= 6e-7 * (IZR mant * p10 expo))%R)
  \/
  (exists r, finish c neg mant expo = NumDouble r /\ valid F64 r /\
     FloatModel.is_finite r = true /\
     (Rabs (SF2R radix2 r - sgnR neg * (IZR mant * p10 expo)) <= 2e-15 * (IZR mant * p10 expo))%R).
Proof.
  intros c neg mant expo UD Hm He.
  assert (Hc : (mant > 2 ^ 23 - 1 \/ expo < -38 \/ expo > 38) \/
               (1 <= mant <= 2 ^ 23 - 1 /\ -38 <= expo <= 38)) by lia.
  destruct Hc as [Hc|[Hc1 Hc2]].
  - right. apply finish_double_accuracy; assumption.
  - apply finish_small_accuracy; assumption.
Qed.

Corollary finish_default_double : forall neg mant expo,
  1 <= mant < 2 ^ 53 -> -290 <= expo <= 290 ->
  (mant > 2 ^ 23 - 1 \/ expo < -38 \/ expo > 38) ->
  exists r, finish default_cfg neg mant expo = NumDouble r /\ valid F64 r /\
    FloatModel.is_finite r = true /\
    (Rabs (SF2R radix2 r - sgnR neg * (IZR mant * powerRZ 10 expo))
       <= 2e-15 * (IZR mant * powerRZ 10 expo))%R.
Proof.
  intros neg mant expo Hm He Hbr. rewrite <- p10_powerRZ.
  apply finish_double_accuracy; auto.
Qed.

Corollary make_float64_accuracy_powerRZ : forall m e, 1 <= m < 2 ^ 53 -> -290 <= e <= 290 ->
  exists r, make_float F64 (f_of_Z F64 m) e = Some r /\
    (Rabs (SF2R radix2 r - IZR m * powerRZ 10 e) <= 2e-15 * (IZR m * powerRZ 10 e))%R.
Proof.
  intros m e Hm He. rewrite <- p10_powerRZ.
  destruct (make_float64_accuracy m e Hm He) as [r [R1 [_ [_ R4]]]]. exists r. auto.
Qed.

Corollary finish_double_wide : forall c neg mant expo, use_double c = true ->
  1 <= mant < 2 ^ 53 -> -307 <= expo <= 308 ->
  (mant > 2 ^ 23 - 1 \/ expo < -38 \/ expo > 38) ->
  exists r, finish c neg mant expo = NumDouble r /\
    ((exists s, r = S754_infinity s) \/
     (valid F64 r /\ FloatModel.is_finite r = true /\
      (Rabs (SF2R radix2 r - sgnR neg * (IZR mant * p10 expo)) <= 2e-15 * (IZR mant * p10 expo))%R)).
Proof.
  intros c neg mant expo UD Hm He Hbr.
  apply finish_double_total; try assumption; [lia|]. apply dec64_lower; lia.
Qed.
