(* ChainProofs.v — proxy chains  r[p1]...[pn]  (Model/Chain.v) are sequences of the tree model's own steps
   (Model/Tree.v), and what they guarantee:
     1. a chained write is a run of steps (creations, then one set); a chained read is no step at all;
     2. a lookup level never changes the world;
     3. a chain that fails leaves the world alone;
     4. read your write;
     5. frame: values neither inside nor around the root of the chain, and other documents, are untouched;
     6. examples. *)
From Coq Require Import NArith ZArith List Lia Bool.
From AJ Require Import Model.Base Model.FloatModel Model.Value Model.JsonParse Model.Tree Model.Chain.
From AJ Require Import Proofs.TreeProofs.
Import ListNotations.
Local Open Scope N_scope.

(* ------------------------------------------------------------------------------------------ *)
(* 1 / 2 — chains are steps                                                                     *)
(* ------------------------------------------------------------------------------------------ *)

Theorem chain_get_world : forall w r path, fst (chain_get w r path) = w.
Proof. reflexivity. Qed.

(* a lookup level is a read *)
Theorem get_op_reads : forall w r p, fst (step w (get_op r p)) = w.
Proof.
  intros w r p. destruct p; cbn [get_op step]; destruct (get w r) as [[]|]; reflexivity.
Qed.

Lemma chain_resolve_none : forall path w, chain_resolve w None path = (w, None).
Proof. destruct path; reflexivity. Qed.

Lemma chain_walk_none : forall path w, chain_walk w None path = None.
Proof. destruct path; reflexivity. Qed.

Definition is_create (o : op) : Prop := exists r p, o = create_op r p.
Definition chain_op_of (x : scalar) (o : op) : Prop := is_create o \/ exists e, o = OSet e x.

Lemma run_app : forall a w b, run w (a ++ b) = run (run w a) b.
Proof. induction a as [|o a IH]; intros w b; [reflexivity|]. cbn [app run]. apply IH. Qed.

Lemma get_or_add_level_cases : forall w r p,
  (exists e, get_level w r p = Some e /\ get_or_add_level w r p = (w, Some e)) \/
  (get_level w r p = None /\
   get_or_add_level w r p =
     (fst (step w (create_op r p)), get_level (fst (step w (create_op r p))) r p)).
Proof.
  intros w r p. unfold get_or_add_level. destruct (get_level w r p) as [e|] eqn:E.
  - left. exists e. split; reflexivity.
  - right. split; reflexivity.
Qed.

Lemma chain_resolve_cons : forall w r p t,
  chain_resolve w (Some r) (p :: t) =
  chain_resolve (fst (get_or_add_level w r p)) (snd (get_or_add_level w r p)) t.
Proof.
  intros w r p t. cbn [chain_resolve]. destruct (get_or_add_level w r p) as [w1 e1]. reflexivity.
Qed.

Lemma chain_resolve_is_run : forall path w cur,
  exists ops, fst (chain_resolve w cur path) = run w ops /\ Forall is_create ops.
Proof.
  induction path as [|p t IH]; intros w cur.
  - exists []. split; [reflexivity|constructor].
  - destruct cur as [r|]; [|exists []; split; [reflexivity|constructor]].
    rewrite chain_resolve_cons.
    destruct (get_or_add_level_cases w r p) as [(e & _ & E)|[_ E]]; rewrite E; cbn [fst snd].
    + apply IH.
    + destruct (IH (fst (step w (create_op r p))) (get_level (fst (step w (create_op r p))) r p))
        as (ops & E1 & F1).
      exists (create_op r p :: ops). split; [exact E1|].
      constructor; [exists r, p; reflexivity|exact F1].
Qed.

(* a chained write is a run of the model's steps: creations level by level, then the set; or nothing *)
Theorem chain_set_is_run_strong : forall w r path x,
  exists ops, fst (chain_set w r path x) = run w ops /\
    (ops = [] \/ exists cs e, ops = cs ++ [OSet e x] /\ Forall is_create cs).
Proof.
  intros w r path x. unfold chain_set.
  destruct (chain_resolve_is_run path w (Some r)) as (cs & E & F).
  destruct (chain_resolve w (Some r) path) as [w' [e|]]; cbn [fst] in E.
  - exists (cs ++ [OSet e x]). split.
    + rewrite run_app, <- E. reflexivity.
    + right. exists cs, e. split; [reflexivity|exact F].
  - exists []. split; [reflexivity|now left].
Qed.

Theorem chain_set_is_run : forall w r path x,
  exists ops, fst (chain_set w r path x) = run w ops /\ Forall (chain_op_of x) ops.
Proof.
  intros w r path x. destruct (chain_set_is_run_strong w r path x) as (ops & E & [->|(cs & e & -> & F)]).
  - exists []. split; [exact E|constructor].
  - exists (cs ++ [OSet e x]). split; [exact E|].
    apply Forall_app. split.
    + eapply Forall_impl; [|exact F]. intros o H. now left.
    + constructor; [right; exists e; reflexivity|constructor].
Qed.

Corollary chain_set_wfw : forall w r path x, wfw w -> wfw (fst (chain_set w r path x)).
Proof.
  intros w r path x W. destruct (chain_set_is_run w r path x) as (ops & -> & _). now apply run_wfw.
Qed.

Lemma chain_resolve_wfw : forall path w cur, wfw w -> wfw (fst (chain_resolve w cur path)).
Proof.
  intros path w cur W. destruct (chain_resolve_is_run path w cur) as (ops & -> & _). now apply run_wfw.
Qed.

(* histories that mix single steps, chained writes and chained reads *)
Inductive hop :=
| HStep (o : op)
| HChainSet (r : N) (path : list pel) (x : scalar)
| HChainGet (r : N) (path : list pel).

Definition hstep (w : world) (h : hop) : world * result :=
  match h with
  | HStep o => step w o
  | HChainSet r path x => chain_set w r path x
  | HChainGet r path => chain_get w r path
  end.

Fixpoint hrun (w : world) (hs : list hop) : world :=
  match hs with
  | [] => w
  | h :: t => hrun (fst (hstep w h)) t
  end.

(* a mixed history is a plain history *)
Theorem hrun_is_run : forall hs w, exists ops, hrun w hs = run w ops.
Proof.
  induction hs as [|h t IH]; intro w; [exists []; reflexivity|].
  cbn [hrun]. destruct (IH (fst (hstep w h))) as (ops & E). rewrite E. destruct h as [o|r path x|r path]; cbn [hstep].
  - exists (o :: ops). reflexivity.
  - destruct (chain_set_is_run w r path x) as (ops1 & -> & _). exists (ops1 ++ ops). now rewrite run_app.
  - exists ops. reflexivity.
Qed.

Theorem hrun_wfw : forall hs w, wfw w -> wfw (hrun w hs).
Proof. intros hs w W. destruct (hrun_is_run hs w) as (ops & ->). now apply run_wfw. Qed.

Corollary hreachable_wfw : forall n hs, wfw (hrun (init_world n) hs).
Proof. intros. apply hrun_wfw, init_world_wfw. Qed.

(* ------------------------------------------------------------------------------------------ *)
(* What a level looks at: the content of r, through `level_of`; only its skeleton matters        *)
(* ------------------------------------------------------------------------------------------ *)

Definition level_of (c : content) (p : pel) : option N :=
  match p, c with
  | PKey k, CObj l => member_id l k
  | PIdx i, CArr l => option_map node_id (nth_error l i)
  | _, _ => None
  end.

Lemma get_level_eq : forall w r p,
  get_level w r p = match get w r with Some c => level_of c p | None => None end.
Proof.
  intros w r p. unfold get_level.
  destruct p; cbn [get_op step level_of]; destruct (get w r) as [[]|]; reflexivity.
Qed.

Lemma level_of_child : forall c p e, level_of c p = Some e -> In e (cids c).
Proof.
  intros c p e H. destruct p as [k|i]; destruct c; cbn [level_of] in H; try discriminate.
  - unfold cids. cbn [children]. eapply member_id_in; eauto.
  - unfold cids. cbn [children]. destruct (nth_error l i) as [x|] eqn:E; [|discriminate].
    cbn [option_map] in H. injection H as <-. unfold idsl. apply in_flat_map.
    exists x. split; [eapply nth_error_In; eauto|apply node_id_in_ids].
Qed.

(* the skeleton of a content: its own constructor and scalar, and the identities (and keys) of its children *)
Definition bare (n : node) : node := Node (node_id n) CNull.
Definition skel (c : content) : content := map_children bare c.

Lemma member_id_bare : forall l k,
  member_id (map (fun kv => (fst kv, bare (snd kv))) l) k = member_id l k.
Proof.
  induction l as [|[k' v] t IH]; intro k; [reflexivity|].
  cbn [map fst snd member_id]. destruct (bytes_eqb k k'); [reflexivity|apply IH].
Qed.

Lemma level_of_skel : forall c p, level_of (skel c) p = level_of c p.
Proof.
  intros c p. destruct p as [k|i]; destruct c; cbn [skel map_children level_of]; try reflexivity.
  - apply member_id_bare.
  - rewrite nth_error_map. destruct (nth_error l i); reflexivity.
Qed.

Lemma skel_map_children : forall g c, (forall n, node_id (g n) = node_id n) ->
  skel (map_children g c) = skel c.
Proof.
  intros g c Hg. unfold skel, bare. destruct c; cbn [map_children]; try reflexivity.
  - f_equal. rewrite map_map. apply map_ext. intro n. now rewrite Hg.
  - f_equal. rewrite map_map. apply map_ext. intros [k v]. cbn [fst snd]. now rewrite Hg.
Qed.

Lemma node_id_update : forall e f n, node_id (update e f n) = node_id n.
Proof. intros e f [j c]. rewrite update_eq. destruct (e =? j); reflexivity. Qed.

Lemma get_level_skel : forall w w' r p,
  option_map skel (get w' r) = option_map skel (get w r) -> get_level w' r p = get_level w r p.
Proof.
  intros w w' r p H. rewrite !get_level_eq.
  destruct (get w' r) as [c'|], (get w r) as [c|]; cbn [option_map] in H; try discriminate; [|reflexivity].
  injection H as H. now rewrite <- (level_of_skel c'), H, level_of_skel.
Qed.

Lemma get_level_child : forall w r p e, get_level w r p = Some e ->
  exists cr, get w r = Some cr /\ In e (cids cr).
Proof.
  intros w r p e H. rewrite get_level_eq in H. destruct (get w r) as [cr|]; [|discriminate].
  exists cr. split; [reflexivity|]. eapply level_of_child; eauto.
Qed.

(* ------------------------------------------------------------------------------------------ *)
(* More on find / update                                                                        *)
(* ------------------------------------------------------------------------------------------ *)

Lemma map_children_update_not_in : forall e f c, ~ In e (cids c) -> map_children (update e f) c = c.
Proof. intros e f c H. apply map_children_id. now apply updatel_not_in. Qed.

(* an update at e, seen from a slot a that is neither inside e nor among the new children of e:
   a is still there, and its content is the old one with the update applied below *)
Lemma find_update_above_both : forall e f a,
  (forall n, NoDup (ids n) ->
     (forall ce, find e n = Some ce -> ~ In a (e :: cids ce) /\ ~ In a (cids (f ce))) ->
     find a (update e f n) = option_map (map_children (update e f)) (find a n)) /\
  (forall l, NoDup (idsl l) ->
     (forall ce, findl e l = Some ce -> ~ In a (e :: cids ce) /\ ~ In a (cids (f ce))) ->
     findl a (map (update e f) l) = option_map (map_children (update e f)) (findl a l)).
Proof.
  intros e f a. apply node_forest_ind.
  - reflexivity.
  - intros x t Hx Ht ND H. cbn [findl map] in *. rewrite idsl_cons in ND.
    destruct (NoDup_app_inv _ _ ND) as (NDx & NDt & D).
    destruct (find e x) as [ce|] eqn:Ee.
    + rewrite (Hx NDx H).
      assert (Het : ~ In e (idsl t)) by (intro K; apply (D e); [eapply find_some_in; eauto|exact K]).
      destruct (find a x) as [c|]; cbn [option_map]; [reflexivity|].
      rewrite updatel_not_in by exact Het.
      destruct (findl a t) as [c|] eqn:Ea; cbn [option_map]; [|reflexivity].
      rewrite map_children_update_not_in; [reflexivity|].
      intro K. apply Het. apply (findl_sub _ _ _ Ea). now right.
    + assert (Hex : ~ In e (ids x)) by (now apply find_none_iff).
      rewrite update_not_in by exact Hex.
      destruct (find a x) as [c|] eqn:Ea; cbn [option_map].
      * rewrite map_children_update_not_in; [reflexivity|].
        intro K. apply Hex. apply (find_sub _ _ _ Ea). now right.
      * apply Ht; assumption.
  - intros k c0 Hc ND H. rewrite ids_eq in ND. inversion ND as [|? ? Hn ND']; subst.
    rewrite update_eq. rewrite find_eq in H. destruct (e =? k) eqn:Eek.
    + apply N.eqb_eq in Eek. subst k. destruct (H c0 eq_refl) as (H1 & H2).
      assert (Hae : (a =? e) = false) by (apply N.eqb_neq; intros ->; apply H1; now left).
      rewrite !find_eq, Hae.
      assert (E1 : findl a (children (f c0)) = None) by (now apply findl_none_iff).
      assert (E2 : findl a (children c0) = None).
      { apply findl_none_iff. intro K. apply H1. now right. }
      now rewrite E1, E2.
    + rewrite !find_eq. destruct (a =? k) eqn:Eak; [reflexivity|].
      rewrite children_map_children. apply Hc; assumption.
Qed.

Lemma findl_update_above : forall e f a l ce,
  NoDup (idsl l) -> findl e l = Some ce -> ~ In a (e :: cids ce) -> ~ In a (cids (f ce)) ->
  findl a (map (update e f) l) = option_map (map_children (update e f)) (findl a l).
Proof.
  intros e f a l ce ND He H1 H2. apply find_update_above_both; [exact ND|].
  intros ce' He'. assert (ce' = ce) by congruence. subst. now split.
Qed.

Lemma findl_update_above_skel : forall e f a l ce,
  NoDup (idsl l) -> findl e l = Some ce -> ~ In a (e :: cids ce) -> ~ In a (cids (f ce)) ->
  option_map skel (findl a (map (update e f) l)) = option_map skel (findl a l).
Proof.
  intros e f a l ce ND He H1 H2. rewrite (findl_update_above e f a l ce ND He H1 H2).
  destruct (findl a l) as [c|]; cbn [option_map]; [|reflexivity].
  f_equal. apply skel_map_children. apply node_id_update.
Qed.

(* an update that does not change the content found at e is the identity *)
Lemma update_id_both : forall e f,
  (forall n, NoDup (ids n) -> (forall c, find e n = Some c -> f c = c) -> update e f n = n) /\
  (forall l, NoDup (idsl l) -> (forall c, findl e l = Some c -> f c = c) -> map (update e f) l = l).
Proof.
  intros e f. apply node_forest_ind.
  - reflexivity.
  - intros x t Hx Ht ND H. cbn [findl map] in *. rewrite idsl_cons in ND.
    destruct (NoDup_app_inv _ _ ND) as (NDx & NDt & D).
    destruct (find e x) as [ce|] eqn:Ee.
    + rewrite (Hx NDx H). rewrite updatel_not_in; [reflexivity|].
      intro K. apply (D e); [eapply find_some_in; eauto|exact K].
    + rewrite update_not_in by (now apply find_none_iff). now rewrite (Ht NDt H).
  - intros k c0 Hc ND H. rewrite ids_eq in ND. inversion ND as [|? ? Hn ND']; subst.
    rewrite update_eq. rewrite find_eq in H. destruct (e =? k) eqn:Eek.
    + now rewrite (H c0 eq_refl).
    + f_equal. apply map_children_id. now apply Hc.
Qed.

Lemma updatel_id : forall e f l c,
  NoDup (idsl l) -> findl e l = Some c -> f c = c -> map (update e f) l = l.
Proof.
  intros e f l c ND He Hf. apply update_id_both; [exact ND|].
  intros c' He'. congruence.
Qed.

(* two subtrees that share a slot are nested *)
Lemma laminar_both : forall a ca b cb x,
  In x (a :: cids ca) -> In x (b :: cids cb) ->
  (forall n, NoDup (ids n) -> find a n = Some ca -> find b n = Some cb ->
     In a (b :: cids cb) \/ In b (a :: cids ca)) /\
  (forall l, NoDup (idsl l) -> findl a l = Some ca -> findl b l = Some cb ->
     In a (b :: cids cb) \/ In b (a :: cids ca)).
Proof.
  intros a ca b cb x Hxa Hxb. apply node_forest_ind.
  - discriminate.
  - intros x0 t Hx Ht ND Ha Hb. cbn [findl] in *. rewrite idsl_cons in ND.
    destruct (NoDup_app_inv _ _ ND) as (NDx & NDt & D).
    destruct (find a x0) as [c1|] eqn:Ea, (find b x0) as [c2|] eqn:Eb.
    + injection Ha as ->. injection Hb as ->. now apply Hx.
    + injection Ha as ->. exfalso. apply (D x).
      * apply (find_sub _ _ _ Ea). exact Hxa.
      * apply (findl_sub _ _ _ Hb). exact Hxb.
    + injection Hb as ->. exfalso. apply (D x).
      * apply (find_sub _ _ _ Eb). exact Hxb.
      * apply (findl_sub _ _ _ Ha). exact Hxa.
    + now apply Ht.
  - intros k c0 Hc ND Ha Hb. rewrite ids_eq in ND. inversion ND as [|? ? Hn ND']; subst.
    pose proof (find_some_in _ _ _ Ha) as Ia. pose proof (find_some_in _ _ _ Hb) as Ib.
    rewrite find_eq in Ha, Hb. rewrite ids_eq in Ia, Ib.
    destruct (a =? k) eqn:Eak.
    + apply N.eqb_eq in Eak. subst k. injection Ha as ->. now right.
    + destruct (b =? k) eqn:Ebk.
      * apply N.eqb_eq in Ebk. subst k. injection Hb as ->. now left.
      * now apply Hc.
Qed.

Lemma inside_w_laminar : forall w a b x,
  wfw w -> inside_w w a x -> inside_w w b x -> inside_w w b a \/ inside_w w a b.
Proof.
  intros w a b x (ND & _) Ha Hb. apply inside_w_iff in Ha, Hb.
  destruct Ha as (ca & Hca & Hxa). destruct Hb as (cb & Hcb & Hxb).
  destruct (proj2 (laminar_both a ca b cb x Hxa Hxb) (docs w) ND Hca Hcb) as [K|K].
  - left. apply inside_w_iff. eauto.
  - right. apply inside_w_iff. eauto.
Qed.

Lemma inside_w_refl : forall w a, live w a = true -> inside_w w a a.
Proof.
  intros w a L. apply live_get in L. destruct L as (c & Hc). exists c. split; [exact Hc|apply root_in_ids].
Qed.

Lemma inside_w_child : forall w r cr e, get w r = Some cr -> In e (cids cr) -> inside_w w r e.
Proof. intros w r cr e H He. exists cr. split; [exact H|]. rewrite ids_eq. now right. Qed.

Lemma inside_w_live : forall w a b, inside_w w a b -> live w b = true.
Proof.
  intros w a b H. apply inside_w_iff in H. destruct H as (c & Hc & Hb).
  apply live_iff. apply (findl_sub _ _ _ Hc). exact Hb.
Qed.

(* a strict descendant is not around its ancestor *)
Lemma child_not_around : forall w r cr e,
  wfw w -> get w r = Some cr -> In e (cids cr) -> ~ inside_w w e r.
Proof.
  intros w r cr e (ND & _) Hr He K. rewrite get_eq in Hr. apply inside_w_iff in K.
  destruct K as (ce & Hce & [K|K]).
  - subst e. now apply (findl_cids_nodup _ _ _ ND Hr).
  - exact (findl_no_cycle r cr e ce (docs w) ND Hr Hce He K).
Qed.

(* ------------------------------------------------------------------------------------------ *)
(* One creation level: getOrAddMember / getOrAddElement on a value that lacks the child          *)
(* ------------------------------------------------------------------------------------------ *)

Lemma bytes_eqb_refl : forall a, bytes_eqb a a = true.
Proof. induction a as [|x a IH]; cbn [bytes_eqb]; [reflexivity|]. now rewrite N.eqb_refl, IH. Qed.

Lemma member_id_app_none : forall l k v,
  member_id l k = None -> member_id (l ++ [(k, v)]) k = Some (node_id v).
Proof.
  induction l as [|[k' v'] t IH]; intros k v H; cbn [app member_id] in *.
  - now rewrite bytes_eqb_refl.
  - destruct (bytes_eqb k k'); [discriminate|]. now apply IH.
Qed.

Lemma findl_app_not_in : forall e a b, ~ In e (idsl a) -> findl e (a ++ b) = findl e b.
Proof.
  induction a as [|x t IH]; intros b H; [reflexivity|]. cbn [app findl].
  rewrite idsl_cons, in_app_iff in H.
  assert (E : find e x = None) by (apply find_none_iff; tauto). rewrite E. apply IH. tauto.
Qed.

Lemma findl_single : forall e c, findl e [Node e c] = Some c.
Proof. intros. cbn [findl]. now rewrite find_eq, N.eqb_refl. Qed.

Lemma pad_to_fresh : forall i l nx l' e nx',
  pad_to l i nx = (l', e, nx') -> nth_error l i = None -> (forall y, In y (idsl l) -> y < nx) ->
  nx <= e < nx' /\ findl e l' = Some CNull /\ option_map node_id (nth_error l' i) = Some e.
Proof.
  induction i as [|i IH]; intros l nx l' e nx' H Hn Hlt.
  - destruct l as [|x t]; cbn [pad_to nth_error] in *; [|discriminate].
    injection H as <- <- <-. split; [lia|]. split; [apply findl_single|reflexivity].
  - destruct l as [|x t]; cbn [pad_to nth_error] in *.
    + destruct (pad_to [] i (nx + 1)) as [[t' r0] nx0] eqn:E. injection H as <- <- <-.
      destruct (IH [] (nx + 1) t' r0 nx0 E) as (R & Fd & Nt).
      * destruct i; reflexivity.
      * intros y [].
      * split; [lia|]. split; [|exact Nt].
        cbn [findl]. rewrite find_eq.
        replace (r0 =? nx) with false by (symmetry; apply N.eqb_neq; lia). exact Fd.
    + destruct (pad_to t i nx) as [[t' r0] nx0] eqn:E. injection H as <- <- <-.
      rewrite idsl_cons in Hlt.
      destruct (IH t nx t' r0 nx0 E Hn) as (R & Fd & Nt).
      * intros y Hy. apply Hlt. apply in_or_app. now right.
      * split; [exact R|]. split; [|exact Nt].
        cbn [findl].
        assert (Ex : find r0 x = None).
        { apply find_none_iff. intro K. assert (r0 < nx) by (apply Hlt; apply in_or_app; now left). lia. }
        now rewrite Ex.
Qed.

(* the creation succeeded: r's content was replaced by c1, which has the old children plus fresh ones; the
   child e designated by p is one of the fresh ones and holds null *)
Definition created (w w1 : world) (r : N) (p : pel) (e : N) : Prop :=
  exists cr c1, get w r = Some cr /\
     docs w1 = map (update r (fun _ => c1)) (docs w) /\ next_id w <= next_id w1 /\
     (forall x, In x (cids c1) -> In x (cids cr) \/ next_id w <= x < next_id w1) /\
     level_of c1 p = Some e /\ next_id w <= e /\ findl e (children c1) = Some CNull.

Lemma create_elem_docs : forall l nx r cr i lp e nx',
  wff l nx -> findl r l = Some cr -> nth_error (children cr) i = None ->
  pad_to (children cr) i nx = (lp, e, nx') ->
  map (update e (fun _ => CNull)) (map (update r (fun _ => CArr lp)) l) = map (update r (fun _ => CArr lp)) l
  /\ nx <= nx' /\ (forall x, In x (cids (CArr lp)) -> In x (cids cr) \/ nx <= x < nx')
  /\ level_of (CArr lp) (PIdx i) = Some e /\ nx <= e /\ findl e lp = Some CNull.
Proof.
  intros l nx r cr i lp e nx' W Hr Hn Hp.
  destruct (pad_to_spec _ _ _ _ _ _ Hp) as (Hle & He & F & EF & NDF & HF).
  pose proof W as (ND & Hlt).
  destruct (pad_to_fresh _ _ _ _ _ _ Hp Hn) as (R & Fd & Nt).
  { intros y Hy. apply Hlt. apply (findl_sub _ _ _ Hr). now right. }
  set (l1 := map (update r (fun _ => CArr lp)) l).
  assert (W1 : wff l1 nx').
  { eapply good_upd_wff; [exact W|]. apply (good_extend l nx r cr nx' (CArr lp) F W Hr Hle EF NDF HF). }
  assert (Hr1 : findl r l1 = Some (CArr lp)).
  { unfold l1. rewrite findl_update_same, Hr. reflexivity. }
  destruct W1 as (ND1 & _).
  assert (He1 : findl e l1 = Some CNull).
  { rewrite (findl_descend r (CArr lp) e l1 ND1 Hr1 He). exact Fd. }
  split; [exact (updatel_id e _ l1 CNull ND1 He1 eq_refl)|].
  split; [exact Hle|]. split.
  - intros x Hx. unfold cids in Hx. cbn [children] in Hx. rewrite EF in Hx.
    apply in_app_or in Hx. destruct Hx as [Hx|Hx]; [now left|right; now apply HF].
  - split; [exact Nt|]. split; [lia|exact Fd].
Qed.

(* the kinds of value on which a level can be created: null, or the matching container *)
Definition accepts (c : content) (p : pel) : bool :=
  match p, c with
  | _, CNull => true
  | PKey _, CObj _ => true
  | PIdx _, CArr _ => true
  | _, _ => false
  end.

Lemma create_level : forall w r p, wfw w -> get_level w r p = None ->
  (fst (step w (create_op r p)) = w /\ forall c, get w r = Some c -> accepts c p = false) \/
  (exists e, created w (fst (step w (create_op r p))) r p e).
Proof.
  intros w r p W H. rewrite get_level_eq in H. pose proof W as (ND & Hlt).
  destruct p as [k|i]; cbn [create_op step].
  - destruct (get w r) as [c|] eqn:G;
      [destruct c; try (left; split; [reflexivity|intros c' [= <-]; reflexivity])
      |left; split; [reflexivity|discriminate]].
    + (* null *)
      right. unfold created. cbn [member_id fresh fst set_content upd docs next_id content_of_scalar].
      exists (next_id w), CNull, (CObj ([] ++ [(k, Node (next_id w) CNull)])).
      split; [exact G|]. split; [reflexivity|]. split; [lia|]. split.
      * intros x [<-|[]]. right. lia.
      * cbn [app level_of member_id]. rewrite bytes_eqb_refl. cbn [node_id].
        split; [reflexivity|]. split; [lia|]. cbn [children map snd]. apply findl_single.
    + (* object without the key *)
      cbn [level_of] in H. rewrite H.
      right. unfold created. cbn [fresh fst set_content upd docs next_id content_of_scalar].
      exists (next_id w), (CObj l), (CObj (l ++ [(k, Node (next_id w) CNull)])).
      split; [exact G|]. split; [reflexivity|]. split; [lia|]. split.
      * intros x Hx. unfold cids in Hx. cbn [children] in Hx. rewrite map_app, idsl_app in Hx.
        apply in_app_or in Hx. destruct Hx as [Hx|[<-|[]]]; [now left|right; lia].
      * cbn [level_of]. rewrite (member_id_app_none l k _ H). cbn [node_id].
        split; [reflexivity|]. split; [lia|]. cbn [children]. rewrite map_app. cbn [map snd].
        rewrite findl_app_not_in; [apply findl_single|].
        intro K. assert (next_id w < next_id w); [|lia].
        apply Hlt. rewrite get_eq in G. apply (findl_sub _ _ _ G). now right.
  - destruct (get w r) as [c|] eqn:G;
      [destruct c; try (left; split; [reflexivity|intros c' [= <-]; reflexivity])
      |left; split; [reflexivity|discriminate]].
    + (* null *)
      right. rewrite get_eq in G.
      destruct (pad_to [] i (next_id w)) as [[lp e] nx'] eqn:Hp.
      unfold created. cbn [fst set_content upd docs next_id content_of_scalar].
      assert (Hn : nth_error (children CNull) i = None) by (destruct i; reflexivity).
      destruct (create_elem_docs (docs w) (next_id w) r CNull i lp e nx' W G Hn Hp)
        as (Ed & Hle & Hc & Hl & Hge & Hf).
      exists e, CNull, (CArr lp). rewrite get_eq.
      split; [exact G|]. split; [exact Ed|]. split; [exact Hle|]. split; [exact Hc|].
      split; [exact Hl|]. split; [exact Hge|exact Hf].
    + (* array too short *)
      right. rewrite get_eq in G. cbn [level_of] in H.
      destruct (pad_to l i (next_id w)) as [[lp e] nx'] eqn:Hp.
      unfold created. cbn [fst set_content upd docs next_id content_of_scalar].
      assert (Hn : nth_error (children (CArr l)) i = None).
      { cbn [children]. destruct (nth_error l i); [discriminate|reflexivity]. }
      destruct (create_elem_docs (docs w) (next_id w) r (CArr l) i lp e nx' W G Hn Hp)
        as (Ed & Hle & Hc & Hl & Hge & Hf).
      exists e, (CArr l), (CArr lp). rewrite get_eq.
      split; [exact G|]. split; [exact Ed|]. split; [exact Hle|]. split; [exact Hc|].
      split; [exact Hl|]. split; [exact Hge|exact Hf].
Qed.

(* what stays the same around a slot e when something changes inside it: every other live slot that is not
   inside e keeps its skeleton (it is still there, with the same children identities and keys) *)
Definition same_above (w w' : world) (e : N) : Prop :=
  forall a, live w a = true -> ~ inside_w w e a ->
    option_map skel (get w' a) = option_map skel (get w a).

Lemma same_above_refl : forall w e, same_above w w e.
Proof. intros w e a _ _. reflexivity. Qed.

Lemma same_above_live : forall w w' e a,
  same_above w w' e -> live w a = true -> ~ inside_w w e a -> live w' a = true.
Proof.
  intros w w' e a S L H. specialize (S a L H). apply live_get in L. destruct L as (c & Hc).
  rewrite Hc in S. apply live_get. destruct (get w' a) as [c'|]; [eauto|discriminate].
Qed.

Lemma live_lt : forall w a, wfw w -> live w a = true -> a < next_id w.
Proof. intros w a (_ & Hlt) L. apply Hlt. now apply live_iff. Qed.

Lemma created_facts : forall w w1 r p e, wfw w -> wfw w1 -> created w w1 r p e ->
  get_level w1 r p = Some e /\ get w1 e = Some CNull /\ next_id w <= e /\ next_id w <= next_id w1 /\
  same_above w w1 r.
Proof.
  intros w w1 r p e W W1 (cr & c1 & Hr & Ed & Hle & Hc & Hl & Hge & Hf).
  pose proof W as (ND & Hlt). pose proof W1 as (ND1 & _). rewrite get_eq in Hr.
  assert (Hr1 : findl r (docs w1) = Some c1).
  { rewrite Ed, findl_update_same, Hr. reflexivity. }
  split; [|split; [|split; [exact Hge|split; [exact Hle|]]]].
  - rewrite get_level_eq, get_eq, Hr1. exact Hl.
  - rewrite get_eq. rewrite (findl_descend r c1 e (docs w1) ND1 Hr1 (level_of_child _ _ _ Hl)). exact Hf.
  - intros a La Ha. rewrite !get_eq, Ed.
    apply (findl_update_above_skel r _ a (docs w) cr ND Hr).
    + intro K. apply Ha. apply inside_w_iff. eauto.
    + intro K. destruct (Hc _ K) as [K'|K'].
      * apply Ha. apply inside_w_iff. exists cr. split; [exact Hr|now right].
      * pose proof (live_lt w a W La). lia.
Qed.

Lemma step_wfw_fst : forall w o, wfw w -> wfw (fst (step w o)).
Proof. intros w o W. destruct (step w o) as [w' res] eqn:E. cbn [fst]. eapply step_wfw; eauto. Qed.

(* one level of a chained write that yields a value *)
Lemma level_spec : forall w r p w1 e1, wfw w -> get_or_add_level w r p = (w1, Some e1) ->
  wfw w1 /\ next_id w <= next_id w1 /\ get_level w1 r p = Some e1 /\ same_above w w1 r /\
  (forall a, live w a = true -> ~ inside_w w r a -> ~ inside_w w1 e1 a) /\
  ((w1 = w /\ get_level w r p = Some e1) \/
   (w1 = fst (step w (create_op r p)) /\ get_level w r p = None /\ get w1 e1 = Some CNull /\
    next_id w <= e1)).
Proof.
  intros w r p w1 e1 W H.
  destruct (get_or_add_level_cases w r p) as [(e & G & E)|[G E]]; rewrite E in H.
  - injection H as <- <-. split; [exact W|]. split; [lia|]. split; [exact G|].
    split; [apply same_above_refl|]. split; [|left; now split].
    intros a La Ha K. apply Ha.
    destruct (get_level_child _ _ _ _ G) as (cr & Hr & He).
    eapply inside_w_trans; [exact W|eapply inside_w_child; eauto|exact K].
  - injection H as Ew Ee.
    assert (W1 : wfw w1) by (rewrite <- Ew; now apply step_wfw_fst).
    destruct (create_level w r p W G) as [(E1 & _)|(e & C)].
    + rewrite E1 in Ee. congruence.
    + rewrite Ew in *.
      destruct (created_facts w w1 r p e W W1 C) as (F1 & F2 & F3 & F4 & F5).
      assert (e = e1) by congruence. subst e.
      split; [exact W1|]. split; [exact F4|]. split; [exact F1|]. split; [exact F5|]. split.
      * intros a La Ha (c & Hc & K). rewrite F2 in Hc. injection Hc as <-.
        rewrite ids_eq in K. destruct K as [<-|[]]. pose proof (live_lt w e1 W La). lia.
      * right. split; [reflexivity|]. split; [exact G|]. split; [exact F2|exact F3].
Qed.

(* ------------------------------------------------------------------------------------------ *)
(* 3 — failure leaves the world alone                                                           *)
(* ------------------------------------------------------------------------------------------ *)

(* null accepts any chain of levels *)
Lemma resolve_from_null : forall path w e, wfw w -> get w e = Some CNull ->
  exists w' e', chain_resolve w (Some e) path = (w', Some e').
Proof.
  induction path as [|p t IH]; intros w e W G; [exists w, e; reflexivity|].
  rewrite chain_resolve_cons.
  destruct (get_or_add_level_cases w e p) as [(e2 & G2 & _)|[G2 E]].
  - rewrite get_level_eq, G in G2. destruct p; discriminate.
  - rewrite E. cbn [fst snd].
    destruct (create_level w e p W G2) as [(_ & K)|(e2 & C)]; [specialize (K _ G); destruct p; discriminate|].
    assert (W1 : wfw (fst (step w (create_op e p)))) by (now apply step_wfw_fst).
    destruct (created_facts _ _ _ _ _ W W1 C) as (F1 & F2 & _).
    rewrite F1. now apply IH.
Qed.

Theorem chain_resolve_fail_unchanged : forall path w r w', wfw w ->
  chain_resolve w (Some r) path = (w', None) -> w' = w.
Proof.
  induction path as [|p t IH]; intros w r w' W H; [discriminate|].
  rewrite chain_resolve_cons in H.
  destruct (get_or_add_level_cases w r p) as [(e & G & E)|[G E]]; rewrite E in H; cbn [fst snd] in H.
  - eapply IH; eauto.
  - destruct (create_level w r p W G) as [(E1 & _)|(e & C)].
    + rewrite E1, G, chain_resolve_none in H. congruence.
    + assert (W1 : wfw (fst (step w (create_op r p)))) by (now apply step_wfw_fst).
      destruct (created_facts _ _ _ _ _ W W1 C) as (F1 & F2 & _).
      rewrite F1 in H.
      destruct (resolve_from_null t _ e W1 F2) as (w2 & e2 & K). congruence.
Qed.

(* hence the world returned by a failed chained write (the original one) is also the world the level-by-level
   resolution ended in, and the result is what a set on an unbound reference reports *)
Corollary chain_set_fail : forall w r path x w', wfw w ->
  chain_resolve w (Some r) path = (w', None) ->
  chain_set w r path x = (w', RBool (set_on_unbound x)) /\ w' = w.
Proof.
  intros w r path x w' W H. pose proof (chain_resolve_fail_unchanged _ _ _ _ W H) as ->.
  unfold chain_set. rewrite H. split; reflexivity.
Qed.

(* where a chain can fail: only at a level whose value is dead, or exists with the wrong kind *)
Lemma level_fail : forall w r p w1, wfw w -> get_or_add_level w r p = (w1, None) ->
  w1 = w /\ forall c, get w r = Some c -> accepts c p = false.
Proof.
  intros w r p w1 W H.
  destruct (get_or_add_level_cases w r p) as [(e & G & E)|[G E]]; rewrite E in H; [discriminate|].
  injection H as Ew Ee.
  destruct (create_level w r p W G) as [(E1 & K)|(e & C)].
  - split; [congruence|exact K].
  - assert (W1 : wfw (fst (step w (create_op r p)))) by (now apply step_wfw_fst).
    destruct (created_facts _ _ _ _ _ W W1 C) as (F1 & _). congruence.
Qed.

(* ------------------------------------------------------------------------------------------ *)
(* 4 — read your write                                                                          *)
(* ------------------------------------------------------------------------------------------ *)

Lemma get_level_inside : forall w r p e, get_level w r p = Some e ->
  live w r = true /\ inside_w w r e /\ live w e = true /\ exists cr, get w r = Some cr /\ In e (cids cr).
Proof.
  intros w r p e G. destruct (get_level_child _ _ _ _ G) as (cr & Hr & He).
  pose proof (inside_w_child _ _ _ _ Hr He) as I.
  split; [apply live_get; eauto|]. split; [exact I|]. split; [eapply inside_w_live; eauto|eauto].
Qed.

(* a chained read only goes down *)
Lemma walk_inside : forall path w r e, wfw w -> live w r = true ->
  chain_walk w (Some r) path = Some e -> inside_w w r e.
Proof.
  induction path as [|p t IH]; intros w r e W L H.
  - injection H as <-. now apply inside_w_refl.
  - cbn [chain_walk] in H. destruct (get_level w r p) as [r1|] eqn:G; [|rewrite chain_walk_none in H; discriminate].
    destruct (get_level_inside _ _ _ _ G) as (_ & I1 & L1 & _).
    eapply inside_w_trans; [exact W|exact I1|]. now apply IH.
Qed.

(* a chained read that ends at e is not disturbed by changes that keep the skeletons around e *)
Lemma walk_stable : forall path w w2 r e, wfw w -> same_above w w2 e ->
  chain_walk w (Some r) path = Some e -> chain_walk w2 (Some r) path = Some e.
Proof.
  induction path as [|p t IH]; intros w w2 r e W S H; [exact H|].
  cbn [chain_walk] in *. destruct (get_level w r p) as [r1|] eqn:G; [|rewrite chain_walk_none in H; discriminate].
  destruct (get_level_inside _ _ _ _ G) as (L & I1 & L1 & cr & Hr & He).
  assert (G2 : get_level w2 r p = Some r1).
  { rewrite (get_level_skel w w2 r p); [exact G|]. apply S; [exact L|].
    intro K. apply (child_not_around w r cr r1 W Hr He).
    eapply inside_w_trans; [exact W| |exact K]. now apply (walk_inside t). }
  rewrite G2. now apply (IH w).
Qed.

Lemma resolve_walk : forall path w r w' e, wfw w -> live w r = true ->
  chain_resolve w (Some r) path = (w', Some e) ->
  wfw w' /\ next_id w <= next_id w' /\ chain_walk w' (Some r) path = Some e /\ same_above w w' r /\
  live w' r = true.
Proof.
  induction path as [|p t IH]; intros w r w' e W L H.
  - injection H as <- <-. split; [exact W|]. split; [lia|]. split; [reflexivity|].
    split; [apply same_above_refl|exact L].
  - rewrite chain_resolve_cons in H.
    destruct (get_or_add_level w r p) as [w1 [e1|]] eqn:Lv; cbn [fst snd] in H;
      [|rewrite chain_resolve_none in H; discriminate].
    destruct (level_spec w r p w1 e1 W Lv) as (W1 & N1 & G1 & S1 & O1 & _).
    destruct (get_level_inside _ _ _ _ G1) as (Lr1 & I1 & Le1 & cr1 & Hr1 & He1).
    destruct (IH w1 e1 w' e W1 Le1 H) as (W' & N' & Wk & S' & _).
    assert (G' : get_level w' r p = Some e1).
    { rewrite (get_level_skel w1 w' r p); [exact G1|]. apply S'; [exact Lr1|].
      exact (child_not_around w1 r cr1 e1 W1 Hr1 He1). }
    split; [exact W'|]. split; [lia|]. split; [|split].
    + cbn [chain_walk]. rewrite G'. exact Wk.
    + intros a La Ha.
      pose proof (same_above_live _ _ _ _ S1 La Ha) as La1.
      rewrite (S' a La1 (O1 a La Ha)). now apply S1.
    + now destruct (get_level_inside _ _ _ _ G').
Qed.

(* the same path read back in the resulting world designates the value that was resolved or created *)
Theorem chain_resolve_read_back : forall w r path w' e, wfw w -> live w r = true ->
  chain_resolve w (Some r) path = (w', Some e) ->
  chain_walk w' (Some r) path = Some e /\ live w' e = true.
Proof.
  intros w r path w' e W L H. destruct (resolve_walk path w r w' e W L H) as (W' & _ & Wk & _ & L').
  split; [exact Wk|]. eapply inside_w_live. now apply (walk_inside path w' r e).
Qed.

Lemma set_content_same_above : forall w e c, wfw w -> live w e = true -> cids c = [] ->
  same_above w (set_content w e c) e.
Proof.
  intros w e c (ND & _) L Hc a La Ha. apply live_get in L. destruct L as (ce & Hce).
  rewrite !get_eq in *. cbn [set_content upd docs].
  apply (findl_update_above_skel e _ a (docs w) ce ND Hce).
  - intro K. apply Ha. apply inside_w_iff. eauto.
  - rewrite Hc. intros [].
Qed.

(* no side condition is needed: any keys (member lookup and creation use the same comparison), any indices
   (creation pads with nulls up to the index), any scalar *)
Theorem chain_set_read_back : forall w r path x w' e w2 res, wfw w -> live w r = true ->
  chain_resolve w (Some r) path = (w', Some e) ->
  chain_set w r path x = (w2, res) ->
  res = RBool true /\ chain_walk w2 (Some r) path = Some e /\ get w2 e = Some (content_of_scalar x).
Proof.
  intros w r path x w' e w2 res W L H H2.
  destruct (resolve_walk path w r w' e W L H) as (W' & _ & Wk & _ & L').
  destruct (chain_resolve_read_back w r path w' e W L H) as (_ & Le).
  unfold chain_set in H2. rewrite H in H2. cbn [step] in H2. injection H2 as <- <-.
  split; [reflexivity|]. split.
  - apply (walk_stable path w'); [exact W'| |exact Wk].
    apply set_content_same_above; [exact W'|exact Le|apply cids_scalar].
  - apply live_get in Le. destruct Le as (ce & Hce). rewrite get_eq in *.
    cbn [set_content upd docs]. rewrite findl_update_same, Hce. reflexivity.
Qed.

(* a chained write on a live root either fails and changes nothing, or succeeds and the chained read of the same path
   yields a live value holding what was written *)
Corollary chain_set_then_get : forall w r path x, wfw w -> live w r = true ->
  (chain_set w r path x = (w, RBool (set_on_unbound x)) /\ snd (chain_resolve w (Some r) path) = None) \/
  (exists e, snd (chain_set w r path x) = RBool true /\
             snd (chain_get (fst (chain_set w r path x)) r path) = RRef (Some e) /\
             get (fst (chain_set w r path x)) e = Some (content_of_scalar x)).
Proof.
  intros w r path x W L. destruct (chain_resolve w (Some r) path) as [w' [e|]] eqn:R.
  - right. exists e. destruct (chain_set w r path x) as [w2 res] eqn:S.
    destruct (chain_set_read_back w r path x w' e w2 res W L R S) as (-> & Wk & G).
    cbn [fst snd chain_get]. rewrite Wk. now split.
  - left. destruct (chain_set_fail w r path x w' W R) as (E & ->). now split.
Qed.

(* ------------------------------------------------------------------------------------------ *)
(* 5 — frame for chains                                                                         *)
(* ------------------------------------------------------------------------------------------ *)

Lemma targets_create_op : forall r p, targets (create_op r p) = Some r.
Proof. intros r p. destruct p; reflexivity. Qed.

Lemma chain_resolve_frame : forall path w r w' oe j c, wfw w ->
  chain_resolve w (Some r) path = (w', oe) ->
  get w j = Some c -> ~ inside_w w r j -> ~ inside_w w j r ->
  get w' j = Some c /\ (forall e, oe = Some e -> ~ inside_w w' e j /\ ~ inside_w w' j e).
Proof.
  induction path as [|p t IH]; intros w r w' oe j c W H Hj Hrj Hjr.
  - injection H as <- <-. split; [exact Hj|]. intros e [= <-]. now split.
  - rewrite chain_resolve_cons in H.
    destruct (get_or_add_level w r p) as [w1 [e1|]] eqn:Lv; cbn [fst snd] in H.
    + destruct (level_spec w r p w1 e1 W Lv) as (W1 & N1 & G1 & S1 & O1 & D).
      assert (Lj : live w j = true) by (apply live_get; eauto).
      assert (Hj1 : get w1 j = Some c).
      { destruct D as [(-> & _)|(Ew & _)]; [exact Hj|].
        apply (frame w (create_op r p) w1 (snd (step w (create_op r p))) r j c W (targets_create_op r p));
          [|exact Hj|exact Hrj|exact Hjr].
        rewrite Ew. apply surjective_pairing. }
      apply (IH w1 e1 w' oe j c W1 H Hj1).
      * now apply O1.
      * intros (cj & Hcj & K). rewrite Hj1 in Hcj. injection Hcj as <-.
        destruct D as [(-> & G)|(_ & _ & _ & Hge)].
        -- destruct (get_level_inside _ _ _ _ G) as (_ & I1 & _).
           assert (I2 : inside_w w j e1) by (exists c; now split).
           destruct (inside_w_laminar w j r e1 W I2 I1) as [K'|K']; tauto.
        -- assert (e1 < next_id w); [|lia].
           destruct W as (_ & Hlt). apply Hlt. rewrite get_eq in Hj. apply (findl_sub _ _ _ Hj).
           now rewrite <- ids_eq.
    + rewrite chain_resolve_none in H. injection H as <- <-.
      destruct (level_fail w r p w1 W Lv) as (-> & _). split; [exact Hj|]. intros e K. discriminate.
Qed.

(* a chained write rooted at r leaves alone every value that is neither inside r's subtree nor around r *)
Theorem chain_set_frame : forall w r path x j c, wfw w ->
  get w j = Some c -> ~ inside_w w r j -> ~ inside_w w j r ->
  get (fst (chain_set w r path x)) j = Some c.
Proof.
  intros w r path x j c W Hj Hrj Hjr. unfold chain_set.
  destruct (chain_resolve w (Some r) path) as [w' [e|]] eqn:R; [|exact Hj].
  destruct (chain_resolve_frame path w r w' (Some e) j c W R Hj Hrj Hjr) as (Hj' & K).
  destruct (K e eq_refl) as (K1 & K2).
  assert (W' : wfw w') by (pose proof (chain_resolve_wfw path w (Some r) W) as X; now rewrite R in X).
  apply (frame w' (OSet e x) _ (snd (step w' (OSet e x))) e j c W' eq_refl); [|exact Hj'|exact K1|exact K2].
  apply surjective_pairing.
Qed.

(* ... and it keeps them live *)
Corollary chain_set_frame_live : forall w r path x j, wfw w ->
  live w j = true -> ~ inside_w w r j -> ~ inside_w w j r ->
  live (fst (chain_set w r path x)) j = true.
Proof.
  intros w r path x j W L Hrj Hjr. apply live_get in L. destruct L as (c & Hc).
  apply live_get. exists c. now apply chain_set_frame.
Qed.

(* other documents *)
Lemma doc_of_unique : forall w i d nd, wfw w ->
  nth_error (docs w) d = Some nd -> In i (ids nd) -> doc_of w i = Some d.
Proof.
  intros w i d nd (ND & _) Hnd Hi.
  assert (L : live w i = true).
  { apply live_iff. unfold idsl. apply in_flat_map. exists nd. split; [eapply nth_error_In; eauto|exact Hi]. }
  unfold live in L. destruct (doc_of w i) as [d'|] eqn:E; [|discriminate].
  destruct (doc_of_spec _ _ _ E) as (nd' & Hnd' & Hi').
  destruct (Nat.eq_dec d' d) as [->|Hne]; [reflexivity|].
  exfalso. exact (docs_disjoint (docs w) d' d nd' nd i ND Hnd' Hnd Hne Hi' Hi).
Qed.

Lemma step_doc_of_target : forall w o w' res r d, wfw w -> targets o = Some r ->
  step w o = (w', res) -> doc_of w r = Some d -> doc_of w' r = Some d.
Proof.
  intros w o w' res r d W T H Hd.
  assert (L : live w r = true) by (unfold live; now rewrite Hd).
  pose proof (target_stays_live _ _ _ _ _ W T H L) as L'.
  unfold live in L'. destruct (doc_of w' r) as [d'|] eqn:E; [|discriminate].
  destruct (Nat.eq_dec d' d) as [->|Hne]; [reflexivity|].
  destruct (doc_of_spec _ _ _ E) as (nd' & Hnd' & Hi').
  rewrite (step_other_doc w o w' res r d d' W T H Hd Hne) in Hnd'.
  rewrite (doc_of_unique w r d' nd' W Hnd' Hi') in Hd. congruence.
Qed.

Lemma inside_doc_of : forall w r e d, wfw w -> inside_w w r e -> doc_of w r = Some d -> doc_of w e = Some d.
Proof.
  intros w r e d W I Hd. pose proof W as (ND & _).
  destruct (doc_of_spec _ _ _ Hd) as (nd & Hnd & Hi).
  apply inside_w_iff in I. destruct I as (cr & Hcr & He).
  apply (doc_of_unique w e d nd W Hnd).
  exact (subtree_in_doc (docs w) d nd r cr e ND Hnd Hi Hcr He).
Qed.

Lemma chain_resolve_other_doc : forall path w r w' oe d k, wfw w ->
  chain_resolve w (Some r) path = (w', oe) -> doc_of w r = Some d -> k <> d ->
  nth_error (docs w') k = nth_error (docs w) k /\ forall e, oe = Some e -> doc_of w' e = Some d.
Proof.
  induction path as [|p t IH]; intros w r w' oe d k W H Hd Hk.
  - injection H as <- <-. split; [reflexivity|]. intros e [= <-]. exact Hd.
  - rewrite chain_resolve_cons in H.
    destruct (get_or_add_level w r p) as [w1 [e1|]] eqn:Lv; cbn [fst snd] in H.
    + destruct (level_spec w r p w1 e1 W Lv) as (W1 & N1 & G1 & S1 & O1 & D).
      assert (X : nth_error (docs w1) k = nth_error (docs w) k /\ doc_of w1 r = Some d).
      { destruct D as [(-> & _)|(Ew & _)]; [now split|].
        assert (St : step w (create_op r p) = (w1, snd (step w (create_op r p)))).
        { rewrite Ew. apply surjective_pairing. }
        split.
        - exact (step_other_doc w _ w1 _ r d k W (targets_create_op r p) St Hd Hk).
        - exact (step_doc_of_target w _ w1 _ r d W (targets_create_op r p) St Hd). }
      destruct X as (X1 & X2).
      destruct (get_level_inside _ _ _ _ G1) as (_ & I1 & _).
      pose proof (inside_doc_of w1 r e1 d W1 I1 X2) as Hd1.
      destruct (IH w1 e1 w' oe d k W1 H Hd1 Hk) as (Y1 & Y2).
      split; [congruence|exact Y2].
    + rewrite chain_resolve_none in H. injection H as <- <-.
      destruct (level_fail w r p w1 W Lv) as (-> & _). split; [reflexivity|]. intros e K. discriminate.
Qed.

(* a chained write into document d leaves every other document exactly as it was *)
Theorem chain_set_other_doc : forall w r path x d k, wfw w ->
  doc_of w r = Some d -> k <> d ->
  nth_error (docs (fst (chain_set w r path x))) k = nth_error (docs w) k.
Proof.
  intros w r path x d k W Hd Hk. unfold chain_set.
  destruct (chain_resolve w (Some r) path) as [w' [e|]] eqn:R; [|reflexivity].
  destruct (chain_resolve_other_doc path w r w' (Some e) d k W R Hd Hk) as (E1 & K).
  assert (W' : wfw w') by (pose proof (chain_resolve_wfw path w (Some r) W) as X; now rewrite R in X).
  rewrite <- E1.
  apply (step_other_doc w' (OSet e x) _ (snd (step w' (OSet e x))) e d k W' eq_refl); [|now apply K|exact Hk].
  apply surjective_pairing.
Qed.

Corollary chain_set_other_doc_jv : forall w r path x d k, wfw w ->
  doc_of w r = Some d -> k <> d ->
  option_map to_jv (nth_error (docs (fst (chain_set w r path x))) k) = option_map to_jv (nth_error (docs w) k).
Proof. intros. erewrite chain_set_other_doc; eauto. Qed.

(* ------------------------------------------------------------------------------------------ *)
(* 6 — examples                                                                                 *)
(* ------------------------------------------------------------------------------------------ *)

(* doc0["a"][1]["b"] = 5 on two empty documents: creates {"a":[null,{"b":5}]}, returns true, leaves doc1 alone *)
Example chain_example_create :
  let '(w1, res) := chain_set (init_world 2) 0 [PKey [97]; PIdx 1; PKey [98]] (SInt 5) in
  map to_jv (docs w1) = [JObj [([97], JArr [JNull; JObj [([98], JInt 5)]])]; JNull] /\ res = RBool true.
Proof. vm_compute. split; reflexivity. Qed.

(* reading doc0["a"][1]["b"] back gives the value that was written (slot 5, holding 5); the read changes nothing *)
Example chain_example_read :
  let w1 := fst (chain_set (init_world 2) 0 [PKey [97]; PIdx 1; PKey [98]] (SInt 5)) in
  let '(w2, res) := chain_get w1 0 [PKey [97]; PIdx 1; PKey [98]] in
  res = RRef (Some 5) /\ get w2 5 = Some (CInt 5) /\ w2 = w1.
Proof. vm_compute. repeat split; reflexivity. Qed.

(* doc0["a"]["x"] = 1 afterwards: "a" is an array, the chain fails, reports false and changes nothing; with a string
   the same failed chain reports true (set_on_unbound) and still changes nothing *)
Example chain_example_fail :
  let w1 := fst (chain_set (init_world 2) 0 [PKey [97]; PIdx 1; PKey [98]] (SInt 5)) in
  chain_set w1 0 [PKey [97]; PKey [120]] (SInt 1) = (w1, RBool false) /\
  chain_set w1 0 [PKey [97]; PKey [120]] (SStr [120]) = (w1, RBool true) /\
  map to_jv (docs w1) = [JObj [([97], JArr [JNull; JObj [([98], JInt 5)]])]; JNull].
Proof. vm_compute. repeat split; reflexivity. Qed.

(* an existing path is reused, not re-created: doc0["a"][1]["b"] = true overwrites slot 5 *)
Example chain_example_overwrite :
  let w1 := fst (chain_set (init_world 2) 0 [PKey [97]; PIdx 1; PKey [98]] (SInt 5)) in
  let '(w2, res) := chain_set w1 0 [PKey [97]; PIdx 1; PKey [98]] (SBool true) in
  map to_jv (docs w2) = [JObj [([97], JArr [JNull; JObj [([98], JBool true)]])]; JNull] /\
  res = RBool true /\ next_id w2 = next_id w1.
Proof. vm_compute. repeat split; reflexivity. Qed.

Print Assumptions chain_set_is_run.
Print Assumptions chain_set_is_run_strong.
Print Assumptions chain_set_wfw.
Print Assumptions hreachable_wfw.
Print Assumptions get_op_reads.
Print Assumptions chain_resolve_fail_unchanged.
Print Assumptions chain_set_fail.
Print Assumptions chain_resolve_read_back.
Print Assumptions chain_set_read_back.
Print Assumptions chain_set_then_get.
Print Assumptions chain_set_frame.
Print Assumptions chain_set_other_doc.

(* ---- the other two-step API calls of Model/Chain.v are runs of steps as well ---- *)
Lemma then_to_is_run : forall w1 res arr, exists ops, fst (then_to w1 res arr) = run w1 ops.
Proof.
  intros w1 res arr. unfold then_to. destruct (ref_of res) as [e|].
  - exists [if arr then OToArr e else OToObj e]. reflexivity.
  - exists []. reflexivity.
Qed.
Theorem add_typed_is_run : forall w r arr, exists ops, fst (add_typed w r arr) = run w ops.
Proof.
  intros w r arr. unfold add_typed. destruct (step w (OAddNew r)) as [w1 res] eqn:E.
  destruct (then_to_is_run w1 res arr) as (ops & H). exists (OAddNew r :: ops).
  cbn [run]. rewrite E. exact H.
Qed.
Theorem nest_typed_is_run : forall w r k arr, exists ops, fst (nest_typed w r k arr) = run w ops.
Proof.
  intros w r k arr. unfold nest_typed. destruct (step w (OMakeMember r k)) as [w1 res] eqn:E.
  destruct (then_to_is_run w1 res arr) as (ops & H). exists (OMakeMember r k :: ops).
  cbn [run]. rewrite E. exact H.
Qed.
Theorem doc_move_is_run : forall w d s, fst (doc_move w d s) = run w [ODocCopy d s; ODocClear s].
Proof. reflexivity. Qed.
Corollary add_typed_wfw : forall w r arr, wfw w -> wfw (fst (add_typed w r arr)).
Proof. intros w r arr W. destruct (add_typed_is_run w r arr) as (ops & ->). now apply run_wfw. Qed.
Corollary nest_typed_wfw : forall w r k arr, wfw w -> wfw (fst (nest_typed w r k arr)).
Proof. intros w r k arr W. destruct (nest_typed_is_run w r k arr) as (ops & ->). now apply run_wfw. Qed.
Corollary doc_move_wfw : forall w d s, wfw w -> wfw (fst (doc_move w d s)).
Proof. intros w d s W. rewrite doc_move_is_run. now apply run_wfw. Qed.

Lemma get_or_add_level_is_run : forall w r p, exists ops, fst (get_or_add_level w r p) = run w ops.
Proof.
  intros w r p. unfold get_or_add_level. destruct (get_level w r p) as [e|].
  - exists []. reflexivity.
  - exists [create_op r p]. reflexivity.
Qed.
Theorem proxy_assign_is_run : forall w r1 p1 r2 p2, exists ops, fst (proxy_assign w r1 p1 r2 p2) = run w ops.
Proof.
  intros w r1 p1 r2 p2. unfold proxy_assign.
  destruct (get_or_add_level_is_run w r1 p1) as (ops & H).
  destruct (get_or_add_level w r1 p1) as [w1 dst]. cbn [fst] in H. subst w1.
  destruct dst as [d|].
  - destruct (get_level (run w ops) r2 p2) as [s|].
    + exists (ops ++ [OAssign d s]). rewrite run_app. reflexivity.
    + exists (ops ++ [OSet d SNull]). rewrite run_app. reflexivity.
  - exists ops. reflexivity.
Qed.
Corollary proxy_assign_wfw : forall w r1 p1 r2 p2, wfw w -> wfw (fst (proxy_assign w r1 p1 r2 p2)).
Proof. intros w r1 p1 r2 p2 W. destruct (proxy_assign_is_run w r1 p1 r2 p2) as (ops & ->). now apply run_wfw. Qed.
