(* MsgPackSpec.v — the MessagePack wire format as a relation (definitions only).
   Written from the MessagePack specification (github.com/msgpack/msgpack/blob/master/spec.md), not
   from the reader: every format family and EVERY legal width is a constructor, whether or not the
   library's own serializer ever produces it (non-minimal integers, str 8 for a short string, ...).

     MpEnc v b        the byte string [b] is an encoding of the MessagePack object [v]
     mp_den ud v      the document the library is expected to build from [v]
     mp_limits v      the sizes the library can allocate (StringNode::maxLength)
     mpv_depth v      container nesting

   [mpv] is MessagePack's own data model.  Two format choices are observable through the library
   and are therefore part of the tree: a float keeps its width (float 32 / float 64), and bin/ext
   objects are kept as the raw bytes of their encoding (the library stores them verbatim as a
   "raw" value: header, size field, type byte, payload). *)
From Coq Require Import ZArith NArith Bool List.
From Coq Require Import Floats.SpecFloat.
From AJ Require Import Model.Base Model.FloatModel Model.Value.
Import ListNotations.
Local Open Scope Z_scope.

(* ------------------------------------------------------------------------------------- *)
(* objects *)

Inductive mpv :=
| MNil
| MBool (b : bool)
| MInt (z : Z)                       (* any integer the format can carry: -2^63 <= z < 2^64 *)
| MF32 (bits : Z)                    (* IEEE 754 binary32, as its 32-bit pattern *)
| MF64 (bits : Z)                    (* IEEE 754 binary64, as its 64-bit pattern *)
| MStr (s : bytes)
| MBin (raw : bytes)                 (* the whole encoding: code, size field, payload *)
| MExt (raw : bytes)                 (* the whole encoding: code, size field, type, payload *)
| MArr (l : list mpv)
| MMap (l : list (bytes * mpv)).     (* members in order; keys are strings; duplicates allowed *)

Fixpoint mpv_depth (v : mpv) : nat :=
  match v with
  | MArr l => S (fold_right (fun x m => Nat.max (mpv_depth x) m) 0%nat l)
  | MMap l => S (fold_right (fun kv m => Nat.max (mpv_depth (snd kv)) m) 0%nat l)
  | _ => 0%nat
  end.

(* what the library builds: integers whatever their width on the wire; float 32 as a float;
   float 64 through VariantData::setFloat(double) (narrowed when doubles are disabled or when the
   value is exactly a float); bin/ext verbatim; maps keep every member, in order, unmerged *)
Fixpoint mp_den (ud : bool) (v : mpv) : jv :=
  match v with
  | MNil => JNull
  | MBool b => JBool b
  | MInt z => JInt z
  | MF32 bits => JFloat (sf_of_bits F32 bits)
  | MF64 bits => jv_of_double ud (sf_of_bits F64 bits)
  | MStr s => JStr s
  | MBin raw => JRaw raw
  | MExt raw => JRaw raw
  | MArr l => JArr (map (mp_den ud) l)
  | MMap l => JObj (map (fun kv => (fst kv, mp_den ud (snd kv))) l)
  end.

(* ------------------------------------------------------------------------------------- *)
(* big-endian fields *)

Definition octets (l : bytes) : Prop := Forall (fun b => (b < 256)%N) l.

(* the number written by a string of octets, most significant first *)
Fixpoint be_num (l : bytes) : Z :=
  match l with
  | [] => 0
  | b :: t => Z.of_N b * 256 ^ Z.of_nat (length t) + be_num t
  end.

(* [l] is the [w]-octet big-endian field holding [n] *)
Definition is_be (w : nat) (n : Z) (l : bytes) : Prop :=
  length l = w /\ octets l /\ be_num l = n.

(* two's complement on [w] octets *)
Definition fits_signed (w : nat) (z : Z) : Prop :=
  - 2 ^ (8 * Z.of_nat w - 1) <= z < 2 ^ (8 * Z.of_nat w - 1).
Definition twos (w : nat) (z : Z) : Z := if z <? 0 then 2 ^ (8 * Z.of_nat w) + z else z.

(* ------------------------------------------------------------------------------------- *)
(* headers announcing a length or a count [n] *)

(* str: fixstr 101xxxxx, str 8 / 16 / 32 *)
Inductive StrHdr : Z -> bytes -> Prop :=
| SH_fix : forall n, 0 <= n <= 31 -> StrHdr n [Z.to_N (0xA0 + n)]
| SH_8   : forall n l, is_be 1 n l -> StrHdr n (0xD9%N :: l)
| SH_16  : forall n l, is_be 2 n l -> StrHdr n (0xDA%N :: l)
| SH_32  : forall n l, is_be 4 n l -> StrHdr n (0xDB%N :: l).

(* bin 8 / 16 / 32 *)
Inductive BinHdr : Z -> bytes -> Prop :=
| BH_8   : forall n l, is_be 1 n l -> BinHdr n (0xC4%N :: l)
| BH_16  : forall n l, is_be 2 n l -> BinHdr n (0xC5%N :: l)
| BH_32  : forall n l, is_be 4 n l -> BinHdr n (0xC6%N :: l).

(* ext: fixext 1 / 2 / 4 / 8 / 16, ext 8 / 16 / 32; [n] is the payload length, the type octet
   follows the header *)
Inductive ExtHdr : Z -> bytes -> Prop :=
| XH_fix1  : ExtHdr 1 [0xD4%N]
| XH_fix2  : ExtHdr 2 [0xD5%N]
| XH_fix4  : ExtHdr 4 [0xD6%N]
| XH_fix8  : ExtHdr 8 [0xD7%N]
| XH_fix16 : ExtHdr 16 [0xD8%N]
| XH_8   : forall n l, is_be 1 n l -> ExtHdr n (0xC7%N :: l)
| XH_16  : forall n l, is_be 2 n l -> ExtHdr n (0xC8%N :: l)
| XH_32  : forall n l, is_be 4 n l -> ExtHdr n (0xC9%N :: l).

(* array: fixarray 1001xxxx, array 16 / 32 *)
Inductive ArrHdr : Z -> bytes -> Prop :=
| AH_fix : forall n, 0 <= n <= 15 -> ArrHdr n [Z.to_N (0x90 + n)]
| AH_16  : forall n l, is_be 2 n l -> ArrHdr n (0xDC%N :: l)
| AH_32  : forall n l, is_be 4 n l -> ArrHdr n (0xDD%N :: l).

(* map: fixmap 1000xxxx, map 16 / 32 *)
Inductive MapHdr : Z -> bytes -> Prop :=
| MH_fix : forall n, 0 <= n <= 15 -> MapHdr n [Z.to_N (0x80 + n)]
| MH_16  : forall n l, is_be 2 n l -> MapHdr n (0xDE%N :: l)
| MH_32  : forall n l, is_be 4 n l -> MapHdr n (0xDF%N :: l).

(* ------------------------------------------------------------------------------------- *)
(* the format *)

Inductive MpEnc : mpv -> bytes -> Prop :=
| E_nil   : MpEnc MNil [0xC0%N]
| E_false : MpEnc (MBool false) [0xC2%N]
| E_true  : MpEnc (MBool true) [0xC3%N]
  (* integers: any family wide enough may be used *)
| E_posfix : forall z, 0 <= z <= 127 -> MpEnc (MInt z) [Z.to_N z]               (* 0xxxxxxx *)
| E_negfix : forall z, -32 <= z <= -1 -> MpEnc (MInt z) [Z.to_N (256 + z)]      (* 111xxxxx *)
| E_uint8  : forall z l, is_be 1 z l -> MpEnc (MInt z) (0xCC%N :: l)
| E_uint16 : forall z l, is_be 2 z l -> MpEnc (MInt z) (0xCD%N :: l)
| E_uint32 : forall z l, is_be 4 z l -> MpEnc (MInt z) (0xCE%N :: l)
| E_uint64 : forall z l, is_be 8 z l -> MpEnc (MInt z) (0xCF%N :: l)
| E_int8   : forall z l, fits_signed 1 z -> is_be 1 (twos 1 z) l -> MpEnc (MInt z) (0xD0%N :: l)
| E_int16  : forall z l, fits_signed 2 z -> is_be 2 (twos 2 z) l -> MpEnc (MInt z) (0xD1%N :: l)
| E_int32  : forall z l, fits_signed 4 z -> is_be 4 (twos 4 z) l -> MpEnc (MInt z) (0xD2%N :: l)
| E_int64  : forall z l, fits_signed 8 z -> is_be 8 (twos 8 z) l -> MpEnc (MInt z) (0xD3%N :: l)
  (* floats *)
| E_float32 : forall bits l, is_be 4 bits l -> MpEnc (MF32 bits) (0xCA%N :: l)
| E_float64 : forall bits l, is_be 8 bits l -> MpEnc (MF64 bits) (0xCB%N :: l)
  (* byte strings *)
| E_str : forall s h, StrHdr (Z.of_nat (length s)) h -> MpEnc (MStr s) (h ++ s)
| E_bin : forall p h, BinHdr (Z.of_nat (length p)) h -> MpEnc (MBin (h ++ p)) (h ++ p)
| E_ext : forall ty p h, ExtHdr (Z.of_nat (length p)) h ->
                         MpEnc (MExt (h ++ ty :: p)) (h ++ ty :: p)
  (* containers: the header announces the number of elements / of key-value pairs *)
| E_arr : forall l bs h, ArrHdr (Z.of_nat (length l)) h -> MpEncs l bs -> MpEnc (MArr l) (h ++ bs)
| E_map : forall l bs h, MapHdr (Z.of_nat (length l)) h -> MpMembers l bs -> MpEnc (MMap l) (h ++ bs)
with MpEncs : list mpv -> bytes -> Prop :=
| Es_nil  : MpEncs [] []
| Es_cons : forall v b l bs, MpEnc v b -> MpEncs l bs -> MpEncs (v :: l) (b ++ bs)
with MpMembers : list (bytes * mpv) -> bytes -> Prop :=
| Em_nil  : MpMembers [] []
| Em_cons : forall key hk v b l bs,
    StrHdr (Z.of_nat (length key)) hk ->        (* the key is a str object, of any width *)
    MpEnc v b -> MpMembers l bs ->
    MpMembers ((key, v) :: l) ((hk ++ key) ++ b ++ bs).

Scheme MpEnc_mind := Induction for MpEnc Sort Prop
  with MpEncs_mind := Induction for MpEncs Sort Prop
  with MpMembers_mind := Induction for MpMembers Sort Prop.

(* ------------------------------------------------------------------------------------- *)
(* what the library can hold: a string node stores at most 65535 bytes; a raw (bin/ext) value is
   stored whole (code + size field + type + payload) in one string node *)

Definition mp_max_alloc : Z := 65535.

Fixpoint mp_limits (v : mpv) : Prop :=
  match v with
  | MStr s => Z.of_nat (length s) <= mp_max_alloc
  | MBin raw | MExt raw => Z.of_nat (length raw) <= mp_max_alloc
  | MArr l => Z.of_nat (length l) < 2 ^ 32 /\ fold_right (fun x P => mp_limits x /\ P) True l
  | MMap l => Z.of_nat (length l) < 2 ^ 32 /\
              fold_right (fun kv P => (Z.of_nat (length (fst kv)) <= mp_max_alloc /\
                                       mp_limits (snd kv)) /\ P) True l
  | _ => True
  end.
