(* Dialect.v — the JSON dialect read by deserializeJson, as relations between a text and the value
   it denotes (definitions only).  It is RFC 8259 (Spec/Rfc8259.v) plus the extensions the
   library offers, each one a separate constructor:

     comments            only when ARDUINOJSON_ENABLE_COMMENTS           (dws_block, dws_line)
     single quotes       'abc' as well as "abc"                            (dstring)
     unquoted keys       {abc:1}                                           (dkey)
     lenient numbers     any token of number characters that parseNumber does not reject;
                         NaN / Infinity spellings only when enabled        (dnumber)

   and the tolerances of parseQuotedString that are NOT in the documentation (they are what the
   code does; DialectSound.v proves that nothing else is accepted):
     - any byte except the closing quote, backslash and NUL is taken verbatim: raw control
       characters, the other quote character, bytes >= 0x80 without UTF-8 validation
       (NUL is the end-of-input marker of the reader, so it never occurs inside a text);
     - the escape \' in addition to the eight escapes of the RFC;
     - ill-formed surrogate escapes: a high surrogate \uD800..\uDBFF emits nothing and is
       remembered; a low surrogate \uDC00..\uDFFF is combined with the most recent high surrogate
       of the same string, adjacent or not (with U+D800 when there was none);
     - without ARDUINOJSON_DECODE_UNICODE the two characters \u are copied verbatim.
   and the one limit of the reader that does not depend on the allocator: a string or key
   denotes at most 65535 bytes (StringNode::maxLength; [string_fits] of Spec/Rfc8259.v) — a longer one
   is read to its end and refused with NoMemory.

   Nothing here refers to the parsing routines: only the character classes
   (can_be_in_number, can_be_in_non_quoted_string, is_space), parse_number / jv_of_number for the
   number leaf (its accuracy is the subject of C12) and the UTF-8 specification are reused. *)
From Coq Require Import NArith ZArith List Bool.
From AJ Require Import Model.Base Model.Value Model.NumParse Model.JsonParse.
From AJ Require Import Spec.Utf8Spec Spec.Rfc8259.
Local Open Scope N_scope.

(* the text contains no comment terminator *)
Definition no_close (b : bytes) : Prop := forall p q, b <> p ++ 42 :: 47 :: q.

(* the nine two-character escapes of EscapeSequence.hpp: the eight of the RFC and \' *)
Definition dialect_escapes : list (N * N) :=
  [(34, 34); (92, 92); (47, 47); (98, 8); (102, 12); (110, 10); (114, 13); (116, 9); (39, 39)].

Section Dialect.
  Variable cf : cfg.

  (* ---- insignificant bytes -------------------------------------------------------------- *)
  (* A block comment ends at the first "*/" after its opening "/*".  A line comment runs up to
     and including the next LF; the end of input does NOT end it (IncompleteInput). *)
  Inductive dws : bytes -> Prop :=
  | dws_nil : dws []
  | dws_space : forall c w, is_space c = true -> dws w -> dws (c :: w)
  | dws_block : forall b w,
      enable_comments cf = true ->
      Forall (fun c => c <> 0) b -> no_close b -> dws w ->
      dws ([47; 42] ++ b ++ [42; 47] ++ w)
  | dws_line : forall b w,
      enable_comments cf = true ->
      Forall (fun c => c <> 0 /\ c <> 10) b -> dws w ->
      dws ([47; 47] ++ b ++ [10] ++ w).

  (* ---- strings -------------------------------------------------------------------------- *)
  (* [dchars q hi body out]: the characters between the quotes [q] denote the bytes [out];
     [hi] = low ten bits of the most recent high-surrogate escape of this string (0 at the start).
     A well-formed pair \uHHHH\uLLLL is dc_u_high followed by dc_u_low and denotes
     utf8 (pair_codepoint h l), as in Spec/Rfc8259.v. *)
  Inductive dchars (q : N) : N -> bytes -> bytes -> Prop :=
  | dc_nil : forall hi, dchars q hi [] []
  | dc_plain : forall hi c t o,                     (* any byte but the quote, backslash, NUL *)
      c <> q -> c <> 0 -> c <> 92 -> dchars q hi t o -> dchars q hi (c :: t) (c :: o)
  | dc_esc : forall hi e c t o,                     (* two-character escape *)
      In (e, c) dialect_escapes -> dchars q hi t o -> dchars q hi (92 :: e :: t) (c :: o)
  | dc_u_raw : forall hi t o,                       (* \u when escapes are not decoded *)
      decode_unicode cf = false -> dchars q hi t o ->
      dchars q hi (92 :: 117 :: t) (92 :: 117 :: o)
  | dc_u_scalar : forall hi tu u t o,               (* \uXXXX, not a surrogate *)
      decode_unicode cf = true -> uescape tu u -> is_surrogate u = false ->
      dchars q hi t o -> dchars q hi (tu ++ t) (utf8_encode u ++ o)
  | dc_u_high : forall hi tu h t o,                 (* high surrogate: remembered, emits nothing *)
      decode_unicode cf = true -> uescape tu h -> 0xD800 <= h < 0xDC00 ->
      dchars q (h - 0xD800) t o -> dchars q hi (tu ++ t) o
  | dc_u_low : forall hi tu l t o,                  (* low surrogate: paired with the last high *)
      decode_unicode cf = true -> uescape tu l -> 0xDC00 <= l < 0xE000 ->
      dchars q hi t o ->
      dchars q hi (tu ++ t) (utf8_encode (pair_codepoint (0xD800 + hi) l) ++ o).

  Definition dstring (t : bytes) (s : bytes) : Prop :=
    exists q body, (q = 34 \/ q = 39) /\ t = [q] ++ body ++ [q] /\ dchars q 0 body s /\ string_fits s.

  (* ---- object keys ---------------------------------------------------------------------- *)
  (* canBeInNonQuotedString (JsonDeserializer.hpp): '0'..'9', '_'..'z' (this range contains the
     backquote), 'A'..'Z'.  An unquoted key denotes its own bytes. *)
  Definition dkey (t : bytes) (s : bytes) : Prop :=
    dstring t s \/
    (t <> [] /\ Forall (fun c => can_be_in_non_quoted_string c = true) t /\ s = t /\ string_fits s).

  (* ---- numbers -------------------------------------------------------------------------- *)
  (* A token of 1..63 number characters (canBeInNumber: digits + - . and e E, or every letter
     when NaN or Infinity are enabled) that parseNumber accepts.  A token cannot start with
     t, f or n: those bytes select true / false / null. *)
  Definition dnumber (t : bytes) (v : jv) : Prop :=
    t <> [] /\ (length t <= 63)%nat /\
    Forall (fun c => can_be_in_number cf c = true) t /\
    hd 0 t <> 116 /\ hd 0 t <> 102 /\ hd 0 t <> 110 /\
    jv_of_number cf (parse_number cf t) = Some v.

  (* token boundary: the token is the longest run of number characters, cut at 63 *)
  Definition number_boundary (t rest : bytes) : Prop :=
    length t = 63%nat \/
    match rest with [] => True | c :: _ => can_be_in_number cf c = false end.

  (* ---- values, indexed by a bound on the nesting depth of the text ----------------------- *)
  Inductive dvalue : nat -> bytes -> jv -> Prop :=
  | dv_null : forall d, dvalue d [110; 117; 108; 108] JNull
  | dv_true : forall d, dvalue d [116; 114; 117; 101] (JBool true)
  | dv_false : forall d, dvalue d [102; 97; 108; 115; 101] (JBool false)
  | dv_num : forall d t v, dnumber t v -> dvalue d t v
  | dv_str : forall d t s, dstring t s -> dvalue d t (JStr s)
  | dv_arr_empty : forall d w, dws w -> dvalue (S d) ([91] ++ w ++ [93]) (JArr [])
  | dv_arr : forall d t vs, delements d t vs -> dvalue (S d) ([91] ++ t ++ [93]) (JArr vs)
  | dv_obj_empty : forall d w, dws w -> dvalue (S d) ([123] ++ w ++ [125]) (JObj [])
  | dv_obj : forall d t ms, dmembers d t ms ->
      dvalue (S d) ([123] ++ t ++ [125])
             (JObj (fold_left (fun acc m => assoc_set (fst m) (snd m) acc) ms []))
  (* no trailing comma: a comma is always followed by another element / member *)
  with delements : nat -> bytes -> list jv -> Prop :=
  | de_one : forall d w1 t v w2, dws w1 -> dvalue d t v -> dws w2 -> delements d (w1 ++ t ++ w2) [v]
  | de_cons : forall d w1 t v w2 r vs,
      dws w1 -> dvalue d t v -> dws w2 -> delements d r vs ->
      delements d (w1 ++ t ++ w2 ++ [44] ++ r) (v :: vs)
  (* a repeated key keeps its first position and takes the last value (assoc_set) *)
  with dmembers : nat -> bytes -> list (bytes * jv) -> Prop :=
  | dm_one : forall d w1 kt k w2 w3 t v w4,
      dws w1 -> dkey kt k -> dws w2 -> dws w3 -> dvalue d t v -> dws w4 ->
      dmembers d (w1 ++ kt ++ w2 ++ [58] ++ w3 ++ t ++ w4) [(k, v)]
  | dm_cons : forall d w1 kt k w2 w3 t v w4 r ms,
      dws w1 -> dkey kt k -> dws w2 -> dws w3 -> dvalue d t v -> dws w4 -> dmembers d r ms ->
      dmembers d (w1 ++ kt ++ w2 ++ [58] ++ w3 ++ t ++ w4 ++ [44] ++ r) ((k, v) :: ms).

  (* a text: insignificant bytes, then one value nested at most L deep.  What follows the value
     is not part of the text (deserializeJson stops after the first value) ... *)
  Definition dtext (L : nat) (t : bytes) (v : jv) : Prop :=
    exists w tv d, t = w ++ tv /\ dws w /\ (d <= L)%nat /\ dvalue d tv v.

  (* ... except after a top-level number, which must be followed by the end of input (end of the
     buffer or NUL) or a whitespace byte *)
  Definition dtrailing (v : jv) (rest : bytes) : Prop :=
    is_number v = true ->
    match rest with [] => True | c :: _ => c = 0 \/ is_space c = true end.
End Dialect.

Scheme dvalue_min := Minimality for dvalue Sort Prop
  with delements_min := Minimality for delements Sort Prop
  with dmembers_min := Minimality for dmembers Sort Prop.
Combined Scheme dvalue_mutind from dvalue_min, delements_min, dmembers_min.
