(* Utf8Spec.v — UTF-8 as the Unicode standard defines it (table 3-6), written independently
   of the code. *)
From Coq Require Import NArith List.
From AJ Require Import Model.Base.
Local Open Scope N_scope.

Definition utf8_encode (cp : N) : bytes :=
  if cp <? 0x80 then [cp]
  else if cp <? 0x800 then [0xC0 + cp / 64; 0x80 + cp mod 64]
  else if cp <? 0x10000 then [0xE0 + cp / 4096; 0x80 + (cp / 64) mod 64; 0x80 + cp mod 64]
  else [0xF0 + cp / 262144; 0x80 + (cp / 4096) mod 64; 0x80 + (cp / 64) mod 64; 0x80 + cp mod 64].

Definition is_surrogate (u : N) : bool := (0xD800 <=? u) && (u <? 0xE000).

(* UTF-16 decoding of a surrogate pair *)
Definition pair_codepoint (h l : N) : N := 0x10000 + (h - 0xD800) * 1024 + (l - 0xDC00).

(* the value of one hex digit, in either case; None if not a hex digit *)
Definition hex_value (c : N) : option N :=
  if (48 <=? c) && (c <=? 57) then Some (c - 48)
  else if (65 <=? c) && (c <=? 70) then Some (c - 55)
  else if (97 <=? c) && (c <=? 102) then Some (c - 87)
  else None.
