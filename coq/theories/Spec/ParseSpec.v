(* ParseSpec.v — vocabulary used by the theorems about the JSON reader (definitions only). *)
From Coq Require Import NArith ZArith List Bool.
From AJ Require Import Model.Base Model.Value Model.NumParse Model.JsonParse Proofs.Lex.
Local Open Scope N_scope.

(* what a number literal of at most 63 characters denotes: whatever parseNumber computes for it
   (C12's theorems are about parse_number itself) *)
Definition num_den (cf : cfg) (t : bytes) (v : jv) : Prop :=
  (length t <= 63)%nat /\ jv_of_number cf (parse_number cf t) = Some v.

(* the latch holds the end-of-input marker: the end was met exactly once, nothing read after it *)
Definition at_end (s : ps) : Prop := ended s = true /\ cur s = Some 0 /\ fault s = false.

(* a state in which parsing may continue: either the end has not been met, or it is latched *)
Definition alive (s : ps) : Prop := good s \/ at_end s.

(* state reached after consuming a text that was followed by [rest] *)
Definition post (s' : ps) (rest : bytes) : Prop :=
  (good s' /\ stream s' = rest) \/
  (at_end s' /\ (rest = [] \/ exists r, rest = 0 :: r)).

(* bytes that may follow a value inside a container or at top level without being swallowed by
   the number scanner *)
Definition delimiter (cf : cfg) (rest : bytes) : Prop :=
  match rest with
  | [] => True
  | c :: _ => can_be_in_number cf c = false
  end.

(* total bytes the reader has handed out plus those it still holds: never changes *)
Definition budget (s : ps) : N := reads s + N.of_nat (length (rest s)).

Definition is_container_or_string (v : jv) : bool :=
  match v with JArr _ | JObj _ | JStr _ => true | _ => false end.
