(* FilterSpec.v — the projection of a value onto a filter document, written from the text of C11:
   `true` keeps a value entirely; an object filter keeps the members it lists with a true-ish entry ("*"
   standing for any key it does not list) and filters them recursively; an array filter applies its first
   element to every element; a null/false (not true-ish) entry removes the member or element; a kept value
   whose kind the filter does not admit becomes null. *)
From Coq Require Import ZArith NArith Bool List.
From AJ Require Import Model.Base Model.FloatModel Model.Value.

Definition star_key : bytes := [42%N].

(* the entry of an object filter that applies to key k: the listed one, else "*", else none *)
Definition entry_for (fl : list (bytes * jv)) (k : bytes) : option jv :=
  match assoc_get k fl with
  | Some e => Some e
  | None => assoc_get star_key fl
  end.

Fixpoint project (f v : jv) {struct v} : jv :=
  if equals_true f then v
  else
    match v with
    | JObj members =>
        match f with
        | JObj fl =>
            JObj ((fix go (ms : list (bytes * jv)) : list (bytes * jv) :=
                     match ms with
                     | [] => []
                     | (k, x) :: ms' =>
                         match entry_for fl k with
                         | Some e => if truthy e then (k, project e x) :: go ms' else go ms'
                         | None => go ms'
                         end
                     end) members)
        | _ => JNull
        end
    | JArr elems =>
        match f with
        | JArr (e :: _) => if truthy e then JArr (map (project e) elems) else JArr []
        | JArr [] => JArr []
        | _ => JNull
        end
    | _ => JNull
    end.
