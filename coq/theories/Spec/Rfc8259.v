(* Rfc8259.v — the JSON grammar of RFC 8259 as an inductive relation between a text and the
   value it denotes, with every free choice of the grammar left open (whitespace at the six
   structural positions, any escape spelling of a character, any number spelling).
   Written from the RFC, independently of the parser.

   One restriction (RFC 8259 section 9 allows an implementation to limit the length of
   strings): these are the RFC 8259 texts whose strings and keys decode to at most 65535
   bytes — the library's StringNode::maxLength ([string_fits], a conjunct of [jstring]).

   text : bytes (UTF-8 encoded, as RFC 8259 section 8.1 requires)
   value: Model.Value.jv, where
     - a string denotes the UTF-8 bytes of its decoded code points,
     - a number literal denotes [num_den lit] — exact integers are pinned here, the floating
       point clause is the accuracy relation of C12 (Spec/NumSpec.v) and is a parameter,
     - an object keeps for a repeated key its first position and its last value. *)
From Coq Require Import NArith ZArith List Bool.
From AJ Require Import Model.Base Model.Value Spec.Utf8Spec.
Local Open Scope N_scope.

Definition is_ws (c : N) : bool := (c =? 32) || (c =? 9) || (c =? 10) || (c =? 13).

Inductive ws : bytes -> Prop :=
| ws_nil : ws []
| ws_cons : forall c w, is_ws c = true -> ws w -> ws (c :: w).

(* ---- strings ------------------------------------------------------------------------- *)
Definition is_hex_digit (c : N) : bool := match hex_value c with Some _ => true | None => false end.

(* \uXXXX with any case of the hex digits, denoting the code unit u *)
Inductive uescape : bytes -> N -> Prop :=
| uesc : forall d1 d2 d3 d4 v1 v2 v3 v4,
    hex_value d1 = Some v1 -> hex_value d2 = Some v2 -> hex_value d3 = Some v3 -> hex_value d4 = Some v4 ->
    uescape [92; 117; d1; d2; d3; d4] (((v1 * 16 + v2) * 16 + v3) * 16 + v4).

(* one character of a string: its text and the bytes it contributes *)
Inductive jchar : bytes -> bytes -> Prop :=
| ch_plain : forall c,                          (* unescaped = %x20-21 / %x23-5B / %x5D-10FFFF, as UTF-8 bytes *)
    c < 256 -> 0x20 <= c -> c <> 34 -> c <> 92 -> jchar [c] [c]
| ch_simple : forall e c,                       (* the eight two-character escapes *)
    In (e, c) [(34, 34); (92, 92); (47, 47); (98, 8); (102, 12); (110, 10); (114, 13); (116, 9)] ->
    jchar [92; e] [c]
| ch_bmp : forall t u,                          (* \uXXXX, a scalar of the BMP *)
    uescape t u -> is_surrogate u = false -> jchar t (utf8_encode u)
| ch_pair : forall t1 t2 h l,                   (* \uHHHH\uLLLL, a paired surrogate *)
    uescape t1 h -> uescape t2 l -> 0xD800 <= h < 0xDC00 -> 0xDC00 <= l < 0xE000 ->
    jchar (t1 ++ t2) (utf8_encode (pair_codepoint h l)).

Inductive jchars : bytes -> bytes -> Prop :=
| chs_nil : jchars [] []
| chs_cons : forall t1 b1 t2 b2, jchar t1 b1 -> jchars t2 b2 -> jchars (t1 ++ t2) (b1 ++ b2).

(* the length limit of a stored string: StringNode::maxLength with the default 2-byte length *)
Definition max_string_bytes : N := 65535.
Definition string_fits (s : bytes) : Prop := N.of_nat (length s) <= max_string_bytes.

Definition jstring (t : bytes) (s : bytes) : Prop :=
  exists body, t = [34] ++ body ++ [34] /\ jchars body s /\ string_fits s.

(* ---- numbers ------------------------------------------------------------------------- *)
Definition is_digit (c : N) : bool := (48 <=? c) && (c <=? 57).
Definition all_digits (l : bytes) : bool := forallb is_digit l.

(* int = zero / ( digit1-9 *DIGIT ) *)
Definition jint (l : bytes) : bool :=
  match l with
  | [48] => true
  | c :: r => (49 <=? c) && (c <=? 57) && all_digits r
  | [] => false
  end.

(* number = [ minus ] int [ frac ] [ exp ] *)
Inductive jnumber : bytes -> Prop :=
| jnum : forall (minus : bool) i (frac : option bytes) (ex : option (bytes * bytes)),
    jint i = true ->
    (forall f, frac = Some f -> f <> [] /\ all_digits f = true) ->
    (forall sg e, ex = Some (sg, e) -> (sg = [] \/ sg = [43] \/ sg = [45]) /\ e <> [] /\ all_digits e = true) ->
    forall (ec : N), (ec = 101 \/ ec = 69) ->
    jnumber ((if minus then [45] else []) ++ i ++
             (match frac with Some f => 46 :: f | None => [] end) ++
             (match ex with Some (sg, e) => ec :: sg ++ e | None => [] end)).

(* ---- values -------------------------------------------------------------------------- *)
Section Values.
  (* what a number literal denotes *)
  Variable num_den : bytes -> jv -> Prop.

  Inductive jvalue : bytes -> jv -> Prop :=
  | v_null : jvalue [110; 117; 108; 108] JNull
  | v_true : jvalue [116; 114; 117; 101] (JBool true)
  | v_false : jvalue [102; 97; 108; 115; 101] (JBool false)
  | v_num : forall t v, jnumber t -> num_den t v -> jvalue t v
  | v_str : forall t s, jstring t s -> jvalue t (JStr s)
  | v_arr_empty : forall w, ws w -> jvalue ([91] ++ w ++ [93]) (JArr [])
  | v_arr : forall t vs, jelements t vs -> jvalue ([91] ++ t ++ [93]) (JArr vs)
  | v_obj_empty : forall w, ws w -> jvalue ([123] ++ w ++ [125]) (JObj [])
  | v_obj : forall t ms, jmembers t ms -> jvalue ([123] ++ t ++ [125]) (JObj (fold_left (fun acc m => assoc_set (fst m) (snd m) acc) ms []))
  with jelements : bytes -> list jv -> Prop :=
  | e_one : forall w1 t v w2, ws w1 -> jvalue t v -> ws w2 -> jelements (w1 ++ t ++ w2) [v]
  | e_cons : forall w1 t v w2 r vs,
      ws w1 -> jvalue t v -> ws w2 -> jelements r vs -> jelements (w1 ++ t ++ w2 ++ [44] ++ r) (v :: vs)
  with jmembers : bytes -> list (bytes * jv) -> Prop :=
  | m_one : forall w1 kt k w2 w3 t v w4,
      ws w1 -> jstring kt k -> ws w2 -> ws w3 -> jvalue t v -> ws w4 ->
      jmembers (w1 ++ kt ++ w2 ++ [58] ++ w3 ++ t ++ w4) [(k, v)]
  | m_cons : forall w1 kt k w2 w3 t v w4 r ms,
      ws w1 -> jstring kt k -> ws w2 -> ws w3 -> jvalue t v -> ws w4 -> jmembers r ms ->
      jmembers (w1 ++ kt ++ w2 ++ [58] ++ w3 ++ t ++ w4 ++ [44] ++ r) ((k, v) :: ms).

  (* JSON-text = ws value ws *)
  Definition jtext (t : bytes) (v : jv) : Prop :=
    exists w1 tv w2, t = w1 ++ tv ++ w2 /\ ws w1 /\ jvalue tv v /\ ws w2.
End Values.

Scheme jvalue_ind3 := Induction for jvalue Sort Prop
  with jelements_ind3 := Induction for jelements Sort Prop
  with jmembers_ind3 := Induction for jmembers Sort Prop.
Combined Scheme jvalue_mutind from jvalue_ind3, jelements_ind3, jmembers_ind3.
