#!/usr/bin/env python3
"""prints the prompt for a seeded-change sub-agent: property text only, nothing from /verif"""
import json, sys
pid = sys.argv[1]; tag = sys.argv[2] if len(sys.argv) > 2 else pid
flavor = sys.argv[3] if len(sys.argv) > 3 else ""
for l in open('/verif/properties.jsonl'):
    p = json.loads(l)
    if p['id'] == pid:
        break
wt = f"/tmp/seedwork/{tag}"
print(f"""You are helping to evaluate a verification effort for the C++ library ArduinoJson (header-only JSON/MessagePack library, version 7.2 snapshot).

Your job: produce ONE realistic code change (a bug a maintainer could plausibly introduce during a refactoring, optimisation or feature tweak) that BREAKS the semantic property below, while the library still compiles and the ENTIRE existing test suite still passes. Then demonstrate it.

PROPERTY {p['id']}: {p['title']}
Statement: {p['statement']}
Quantified over: {p['quantifier']['text']}
Code it is anchored in: {', '.join(p['anchors']['files'])}

Workspace: create your own scratch git worktree with
    git -C /repo worktree add --detach {wt} HEAD
and work ONLY inside {wt} (never edit /repo itself, never look at or touch /verif — it is off limits). Build and run the test suite there:
    cd {wt} && cmake -G Ninja -B _build -DCMAKE_BUILD_TYPE=Debug >/dev/null && cmake --build _build 2>&1 | tail -3 && ctest --test-dir _build -j8 2>&1 | tail -5
(all tests must pass: "100% tests passed"). The library is header-only under {wt}/src.

Requirements for the change:
- It must need something SPECIFIC to manifest: an unusual input, a boundary value, a multi-step sequence of operations, a particular configuration macro, a fault at a particular point, or two cooperating sites that each look fine alone. Ordinary use (and therefore the existing tests) must not expose it. {flavor}
- It must be small (a few lines), look innocent, compile without warnings-as-errors problems, and keep `ctest` at 100% passed.
- It must genuinely violate the property statement above (not merely change unspecified behaviour).

Deliverables, all written under /tmp/seedwork/out/{tag}/ (create the directory; it is OUTSIDE the worktree on purpose):
1. patch.diff — output of `git -C {wt} diff` (only files under src/).
2. demo.cpp — a small standalone program (compile with `g++ -std=c++17 -I{wt}/src demo.cpp -o demo`) that exits 0 and prints PASS when the property holds on the demonstrated input, and exits 1 printing FAIL with the observed/expected values when it does not. It must print PASS against the unmodified sources (`-I/repo/src`) and FAIL against your modified worktree. Verify both yourself.
3. meta.json — {{"property": "{p['id']}", "summary": "...what was changed...", "needs": "...what is needed for it to manifest...", "files": [...], "ran": ["commands you ran and their outcome"]}}.

When finished, leave the worktree in place (with the patch applied) and reply with a short summary: what you changed, why the tests do not catch it, and the demo's output on both trees. Do not ask questions; make reasonable decisions yourself.""")
