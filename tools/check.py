#!/usr/bin/env python3
"""check.py <property> [--tier quick|thorough] [--replay file] — entry point of every check."""
import argparse, importlib, json, os, sys
sys.path.insert(0, os.path.dirname(os.path.abspath(__file__)))
import vlib

def main():
    ap = argparse.ArgumentParser()
    ap.add_argument("prop")
    ap.add_argument("--tier", default=os.environ.get("VERIF_TIER", "quick"))
    ap.add_argument("--replay")
    a = ap.parse_args()
    seed = int(os.environ.get("VERIF_SEED", "1"))
    mod = importlib.import_module("props." + a.prop)
    if a.replay:
        rp = json.load(open(a.replay))
        sys.exit(mod.replay(rp))
    run = vlib.Run(a.prop, a.tier, seed, getattr(mod, "LEVEL", "proof"))
    try:
        mod.check(run)
    except vlib.Broken as e:
        run.violation("check machinery could not build: " + str(e)[:300],
                      dict(kind="obligation", theorem="build", detail=str(e)[-3000:]))
    rc = run.finish()
    sys.exit(rc)

if __name__ == "__main__":
    main()
