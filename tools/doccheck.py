"""doccheck.py — shared pieces of the document-level checks (C02, C07, C08, C09)."""
import json, math, random
from fractions import Fraction
import vlib, gen_doc
from gen_doc import hx, dump, parse_dump

def gen_docs(rnd, n, **kw):
    g = gen_doc.DocGen(rnd, **kw)
    return [g.value() for _ in range(n)]

def json_value_matches(doc, pv, path="$"):
    """doc: document value (normalised dump vocabulary); pv: what Python's json made of the text.
    Integers digit-exact; floats within the C12 printing tolerance; strings byte-exact
    (surrogateescape); returns None or message."""
    if doc is None or doc is True or doc is False:
        return None if pv is doc else f"{path}: {pv!r} for {doc!r}"
    if isinstance(doc, list):
        if not isinstance(pv, list) or len(pv) != len(doc):
            return f"{path}: array shape"
        for i, (a, b) in enumerate(zip(doc, pv)):
            m = json_value_matches(a, b, f"{path}[{i}]")
            if m:
                return m
        return None
    t = doc[0]
    if t == "o":
        if not (isinstance(pv, tuple) and pv[0] == "o") or len(pv[1]) != len(doc[1]):
            return f"{path}: object shape"
        for (k, a), (k2, b) in zip(doc[1], pv[1]):
            if k2.encode("utf-8", "surrogateescape") != k:
                return f"{path}: key {k2!r} for {k!r}"
            m = json_value_matches(a, b, path + "." + k.decode("latin1"))
            if m:
                return m
        return None
    if t == "s":
        if not isinstance(pv, str) or pv.encode("utf-8", "surrogateescape") != doc[1]:
            return f"{path}: string {pv!r} for {doc[1]!r}"
        return None
    if t == "i":
        if not (isinstance(pv, Lit) and pv.isint and int(pv) == doc[1] and str(pv) == str(doc[1])):
            return f"{path}: integer printed as {pv!r}, expected {doc[1]}"
        return None
    if t in "FD":
        x = gen_doc.num_value(doc)
        if isinstance(x, float):      # NaN / inf -> null in the default configuration
            return None if pv is None else f"{path}: non-finite printed as {pv!r}"
        if not isinstance(pv, Lit):
            return f"{path}: {pv!r} for float"
        import gen_json
        lit = gen_json.lit_fraction(str(pv))
        tol = Fraction(1, 10 ** 6) if t == "F" else Fraction(1, 10 ** 9)
        ax = abs(x)
        if ax != 0 and not (Fraction(10) ** -300 <= ax <= Fraction(10) ** 300):
            return None     # outside the range C12 speaks about
        if abs(lit - x) > tol * max(1, ax):
            return f"{path}: {doc!r} printed as {pv}: error {float(abs(lit - x)):.3g}"
        return None
    return f"{path}: unhandled {doc!r}"

class Lit(str):
    isint = False

def _mkint(s):
    l = Lit(s); l.isint = True; return l
def _mkfloat(s):
    return Lit(s)

def py_json(text):
    """Python's json module as the independent RFC 8259 parser (strict=False: raw control characters are
    allowed because C17 requires serializeJson to leave them unchanged)"""
    def pairs(ps):
        return ("o", list(ps))
    return json.loads(text.decode("utf-8", "surrogateescape"), object_pairs_hook=pairs, parse_int=_mkint,
                      parse_float=_mkfloat, strict=False)

def has_raw(v):
    if isinstance(v, list):
        return any(has_raw(x) for x in v)
    if isinstance(v, tuple) and v[0] == "o":
        return any(has_raw(x) for _, x in v[1])
    return isinstance(v, tuple) and v[0] == "r"
