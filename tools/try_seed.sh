#!/bin/sh
# usage: try_seed.sh <patch.diff> <prop> [<prop>...] — run the quick checks against HEAD of /repo + a seeded change.
# The change is applied in a scratch worktree (the checks are pointed at it with VERIF_REPO, their evidence and replay
# files go to a scratch directory), which is the same as `git -C /repo apply` + checks + `git -C /repo checkout -- .`
# but cannot disturb checks that are running against /repo at the same time.
patch=$1; shift
wt=/tmp/seedwork/apply_$$
git -C /repo worktree add --detach $wt HEAD >/dev/null 2>&1 || exit 2
cd $wt || exit 2
git apply --check "$patch" || { echo "PATCH DOES NOT APPLY"; git -C /repo worktree remove --force $wt; exit 2; }
git apply "$patch"
for p in "$@"; do
  echo "=== $p"
  (cd /verif && VERIF_REPO=$wt VERIF_OUT=/tmp/seedwork/tryout timeout 3000 python3 tools/check.py $p --tier quick 2>&1 | grep -E "VIOLATION|KNOWN|^  " | head -8)
done
git -C /repo worktree remove --force $wt
