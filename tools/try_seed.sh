#!/bin/sh
# usage: try_seed.sh <patch.diff> <prop> [<prop>...] — apply a seeded change to /repo, run the quick checks, undo
patch=$1; shift
cd /repo || exit 2
git apply --check "$patch" || { echo "PATCH DOES NOT APPLY"; exit 2; }
git apply "$patch"
for p in "$@"; do
  echo "=== $p"
  (cd /verif && timeout 3000 python3 tools/check.py $p --tier quick 2>&1 | grep -E "VIOLATION|KNOWN|^  " | head -8; echo "exit=$?")
done
git -C /repo checkout -- . 
git -C /repo status --short | grep -v _build
