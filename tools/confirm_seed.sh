#!/bin/bash
# usage: confirm_seed.sh <tag> <prop>  — independent confirmation of a seeded change produced in /tmp/seedwork/<tag>:
# fresh worktree of /repo HEAD + patch => builds (-Werror), whole test suite passes, demo FAILs with the patch
# and PASSes without. On success archives it under /verif/seeded/<tag>/ and removes the scratch worktrees.
tag=$1; prop=$2
src=/tmp/seedwork/out/$tag
wt=/tmp/seedwork/confirm_$tag
out=/verif/seeded/$tag
log=/tmp/seedwork/confirm_$tag.log
exec > $log 2>&1
set -x
git -C /repo worktree remove --force $wt 2>/dev/null
git -C /repo worktree add --detach $wt HEAD || exit 1
cd $wt
git apply --check $src/patch.diff || { echo "RESULT patch-does-not-apply"; git -C /repo worktree remove --force $wt; exit 1; }
git apply $src/patch.diff
cmake -G Ninja -B _build -DCMAKE_BUILD_TYPE=Debug >/dev/null
cmake --build _build 2>&1 | grep -E "error|FAILED" | head -5
ctest --test-dir _build -j8 2>&1 | tail -12 > ctest_tail.txt
cat ctest_tail.txt
tests_ok=no; grep -q "100% tests passed" ctest_tail.txt && tests_ok=yes
extra=$(grep -o 'ARDUINOJSON_[A-Z_]*=[0-9]' $src/meta.json | sort -u | sed 's/^/-D/' | tr '\n' ' ')
defs=$(grep -o '^// *FLAGS:.*' $src/demo.cpp | sed 's/.*FLAGS://')
g++ -std=c++17 $defs -I/repo/src $src/demo.cpp -o demo_base && timeout 120 ./demo_base > base.out 2>&1; rb=$?
g++ -std=c++17 $defs -I$wt/src $src/demo.cpp -o demo_patched && timeout 120 ./demo_patched > patched.out 2>&1; rp=$?
echo "RESULT tests_ok=$tests_ok demo_base_exit=$rb demo_patched_exit=$rp"
if [ $tests_ok = yes ] && [ $rb = 0 ] && [ $rp != 0 ]; then
  mkdir -p $out
  cp $src/patch.diff $src/demo.cpp $out/
  python3 - <<PY
import json
m = json.load(open("$src/meta.json"))
m["property"] = "$prop"
m["confirmed"] = {"base_commit": "$(git -C /repo rev-parse --short HEAD)",
  "ran": ["git worktree add (HEAD) + git apply patch.diff", "cmake -G Ninja -B _build -DCMAKE_BUILD_TYPE=Debug && cmake --build _build (with -Werror): ok",
          "ctest -j8: 100% tests passed", "demo.cpp against /repo/src: exit 0 (PASS)", "demo.cpp against patched tree: exit $rp (FAIL)"],
  "demo_patched_output": open("patched.out").read()[:600]}
json.dump(m, open("$out/meta.json", "w"), indent=1)
PY
  echo "RESULT archived"
fi
cd /
git -C /repo worktree remove --force $wt
git -C /repo worktree remove --force /tmp/seedwork/$tag 2>/dev/null
