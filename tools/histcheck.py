"""histcheck.py — shared helpers for the API-history checks (C04 C05 C06 C14 C19)."""
last_unrelated = []
OPS = {}          # operation name -> how many times the generated histories of this run contain it (goes into the evidence)
HIST_LEN = {}     # history length (operations) -> count
import vlib

def gen_histories(model, seeds, nops, ndocs=2, profile=0, cfg="10001"):
    lines = [f"HGEN {s} {nops} {ndocs} {profile}" for s in seeds]
    out, crash = vlib.run_sharded(model, lines, None, 900, ["CFG " + cfg])
    if crash:
        raise vlib.Broken("model driver crashed while generating histories: " + crash[:300])
    for h in out:
        steps = [s for s in h.split(" ;; ") if " ## " in s]
        HIST_LEN[len(steps)] = HIST_LEN.get(len(steps), 0) + 1
        for st in steps:
            name = st.split(" ", 1)[0]
            OPS[name] = OPS.get(name, 0) + 1
    return out

def split_history(hist):
    steps = [s for s in hist.split(" ;; ") if " ## " in s]
    ops = [s.split(" ## ")[0] for s in steps]
    global last_unrelated
    last_unrelated = []
    for o in ops:
        toks = o.split(" ")
        u = [t[1:] for t in toks if t.startswith("%")]
        last_unrelated.append([x for x in (u[0].split(",") if u else []) if x])
    exp = [s.split(" ## ")[1] for s in steps]
    return ops, exp

def run_histories(impl, hists, ndocs=2, kind=0, fail="-", cfg="10001", timeout=900):
    lines = [f"HRUN {ndocs} {kind} {fail} {h}" for h in hists]
    return vlib.run_sharded(impl, lines, None, timeout, ["CFG " + cfg])

def parse_run(out):
    """-> (list of (visible, ov, calls_before, calls_after)), trailer string"""
    parts = out.split(" ;; ")
    steps, trailer = [], ""
    for p in parts:
        if " ~" in p:
            vis, meta = p.split(" ~", 1)
            f = meta.split("~")
            steps.append((vis, f[0], int(f[1]), int(f[2]), int(f[3]) if len(f) > 3 else -1))
        elif p.strip():
            trailer += p.strip() + " "
    return steps, trailer.strip()

def first_divergence(exp, steps):
    for i, (e, st) in enumerate(zip(exp, steps)):
        if e != st[0]:
            return i
    if len(steps) < len(exp):
        return len(steps)
    return None
