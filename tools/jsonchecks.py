"""jsonchecks.py — shared helpers of the reader-level checks (C03 C10 C11 C15 C16)."""
import random
import vlib, gen_json, gen_doc
from gen_json import hx

def dump_nesting(d):
    depth = best = 0
    for ch in d:
        if ch in "[{":
            depth += 1
            best = max(best, depth)
        elif ch in "]}":
            depth -= 1
    return best

def finish_standard(run, prop, ok, info, oracle_fail, all_mism, cfg_default="10001", harness="text_h"):
    """common tail: report oracle failures first (they are concrete failing inputs), then bare
    model/implementation disagreements, then broken proof obligations"""
    # a marker put by the harness means that two observers of the library disagree with each other on this very input
    # (size() vs iteration, JsonPair vs JsonPairConst, c_str() vs code() ...): a concrete failing input, not a bare disagreement
    for item in all_mism:
        cfg, (k, l, a, b) = item
        if any(m in b for m in ("!OBS:", "!TYPED:", "BadErrorObject", "!NESTED-DESTINATION-DIFFERS")) and not any(x[1] == l for x in oracle_fail):
            oracle_fail.append((cfg, l, "the library's observers agree with each other (size/nesting/lookup/iteration, typed references, error object; the same input read into a nested value of a long-lived document): " + a[:120], b))
    for item in oracle_fail[:5]:
        cfg, l, e, o = item
        run.violation(f"{prop} oracle (cfg {cfg}): {l[:140]}: expected {str(e)[:200]}; library: {o[:200]}",
                      dict(kind="input", cfg=cfg, harness_src=harness, lines=[l], expected=str(e), observed=o))
    if not oracle_fail:
        for item in all_mism[:5]:
            cfg, (k, l, a, b) = item
            run.violation(f"model/implementation disagree (cfg {cfg}) on {l[:120]}: model {a[:140]} impl {b[:140]}",
                          dict(kind="input", cfg=cfg, harness_src=harness, lines=[l], model=a, observed=b, failing_input=False,
                               note="correspondence broken; none of the property oracles failed on the explored inputs"))
    if not ok:
        for p in info["problems"]:
            if not oracle_fail:
                run.violation(p, dict(kind="obligation", theorem=f"Properties_{prop}: " + p[:300], failing_input=False,
                                      detail=info.get("log", "")[-1500:]))
            else:
                run.notes.append("also: " + p)

def valid_docs(rnd, n, **kw):
    g = gen_json.Gen(rnd, **kw)
    out = []
    while len(out) < n:
        t, text = g.document()
        if gen_json.depth(t) <= 10:
            out.append((t, text))
    return out
