#!/bin/sh
# usage: coqdbg.sh <file.v> <line>  — shows the goal just before <line> (replaces it by Show + abort)
f=$1; n=$2
head -n $((n-1)) "$f" > /tmp/_dbg.v
echo "Show. Abort All." >> /tmp/_dbg.v
cd /verif/coq && timeout 300 coqc -Q theories AJ /tmp/_dbg.v 2>&1 | tail -${3:-40}
