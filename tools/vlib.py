"""vlib.py — shared machinery of the checks: builds (Coq, extracted model, C++ harness from
/repo's working tree), correspondence runs, evidence, violations and known findings."""
import fcntl, hashlib, json, os, random, re, subprocess, sys, time

ROOT = os.path.dirname(os.path.dirname(os.path.abspath(__file__)))
REPO = os.environ.get("VERIF_REPO", "/repo")
# where evidence and replay files go (overridden when trying the checks on a seeded change)
_OUT = os.environ.get("VERIF_OUT")
OUT_EVID = os.path.join(_OUT or ROOT, "evidence")
OUT_REPLAYS = os.path.join(_OUT or ROOT, "replays")
COQ = os.path.join(ROOT, "coq")
BUILD = os.path.join(ROOT, "build")
GUARD = "BBLANCHON_ARDUINOJSON_VERIF"
NPROC = os.cpu_count() or 4

ALLOWED_AXIOMS = {
    # axioms declared by the Coq standard library itself; named in DESIGN.md §10
    "ClassicalDedekindReals.sig_forall_dec", "ClassicalDedekindReals.sig_not_dec",
    "FunctionalExtensionality.functional_extensionality_dep", "functional_extensionality_dep",
    "sig_forall_dec", "sig_not_dec", "Classical_Prop.classic", "classic",
    "Eqdep.Eq_rect_eq.eq_rect_eq", "eq_rect_eq", "JMeq_eq", "proof_irrelevance",
    "constructive_indefinite_description", "Raxioms",
}

def log(*a):
    print(*a, file=sys.stderr, flush=True)

def sh(cmd, timeout=3600, cwd=None, env=None, input=None):
    p = subprocess.run(cmd, shell=isinstance(cmd, str), cwd=cwd, env=env, input=input,
                       stdout=subprocess.PIPE, stderr=subprocess.STDOUT, timeout=timeout, text=True)
    return p.returncode, p.stdout

class Lock:
    def __init__(self, name="lock"):
        os.makedirs(BUILD, exist_ok=True)
        self.path = os.path.join(BUILD, "." + name)
    def __enter__(self):
        self.f = open(self.path, "w")
        fcntl.flock(self.f, fcntl.LOCK_EX)
        return self
    def __exit__(self, *a):
        fcntl.flock(self.f, fcntl.LOCK_UN)
        self.f.close()

def file_hash(paths):
    h = hashlib.sha256()
    for p in sorted(paths):
        h.update(p.encode())
        try:
            with open(p, "rb") as f:
                h.update(f.read())
        except OSError:
            h.update(b"<missing>")
    return h.hexdigest()

def tree_files(root, exts):
    out = []
    for d, _, fs in os.walk(root):
        if "/_build" in d or "/.git" in d:
            continue
        for f in fs:
            if f.endswith(exts):
                out.append(os.path.join(d, f))
    return out

_repo_hash = None
def repo_hash():
    """content hash of /repo's working tree sources (what every harness build depends on)"""
    global _repo_hash
    if _repo_hash is None:
        files = tree_files(os.path.join(REPO, "src"), (".hpp", ".h")) + \
                tree_files(os.path.join(REPO, "extras/tests/Helpers"), (".hpp", ".h", ".cpp"))
        _repo_hash = file_hash(files)
    return _repo_hash

# --------------------------------------------------------------------------------------------
# Coq

def coq_sources():
    return tree_files(os.path.join(COQ, "theories"), (".v",)) + [os.path.join(COQ, "_CoqProject")]

def run_translator():
    """tie T: regenerate coq/theories/Gen/*.v from /repo (written only if the content changed)"""
    import translate
    return translate.run(REPO, os.path.join(COQ, "theories", "Gen"), BUILD)

def build_coq(targets=None, timeout=3000):
    """make the Coq development (or the given .vo targets). Returns (ok, log)."""
    with Lock("coq"):
        ok_t, tlog = run_translator()
        if not ok_t:
            return False, "TRANSLATOR FAILED\n" + tlog
        mk = os.path.join(COQ, "Makefile")
        proj = os.path.join(COQ, "_CoqProject")
        if not os.path.exists(mk) or os.path.getmtime(mk) < os.path.getmtime(proj):
            rc, out = sh("coq_makefile -f _CoqProject -o Makefile", cwd=COQ)
            if rc != 0:
                return False, out
        tgt = " ".join(targets) if targets else ""
        rc, out = sh(f"timeout {timeout} make -k -j{NPROC} {tgt}", cwd=COQ, timeout=timeout + 60)
        return rc == 0, tlog + out

def check_props_file(prop):
    """(re)compile Props/Properties_<prop>.v on its own to obtain fresh Print Assumptions output.
    Returns dict(ok, theorems, axioms, log, cmd)."""
    rel = f"theories/Props/Properties_{prop}.v"
    path = os.path.join(COQ, rel)
    cmd = f"coqc -Q theories AJ {rel}"
    if not os.path.exists(path):
        return dict(ok=False, theorems=[], axioms=[], log="missing " + rel, cmd=cmd)
    src = open(path).read()
    theorems = re.findall(r"^\s*(?:Theorem|Corollary)\s+(\w+)", src, re.M)
    with Lock("coq"):
        rc, out = sh(f"timeout 1200 {cmd}", cwd=COQ, timeout=1300)
    axioms = set()
    # Print Assumptions output: either "Closed under the global context" or "Axioms:\n name : type"
    for blk in re.split(r"\n(?=Closed under|Axioms:|File |Warning:)", out):
        if blk.startswith("Axioms:"):
            for m in re.finditer(r"^([A-Za-z_][\w.']*)\s*:", blk, re.M):
                if m.group(1) != "Axioms":
                    axioms.add(m.group(1))
    n_closed = len(re.findall(r"Closed under the global context", out))
    n_ax = len(re.findall(r"^Axioms:", out, re.M))
    return dict(ok=(rc == 0), theorems=theorems, axioms=sorted(axioms), log=out, cmd=cmd,
                assumption_reports=n_closed + n_ax)

FORBIDDEN = re.compile(r"\b(Admitted|admit|Axiom|Axioms|Parameter|Parameters|Conjecture|Hypothesis|Variable)\b|Unset Guard|bypass_check|Admit Obligations|-type-in-type|impredicative-set")
def forbidden_scan():
    """no Admitted/admit/Axiom/Parameter/Conjecture, no kernel switches; Variable/Hypothesis only
    inside a Section"""
    bad = []
    for p in coq_sources():
        if not p.endswith(".v"):
            continue
        depth = 0
        txt = open(p).read()
        txt = re.sub(r"\(\*.*?\*\)", lambda m: " " * 0 + "\n" * m.group(0).count("\n"), txt, flags=re.S)
        for ln, line in enumerate(txt.split("\n"), 1):
            if re.match(r"\s*Section\s+\w+", line):
                depth += 1
            if re.match(r"\s*End\s+\w+", line) and depth > 0:
                depth -= 1
            for m in FORBIDDEN.finditer(line):
                w = m.group(0)
                if w in ("Variable", "Hypothesis") and depth > 0:
                    continue
                if w == "Axioms" or (w == "Variable" and "Variables" in line and depth > 0):
                    continue
                bad.append(f"{os.path.relpath(p, ROOT)}:{ln}: {w}")
    return bad

# --------------------------------------------------------------------------------------------
# extracted model

def build_model():
    """extract the model and build the OCaml driver; cached on the sources' content"""
    with Lock("model"):
        srcs = [p for p in coq_sources() if "/Model/" in p or "/Extract/" in p or "/Gen/" in p]
        srcs += tree_files(os.path.join(ROOT, "ocaml"), (".ml",))
        key = file_hash(srcs)[:16]
        outdir = os.path.join(BUILD, "model-" + key)
        exe = os.path.join(outdir, "model_driver")
        if os.path.exists(exe):
            return exe, ""
        # extraction reads the compiled .vo files: make sure they are those of the sources the key was computed from
        # (only the files the extraction depends on: a proof that no longer goes through must not stop the search for a
        # failing input with the model)
        need = sorted(os.path.relpath(p, COQ)[:-2] + ".vo" for p in coq_sources() if "/Model/" in p or "/Gen/" in p)
        okb, blog = build_coq(targets=need)
        if not okb:
            return None, "the model files do not compile:\n" + blog[-2000:]
        os.makedirs(outdir, exist_ok=True)
        rc, out = sh(f"timeout 600 coqc -Q {COQ}/theories AJ {COQ}/theories/Extract/Extract.v -o {outdir}/Extract.vo",
                     cwd=outdir, timeout=700)
        if rc != 0:
            return None, out
        sh(f"cp {ROOT}/ocaml/*.ml {outdir}/")
        mls = ["extra.ml", "util.ml"] + sorted(f for f in os.listdir(os.path.join(ROOT, "ocaml"))
                                    if f.endswith(".ml") and f not in ("extra.ml", "util.ml", "driver.ml")) + ["driver.ml"]
        rc, out2 = sh("ocamlfind ocamlopt -package str -linkpkg -O3 -w -a model.mli model.ml " + " ".join(mls) + " -o model_driver",
                      cwd=outdir, timeout=600)
        if rc != 0:
            return None, out + out2
        return exe, out + out2

# --------------------------------------------------------------------------------------------
# C++ harness, always from /repo's working tree

CFG_KEYS = ["ARDUINOJSON_DECODE_UNICODE", "ARDUINOJSON_ENABLE_COMMENTS", "ARDUINOJSON_ENABLE_NAN",
            "ARDUINOJSON_ENABLE_INFINITY", "ARDUINOJSON_USE_DOUBLE"]
def cfg_flags(cfgstr):
    """'10001' -> -D flags (decode_unicode comments nan inf use_double)"""
    return {k: int(c) for k, c in zip(CFG_KEYS, cfgstr)}

def build_harness(name, defines=None, sanitize="address,undefined", std="c++17", extra="", opt="-O1"):
    defines = dict(defines or {})
    defines.setdefault("ARDUINOJSON_DEBUG", 1)
    if os.environ.get("VERIF_COV"):      # tools/coverage.sh: which lines of /repo/src do the checks execute at all
        sanitize, opt, extra = "", "-O0 --coverage", extra + " -DVERIF_COVERAGE_BUILD"
    dflags = " ".join(f"-D{k}={v}" for k, v in sorted(defines.items()))
    src = os.path.join(ROOT, "harness", name + ".cpp")
    hdrs = tree_files(os.path.join(ROOT, "harness"), (".hpp",))
    key = hashlib.sha256((repo_hash() + file_hash([src] + hdrs) + dflags + sanitize + std + extra + opt).encode()).hexdigest()[:16]
    outdir = os.path.join(BUILD, "h-" + key)
    exe = os.path.join(outdir, name)
    with Lock("h-" + key):
        if os.path.exists(exe):
            return exe, ""
        os.makedirs(outdir, exist_ok=True)
        san = f"-fsanitize={sanitize} -fno-sanitize-recover=all" if sanitize else ""
        cmd = (f"g++ -std={std} {opt} -g {san} -ffp-contract=off -D{GUARD} {dflags} "
               f"-I{REPO}/src -I{REPO}/extras/tests/Helpers -I{ROOT}/harness {extra} {src} -o {exe}.tmp -lpthread")
        rc, out = sh(cmd, timeout=900)
        if rc != 0:
            return None, cmd + "\n" + out
        os.rename(exe + ".tmp", exe)
        return exe, out

def build_harnesses(specs):
    """build several harness configurations in parallel; specs = list of (name, defines, kwargs)"""
    from concurrent.futures import ThreadPoolExecutor
    with ThreadPoolExecutor(max_workers=min(len(specs), NPROC)) as ex:
        futs = [ex.submit(build_harness, n, d, **kw) for (n, d, kw) in specs]
        return [f.result() for f in futs]

def run_lines(exe, lines, timeout=600, env=None):
    """feed case lines to an executable; returns (output lines, crash text or None)"""
    e = dict(os.environ)
    e["ASAN_OPTIONS"] = "detect_leaks=1:abort_on_error=0:exitcode=99:detect_stack_use_after_return=0"
    e["UBSAN_OPTIONS"] = "print_stacktrace=1:halt_on_error=1:exitcode=98"
    if env:
        e.update(env)
    pre = None
    if os.path.basename(exe) == "model_driver":
        # the extracted model is not tail recursive: give it the whole stack for very large documents
        def pre():
            import resource
            soft, hard = resource.getrlimit(resource.RLIMIT_STACK)
            resource.setrlimit(resource.RLIMIT_STACK, (hard, hard))
    try:
        p = subprocess.run([exe], input="\n".join(lines) + "\n", stdout=subprocess.PIPE,
                           stderr=subprocess.PIPE, timeout=timeout, text=True, env=e, errors="replace", preexec_fn=pre)
    except subprocess.TimeoutExpired as ex:
        out = (ex.stdout or b"")
        out = out.decode(errors="replace") if isinstance(out, bytes) else out
        return out.split("\n")[:-1] if out else [], "TIMEOUT after %ds" % timeout
    out = p.stdout.split("\n")
    if out and out[-1] == "":
        out.pop()
    crash = None
    if p.returncode != 0:
        crash = f"exit {p.returncode}\n" + p.stderr[-4000:]
    return out, crash

def run_sharded(exe, lines, shards=None, timeout=900, prefix=None, env=None):
    """run lines on several processes; `prefix` lines (e.g. CFG) are sent first to each shard"""
    from concurrent.futures import ThreadPoolExecutor
    shards = shards or NPROC
    prefix = prefix or []
    n = len(lines)
    if n == 0:
        return [], None
    size = (n + shards - 1) // shards
    chunks = [lines[i:i + size] for i in range(0, n, size)]
    with ThreadPoolExecutor(max_workers=len(chunks)) as ex:
        res = list(ex.map(lambda c: run_lines(exe, prefix + c, timeout, env), chunks))
    out, crash = [], None
    for (o, c), chunk in zip(res, chunks):
        o = o[len(prefix):]
        if c and crash is None:
            crash = f"case #{len(out) + len(o)}: {chunk[len(o)] if len(o) < len(chunk) else '?'}\n{c}"
        out.extend(o + ["<crash>"] * (len(chunk) - len(o)))
    return out, crash

# --------------------------------------------------------------------------------------------
# evidence / violations / known findings

class Run:
    """one check run: collects coverage, violations, evidence"""
    def __init__(self, prop, tier, seed, level="proof"):
        self.prop, self.tier, self.seed, self.level = prop, tier, seed, level
        self.t0 = time.time()
        self.cov = dict(evaluations=0, distinct_nontrivial=0, samples=[], disagreements_checked=0,
                        obligations=0, discharged=0, checker_cmd="", trusted_base=[], rule="")
        self.assumptions = []
        self.violations = []
        self.known_hits = {}
        self.notes = []
        self._distinct = set()
        random.seed(seed)

    def count(self, case, nontrivial=True):
        self.cov["evaluations"] += 1
        if nontrivial:
            h = hashlib.md5(repr(case).encode()).digest()[:8]
            if h not in self._distinct:
                self._distinct.add(h)
                self.cov["distinct_nontrivial"] += 1

    def sample(self, s, limit=8):
        if len(self.cov["samples"]) < limit:
            self.cov["samples"].append(s)

    def violation(self, what, replay):
        """record a violation; `replay` is a JSON-able object describing the failing case"""
        self.violations.append((what, replay))

    def known(self, entry_id, what):
        self.known_hits[entry_id] = what

    def finish(self):
        hc = sys.modules.get("histcheck")
        if hc is not None and getattr(hc, "OPS", None):
            self.cov.setdefault("distribution", {})["history operations"] = dict(sorted(hc.OPS.items(), key=lambda kv: -kv[1]))
            self.cov["distribution"]["history lengths"] = {str(k): v for k, v in sorted(hc.HIST_LEN.items())}
        os.makedirs(OUT_EVID, exist_ok=True)
        os.makedirs(OUT_REPLAYS, exist_ok=True)
        rc = 0
        for kid, what in sorted(self.known_hits.items()):
            print(f"KNOWN-FINDING: property={self.prop} {kid} {what}")
        seen = set()
        for what, replay in self.violations:
            key = hashlib.md5(json.dumps(replay, sort_keys=True, default=str).encode()).hexdigest()[:10]
            if key in seen:
                continue
            seen.add(key)
            path = os.path.join(OUT_REPLAYS, f"{self.prop}-{key}.json")
            replay = dict(replay)
            replay.setdefault("property", self.prop)
            replay.setdefault("what", what)
            with open(path, "w") as f:
                json.dump(replay, f, indent=1, default=str)
            tail = " no-failing-input-found" if (replay.get("failing_input") is False or (replay.get("kind") == "obligation" and not replay.get("failing_input"))) else ""
            print(f"VIOLATION property={self.prop} replay={path}{tail}")
            print(f"  {what}")
            rc = 1
            if len(seen) >= 10:
                break
        ev = dict(property_id=self.prop, tier=self.tier, seed=self.seed, level=self.level,
                  coverage=self.cov, assumptions=self.assumptions,
                  wall_s=round(time.time() - self.t0, 2), violations=len(seen))
        if self.notes:
            ev["coverage"]["notes"] = self.notes
        if self.level == "proof" and (self.cov.get("discharged", 0) < 1 or self.cov.get("obligations", 0) < 1):
            # broken proof: keep the file schema-valid through the generic keys
            ev["coverage"]["obligations_total"] = self.cov.pop("obligations", 0)
            ev["coverage"]["discharged_count"] = self.cov.pop("discharged", 0)
            ev["coverage"]["evaluations"] = max(1, self.cov["evaluations"])
            ev["coverage"]["distinct_nontrivial"] = max(2, self.cov["distinct_nontrivial"])
        tmp = os.path.join(OUT_EVID, self.prop + ".json.tmp")
        with open(tmp, "w") as f:
            json.dump(ev, f, indent=1, default=str)
        os.replace(tmp, os.path.join(OUT_EVID, self.prop + ".json"))
        return rc

def load_known_findings():
    """known_findings.txt: 'known: property=Cxx id=<id> <text>' / 'fixed: property=Cxx <commit> <text>'"""
    out = []
    p = os.path.join(ROOT, "known_findings.txt")
    if not os.path.exists(p):
        return out
    for line in open(p):
        line = line.strip()
        m = re.match(r"known:\s+property=(\w+)\s+id=(\S+)\s+(.*)", line)
        if m:
            out.append(dict(kind="known", prop=m.group(1), id=m.group(2), text=m.group(3)))
    return out

TRUSTED_BASE = [
    "Coq 8.16.1 kernel incl. vm_compute (no native_compute)",
    "Coq standard library; Flocq 4.1 only where listed under axioms",
    "extraction: ExtrOcamlBasic only (Extract Inductive bool/option/unit/list/prod/sumbool/sumor; no Extract Constant); OCaml 4.13.1",
    "ocaml/driver.ml (hex/decimal glue, canonical dump)",
    "tools/translate.py + probe program compiled from /repo (tables, constants)",
    "harness/*.cpp built with g++ 12 from /repo working tree, ASan+UBSan, -ffp-contract=off; IEEE-754 conformance of the compiler/CPU",
    "tools/*.py generators and comparison",
]

def proof_stage(run, prop, extra_targets=None):
    """build the Coq development, (re)check Properties_<prop>.v, fill the proof part of the
    evidence. Returns (ok, info). On failure a violation of kind 'obligation' is NOT yet recorded:
    the caller first searches for a failing input."""
    ok, blog = build_coq()
    info = check_props_file(prop)
    bad = forbidden_scan()
    run.cov["obligations"] = len(info["theorems"])
    run.cov["discharged"] = len(info["theorems"]) if (info["ok"]) else 0
    run.cov["checker_cmd"] = f"cd coq && make -k -j{NPROC} && {info['cmd']}"
    run.cov["theorems"] = info["theorems"]
    run.cov["axioms"] = info["axioms"]
    run.cov["trusted_base"] = TRUSTED_BASE + ["axioms reported by Print Assumptions: " +
                                              (", ".join(info["axioms"]) or "none (closed under the global context)")]
    problems = []
    if not info["ok"]:
        # find which file failed
        m = re.findall(r'File "([^"]+)", line (\d+)[^\n]*\n(Error:[^\n]*(?:\n[^\n]+){0,3})', blog + info["log"])
        problems.append("proof obligation no longer checks: " + (("; ".join(f"{a}:{b} {c.strip()[:200]}" for a, b, c in m[:3])) or info["log"][-600:]))
    if bad:
        problems.append("forbidden construct: " + ", ".join(bad[:5]))
    unknown = [a for a in info["axioms"] if a.split(".")[-1] not in {x.split(".")[-1] for x in ALLOWED_AXIOMS}]
    if unknown:
        problems.append("unexpected axioms: " + ", ".join(unknown))
    if info["ok"] and info.get("assumption_reports", 0) < len(info["theorems"]):
        problems.append("a theorem lacks its Print Assumptions")
    info["problems"] = problems
    info["build_log"] = blog
    return (not problems), info

# --------------------------------------------------------------------------------------------
# correspondence helpers

class Broken(Exception):
    pass

def need_model():
    exe, log_ = build_model()
    if not exe:
        raise Broken("model extraction/driver build failed:\n" + log_[-3000:])
    return exe

def need_harness(name, cfgstr="10001", defines=None, **kw):
    d = cfg_flags(cfgstr)
    d.update(defines or {})
    exe, log_ = build_harness(name, d, **kw)
    if not exe:
        raise Broken(f"harness {name} does not build against /repo (cfg {cfgstr}):\n" + log_[-3000:])
    return exe

def correspond(run, model_exe, impl_exe, lines, cfgstr, label, nontrivial=None, shards=None, timeout=1200):
    """run the same case lines through the extracted model and the implementation; returns
    (mismatches, model_out, impl_out) where mismatches = [(index, line, model, impl)]; a crash
    of the implementation is recorded as a violation with the crashing case as replay."""
    prefix = ["CFG " + cfgstr]
    mo, mcrash = run_sharded(model_exe, lines, shards, timeout, prefix)
    io, icrash = run_sharded(impl_exe, lines, shards, timeout, prefix)
    if mcrash:
        raise Broken("model driver crashed: " + mcrash[:500])
    mism = []
    for k, (l, a, b) in enumerate(zip(lines, mo, io)):
        nt = True if nontrivial is None else nontrivial(l, a)
        run.count((cfgstr, l), nt)
        if a != b:
            mism.append((k, l, a, b))
    run.cov["disagreements_checked"] += len(lines)
    # distribution of what was explored (measured on this run): the model's outcome (first token of its answer: an error
    # code, a result or a short value) and the size of the case, per stream of cases
    dist = run.cov.setdefault("distribution", {})
    d = dist.setdefault(f"{label} [{cfgstr}]", {"cases": 0, "outcomes": {}, "case_size_log2": {}})
    d["cases"] += len(lines)
    for l, a in zip(lines, mo):
        tok = a.split(" ")[0][:16] if a else "-"
        if len(d["outcomes"]) < 24 or tok in d["outcomes"]:
            d["outcomes"][tok] = d["outcomes"].get(tok, 0) + 1
        else:
            d["outcomes"]["(other)"] = d["outcomes"].get("(other)", 0) + 1
        b = str(max(0, len(l)).bit_length())
        d["case_size_log2"][b] = d["case_size_log2"].get(b, 0) + 1
    if icrash:
        k = io.index("<crash>") if "<crash>" in io else -1
        run.violation(f"{label}: implementation crashed / sanitizer report on case {lines[k] if k >= 0 else '?'}",
                      dict(kind="input", cfg=cfgstr, harness=os.path.basename(impl_exe), lines=[lines[k]] if k >= 0 else [],
                           observed=icrash[-3000:], model=mo[k] if k >= 0 else None))
    return mism, mo, io

def replay_lines(rp, harness="text_h"):
    """generic replay: re-run the recorded case lines on the rebuilt implementation and the model"""
    cfgstr = rp.get("cfg", "10001")
    m = need_model()
    h = need_harness(rp.get("harness_src", harness), cfgstr, rp.get("defines"))
    lines = rp.get("lines", [])
    mo, _ = run_lines(m, ["CFG " + cfgstr] + lines)
    io, crash = run_lines(h, ["CFG " + cfgstr] + lines)
    bad = 0
    for l, a, b in zip(lines, mo[1:], io[1:] + ["<crash>"] * len(lines)):
        print("case :", l)
        print(" model:", a)
        print(" impl :", b)
        if a != b:
            bad = 1
    if crash:
        print(crash[-3000:])
        bad = 1
    if rp.get("expected") is not None:
        print(" expected (oracle):", rp["expected"])
    return bad
