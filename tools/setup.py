#!/usr/bin/env python3
"""setup.py — MANIFEST.setup_cmd: build everything from files on disk (offline):
Gen/*.v from /repo, the whole Coq development (full .vo build), the extracted model driver and
the default harness configurations."""
import os, sys
sys.path.insert(0, os.path.dirname(os.path.abspath(__file__)))
import vlib

def main():
    ok, log = vlib.build_coq(timeout=3400)
    print(log[-3000:])
    if not ok:
        print("SETUP: coq build failed")
        sys.exit(1)
    exe, log = vlib.build_model()
    if not exe:
        print(log[-3000:]); print("SETUP: model build failed"); sys.exit(1)
    specs = [("text_h", vlib.cfg_flags(c), {}) for c in ("10001", "11111", "10101", "10011", "01001", "00111")]
    specs += [("doc_h", vlib.cfg_flags(c), {}) for c in ("10001", "10000", "11111")]
    specs += [("num_h", vlib.cfg_flags("10001"), {}), ("hist_h", vlib.cfg_flags("10001"), {}), ("pool_h", vlib.cfg_flags("10001"), {})]
    for (exe, log) in vlib.build_harnesses(specs):
        if not exe:
            print(log[-3000:]); print("SETUP: harness build failed"); sys.exit(1)
    print("SETUP OK")

if __name__ == "__main__":
    main()
