#!/usr/bin/env python3
"""gen_manifest.py — writes MANIFEST.json from the table below (kept in one place so that it
stays valid at all times)."""
import json, os
ROOT = os.path.dirname(os.path.dirname(os.path.abspath(__file__)))
ALL = ["C%02d" % i for i in range(1, 21)]

NOTE_COMMON = ("Trusted: Coq 8.16.1 kernel + vm_compute; extraction (ExtrOcamlBasic only) + ocaml/driver; tools/translate.py (probe tables); "
               "C++ harness built from /repo working tree with g++ ASan/UBSan -ffp-contract=off; Python generators/oracles. "
               "The Gallina model is hand-written and tied to the code by the correspondence run of this check and by the regenerated tables (GenAgree). ")

CLAIMED = {
 "C01": dict(
   technique="Coq proof of completeness of the reader model for the RFC 8259 grammar (mutual induction on a depth-indexed grammar relation) + differential run model vs C++ + Python json oracle",
   text="C01_valid_json_denotes: every text of the RFC 8259 grammar (Spec/Rfc8259.v: any whitespace, any escape spelling incl. surrogate pairs, any number spelling, any key set) whose syntactic depth is within the limit is accepted by the reader model and yields the value the grammar assigns (order, UTF-8 strings, first-position/last-value for repeated keys; number leaves = parseNumber, see C12). C01_value_any_context gives the same inside any context. The model is compared with the rebuilt library on thousands of grammar-generated texts per run (dirty destination), and the library's documents are checked against Python's json with exact rational arithmetic.",
   note=NOTE_COMMON + "No axioms. Memory is assumed available (NoMemory not modelled at this level). Float accuracy of number leaves is C12's subject.",
   design="§6 C01"),
 "C02": dict(
   technique="Coq proof that the serializer model's output reads back to the document (induction), integer printing digit-exact, buffer prefix law + differential run on 5 destinations and all capacities + Python json oracle",
   text="C02_text_denotes_document / C02_pretty_denotes_same: for float-free documents the compact and the pretty text both read back (through the reader proved complete for RFC 8259) to exactly the document; C02_integers_digit_exact, C02_negative_integers; C02_bounded_buffer: first min(n,len) bytes, count, NUL iff len<n; C02_string_bytes_preserved. Floats: printing model is bit-exact against the library (SpecFloat) and checked against C12's tolerance by the oracle. The library is run on std::string, ostream, custom writer, Print, Arduino String and caller buffers of every capacity 0..len+2 with guard bytes.",
   note=NOTE_COMMON + "No axioms. Print/String are the mocks of extras/tests/Helpers. Floating-point leaves are covered by correspondence + oracle, not by a theorem (see C12).",
   design="§6 C02"),
 "C03": dict(
   technique="Coq proofs by induction over every routine of the reader model (budget invariant, no load after the end marker, fuel sufficiency) + differential run through 13 input kinds under ASan/UBSan",
   text="C03_terminates (the model's fuel is never exhausted, any bytes/filter/limit/config), C03_no_read_after_end (no load after NUL/end of data: what ARDUINOJSON_ASSERT(!ended_) guards, i.e. no over-read of a zero-terminated input), C03_reads_bounded, C03_budget_preserved, C03_no_fault_any_state are proved for the JSON reader model. The library is run on valid, truncated, mutated and random inputs and on headers announcing 2^32-1 elements through 13 JSON / 9 MessagePack input kinds in exactly-sized heap blocks with ARDUINOJSON_DEBUG asserts, random limits and filters, over an option matrix (slot-id 1/2/4, string-length 1/2/4, comments, NaN/Inf, unicode); every kind must give the model's code and document; each document is then traversed, serialized, measured, cleared and reused.",
   note=NOTE_COMMON + "No axioms. Partial: absence of undefined behaviour in the compiled C++ is observed by the sanitizers on the explored inputs only; the theorems bound reads and termination on the model. MessagePack reader theorems are in progress (correspondence only for now).",
   design="§6 C03"),
 "C10": dict(
   technique="Coq proofs: RFC 8259 inside the accepted language (completeness), unclosed container/string never accepted, always classified, Ok => nesting <= L; bounded-exhaustive differential run over token sequences x 6-16 configurations",
   text="C10_rfc8259_accepted, C10_bytes_after_value_ignored, C10_unclosed_never_accepted (any bytes, any filter), C10_always_classified, C10_ok_within_limit, C10_source_agrees (character classes regenerated from the source, incl. the NaN/Infinity variant). The accepted language itself is the executable model; it is compared with the library on every token sequence up to length 3 (4 in thorough) over 27 tokens, random longer ones, mutations/truncations and dialect probes, in the configurations of comments x NaN x Infinity x unicode (incl. the mixed NaN-only / Infinity-only ones), with oracle rules for EmptyInput, RFC acceptance (Python json), option gating and unclosed prefixes.",
   note=NOTE_COMMON + "No axioms. 'Exactly the documented dialect' is shown as: model == library on the explored inputs, RFC subset proved accepted, unclosed inputs proved rejected; an independent declarative definition of the lenient extensions (single quotes, unquoted keys, lenient numbers) with a soundness proof is not provided.",
   design="§6 C10"),
 "C18": dict(
   technique="Coq proofs about the comparison model (antisymmetry of compare by induction with fuel independence; operator laws) + differential run of 12 operator results over ordered pairs of a value pool, variant/variant and variant/scalar",
   text="C18_ne_is_not_eq, C18_le_is_lt_or_eq, C18_ge_is_gt_or_eq, C18_at_most_one (all values); C18_eq_symmetric and C18_lt_is_gt_swapped for values whose objects do not repeat a key; by value: C18_integers_exact (whole Z range of the model, int64/uint64 mix), C18_strings_by_bytes, C18_raw_by_bytes, C18_null_equals_only_null, C18_nan_equals_nothing. C18_symmetry_needs_distinct_keys is the checked refutation of the unrestricted statement (known finding). The library is run on ~12-160k ordered pairs (integers across int32/int64/uint64 boundaries, floats incl. NaN/inf/-0/2^53 neighbours, strings with NUL and high bytes, raw, nested containers, unbound) with the coherence laws and a by-value oracle.",
   note=NOTE_COMMON + "No axioms. Known finding: duplicate-key objects (from deserializeMsgPack) compare asymmetrically. Booleans against numbers follow the code (true == 1).",
   design="§6 C18"),
 "C11": dict(
   technique="Coq proof that the filtered reader yields project(filter, unfiltered value) for every grammar text and every filter (mutual induction; skip-path completeness; filter `true` identity on all inputs) + differential run with an independent projection oracle, JSON and MessagePack, allocator totals",
   text="C11_filtering_is_projection (every RFC 8259 text within limits, EVERY filter document incl. scalars, wildcards beside explicit entries, shapes disagreeing with the input, repeated keys), C11_true_is_identity (on every input, malformed included: same code, document and bytes consumed), C11_discarded_values_are_skipped. The library is run on (input, filter) pairs for JSON and MessagePack; its filtered result must equal the projection (independent Python function written from the property text) of its own unfiltered result; filter true vs no filter on malformed inputs; with an instrumented allocator the filtered run must not request more memory than the unfiltered one on accepted inputs, must not leak or misuse blocks.",
   note=NOTE_COMMON + "No axioms. The MessagePack filter path is tied by correspondence + oracle only. The clause 'for any input whatsoever filtering never requests more memory' is checked for inputs the unfiltered run accepts: for a malformed input whose error lies in a discarded part the filtered run legitimately goes further (the property's own parenthesis); numbers equal to 1 used as filters act like true in the code.",
   design="§6 C11"),
 "C12": dict(
   technique="Coq proofs for the integer half and the structural float half (no table overrun for any string, classification of extremes); the numeric error bounds are NOT proved: bit-exact differential run of the SpecFloat model vs C++ + exact-rational oracle",
   text="Proved: C12_integer_literals_exact (any leading zeros, whole [-2^63,2^64) range), C12_integers_print_and_read_back, C12_integers_digit_exact, C12_no_table_overrun (every byte string), C12_result_shapes / C12_zero_stays_zero / C12_huge_is_infinity / C12_tiny_is_zero (never inf for zero, signed infinity above the range, signed zero below), C12_source_agrees (tables and constants from the source). Partial: the error bounds 1e-6/1e-13 (parsing) and 1e-6/1e-9 (printing) are not theorems; the model of parseNumber and writeFloat (Coq SpecFloat arithmetic) is compared bit-for-bit with the library on every run and the library's results are checked against the bounds with exact rational arithmetic on literals aimed at every decision boundary, strings of up to 60000 digits, doubles over all exponents and (thorough) 400k floats.",
   note=NOTE_COMMON + "No axioms. Known finding: a double that is exactly representable as a float is stored as a float and printed with 6 decimals. exponent_offset is an `int` in the code and unbounded in the model (a literal would need 2^31 digits to wrap it).",
   design="§6 C12"),
 "C13": dict(
   technique="Coq proofs about the conversion model (range tests, float->int cast defined whenever evaluated, truncation when the rational value is in range) + differential run over boundary values x 10 target types with an exact-rational oracle under UBSan",
   text="C13_int_to_int, C13_is_then_as, C13_wider_agrees, C13_float_cast_defined (the cast is evaluated only when representable: no float-cast-overflow UB, float and double sources, 8 targets), C13_stored_values_valid, C13_float_in_range_truncates (value within the range of T as a rational => converted, result = truncation toward zero), C13_result_in_range, C13_nan_is_zero, C13_strings_any_length, C13_source_agrees (highest_for constants). The library is run on integers/floats/doubles within 2 of every power of two and type limit, special values, random values and numeric strings up to 40000 digits (copied and linked) against Python exact arithmetic.",
   note=NOTE_COMMON + "No axioms (QArith only). as<float>/as<double> rounding is tied by correspondence (SpecFloat binary_normalize) and the oracle, not by a theorem; copyArray bounds are not modelled.",
   design="§6 C13"),
 "C15": dict(
   technique="Coq proofs by induction on the nesting budget (the model is structurally recursive on it) + differential run on towers for all limits + oracle on TooDeep position",
   text="C15_ok_nesting (Ok => nesting <= L, any input/filter/config), C15_limit_only_causes_TooDeep(+_skip) (a run not ending in TooDeep is unchanged under any larger limit: the limit has no other effect), C15_tower_refused(+_in_skipped_part) (the (L+1)-th opener is refused when met, nothing after it is read), C15_within_limit_accepted. Recursion depth <= L+1 is the structural recursion of the definition itself. Towers of [ {\"a\": 0x91 0x81 array16/32 map16/32, kept and filter-discarded, up to 10^4 openers, are run on the library for many L.",
   note=NOTE_COMMON + "No axioms. Stack BYTES per frame are a compiler fact: the theorem bounds the number of nested calls; MessagePack depth theorems are not yet in (correspondence only).",
   design="§6 C15"),
 "C16": dict(
   technique="Coq proof (corollary of reader completeness: post-state = exactly the unread rest, independent of it) + differential run of successive calls on std::istream and custom reader",
   text="C16_consumes_exactly_its_value: after leading whitespace and a value of the grammar the reader's unread stream is exactly what followed (nothing latched for string/literal/array/object; for a number the one byte it looked at); C16_result_independent_of_rest. Sequences of 1-6 JSON documents with all separators and back-to-back MessagePack objects are run through successive calls on istringstream (tellg) and a byte-counting reader; positions and documents are checked against independent oracles.",
   note=NOTE_COMMON + "No axioms. The MessagePack half is tied by correspondence; its theorem (mp_roundtrip) is in progress.",
   design="§6 C16"),
 "C17": dict(
   technique="Coq proof (complete finite sweeps by vm_compute lifted to forall + induction on the string) over a Gallina model; model tied to source by regenerated leaf tables (GenAgree) and exhaustive differential run of extracted model vs C++",
   text="Theorems C17_utf8_all (all 1 114 112 code points), C17_bmp / C17_pairs (every escape spelling, any position), C17_roundtrip (every byte string) and C17_only_named are proved in Coq about the model of Utf16/Utf8/EscapeSequence/parseQuotedString/writeString; C17_source_agrees ties the leaf functions to tables regenerated from the current source over their complete domains; the extracted model and the rebuilt library are compared on all 65536 code units, all byte pairs, and (thorough) all 1024x1024 surrogate pairs and all code points, with Python's UTF-8 codec as independent oracle.",
   note=NOTE_COMMON + "No axioms.",
   design="§6 C17"),
}

def main():
    checks = []
    for p in ALL:
        if p not in CLAIMED:
            continue
        c = CLAIMED[p]
        checks.append(dict(
            property_id=p,
            quick_cmd=f"python3 tools/check.py {p} --tier quick",
            thorough_cmd=f"python3 tools/check.py {p} --tier thorough",
            evidence_file=f"/verif/evidence/{p}.json",
            replay_cmd_template=f"python3 tools/check.py {p} --replay {{path}}",
            engine="coq-model+correspondence",
            level_claimed=dict(category=c.get("category", "proof"), text=c["text"], design_ref=c["design"]),
            level_note=c["note"],
            technique=c["technique"]))
    na = [dict(property_id=p, reason=NA.get(p, "check not built yet in this round; not claimed (the technique applies, see DESIGN.md §6)"))
          for p in ALL if p not in CLAIMED]
    m = dict(
        version=1,
        setup_cmd="python3 tools/setup.py",
        hooks=dict(guard="BBLANCHON_ARDUINOJSON_VERIF",
                   enable="harnesses are compiled with -DBBLANCHON_ARDUINOJSON_VERIF -DARDUINOJSON_DEBUG=1 against /repo/src (header-only library)",
                   baseline_off_cmd="cmake --build /repo/_build && ctest --test-dir /repo/_build -j8 --timeout 900",
                   source_commits=HOOK_COMMITS, add_only=True),
        engines=[dict(name="coq-model+correspondence", path="/verif/coq + /verif/tools + /verif/harness + /verif/ocaml",
                      serves_properties=sorted(CLAIMED),
                      kind_free_text="Gallina model with Coq theorems (Properties_Cxx.v); tie T = tools/translate.py regenerating coq/theories/Gen from /repo; tie X = extracted OCaml model vs C++ harness built from /repo's working tree")],
        checks=checks,
        notes="See DESIGN.md. Known findings: known_findings.txt.",
        not_applicable=na)
    json.dump(m, open(os.path.join(ROOT, "MANIFEST.json"), "w"), indent=1)
    print("claimed:", sorted(CLAIMED), "unclaimed:", [x["property_id"] for x in na])

NA = {}
HOOK_COMMITS = []
if __name__ == "__main__":
    main()
