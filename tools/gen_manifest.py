#!/usr/bin/env python3
"""gen_manifest.py — writes MANIFEST.json from the table below (kept in one place so that it
stays valid at all times)."""
import json, os
ROOT = os.path.dirname(os.path.dirname(os.path.abspath(__file__)))
ALL = ["C%02d" % i for i in range(1, 21)]

CLAIMED = {
 "C17": dict(
   technique="Coq proof (complete finite sweeps by vm_compute lifted to forall + induction on the string) over a Gallina model; model tied to source by regenerated leaf tables (GenAgree) and exhaustive differential run of extracted model vs C++",
   text="Theorems C17_utf8_all (all 1 114 112 code points), C17_bmp / C17_pairs (every escape spelling, any position), C17_roundtrip (every byte string) and C17_only_named are proved in Coq about the model of Utf16/Utf8/EscapeSequence/parseQuotedString/writeString; C17_source_agrees ties the leaf functions to tables regenerated from the current source over their complete domains; the extracted model and the rebuilt library are compared on all 65536 code units, all byte pairs, and (thorough) all 1024x1024 surrogate pairs and all code points, with Python's UTF-8 codec as independent oracle.",
   note="Trusted: Coq kernel + vm_compute, extraction (ExtrOcamlBasic), OCaml driver, translate.py probe, harness, g++ ASan/UBSan build. Model of the string reader is hand written and tied by correspondence (exhaustive on the finite domains of the property). No axioms.",
   design="§6 C17"),
}

def main():
    checks = []
    for p in ALL:
        if p not in CLAIMED:
            continue
        c = CLAIMED[p]
        checks.append(dict(
            property_id=p,
            quick_cmd=f"python3 tools/check.py {p} --tier quick",
            thorough_cmd=f"python3 tools/check.py {p} --tier thorough",
            evidence_file=f"/verif/evidence/{p}.json",
            replay_cmd_template=f"python3 tools/check.py {p} --replay {{path}}",
            engine="coq-model+correspondence",
            level_claimed=dict(category=c.get("category", "proof"), text=c["text"], design_ref=c["design"]),
            level_note=c["note"],
            technique=c["technique"]))
    na = [dict(property_id=p, reason=NA.get(p, "check not built yet in this round; not claimed (the technique applies, see DESIGN.md §6)"))
          for p in ALL if p not in CLAIMED]
    m = dict(
        version=1,
        setup_cmd="python3 tools/setup.py",
        hooks=dict(guard="BBLANCHON_ARDUINOJSON_VERIF",
                   enable="harnesses are compiled with -DBBLANCHON_ARDUINOJSON_VERIF -DARDUINOJSON_DEBUG=1 against /repo/src (header-only library)",
                   baseline_off_cmd="cmake --build /repo/_build && ctest --test-dir /repo/_build -j8 --timeout 900",
                   source_commits=HOOK_COMMITS, add_only=True),
        engines=[dict(name="coq-model+correspondence", path="/verif/coq + /verif/tools + /verif/harness + /verif/ocaml",
                      serves_properties=sorted(CLAIMED),
                      kind_free_text="Gallina model with Coq theorems (Properties_Cxx.v); tie T = tools/translate.py regenerating coq/theories/Gen from /repo; tie X = extracted OCaml model vs C++ harness built from /repo's working tree")],
        checks=checks,
        notes="See DESIGN.md. Known findings: known_findings.txt.",
        not_applicable=na)
    json.dump(m, open(os.path.join(ROOT, "MANIFEST.json"), "w"), indent=1)
    print("claimed:", sorted(CLAIMED), "unclaimed:", [x["property_id"] for x in na])

NA = {}
HOOK_COMMITS = []
if __name__ == "__main__":
    main()
