#!/bin/bash
# which lines of /repo/src do the quick checks execute at all? (a diagnostic for the generators, not a check)
# usage: tools/coverage.sh [props...]   -> /tmp/verifcov/summary.txt, /tmp/verifcov/uncovered.txt
set -u
cd /verif
export VERIF_COV=1 VERIF_OUT=/tmp/verifcov/out
mkdir -p /tmp/verifcov/out
props=${@:-C01 C02 C03 C04 C05 C06 C07 C08 C09 C10 C11 C12 C13 C14 C15 C16 C17 C18 C19 C20}
for p in $props; do
  python3 tools/check.py $p --tier quick > /tmp/verifcov/$p.log 2>&1; echo "$p rc=$?"
done
cd /tmp/verifcov
gcovr --root /repo/src --filter '/repo/src/' --object-directory /verif/build $(ls -d /verif/build/h-*/ ) --json -o /tmp/verifcov/harness.json 2>/tmp/verifcov/gcovr.err
gcovr --root /repo/src --add-tracefile /tmp/verifcov/harness.json --txt -o /tmp/verifcov/summary.txt
