#!/bin/bash
# which lines of /repo/src do the quick checks execute at all? (a diagnostic for the generators, not a check)
# usage: tools/coverage.sh [props...]   -> /tmp/verifcov/summary.txt, /tmp/verifcov/uncovered.txt
set -u
cd /verif
export VERIF_COV=1 VERIF_OUT=/tmp/verifcov/out
mkdir -p /tmp/verifcov/out
props=${@:-C01 C02 C03 C04 C05 C06 C07 C08 C09 C10 C11 C12 C13 C14 C15 C16 C17 C18 C19 C20}
for p in $props; do
  python3 tools/check.py $p --tier quick > /tmp/verifcov/$p.log 2>&1; echo "$p rc=$?"
done
cd /tmp/verifcov
rm -f /verif/build/*.gcov
gcovr --root /repo/src --filter '/repo/src/' --gcov-ignore-parse-errors -j 8 $(for f in $(find /verif/build -name "*.gcda"); do dirname $f; done | sort -u) --json -o /tmp/verifcov/harness.json 2>/tmp/verifcov/gcovr.err
rm -f /verif/build/*.gcov *.gcov
gcovr --root /repo/src --add-tracefile /tmp/verifcov/harness.json --txt -o /tmp/verifcov/summary.txt
# lines the repository's own suite executes (suite.json: the suite built with -DCOVERAGE=ON in a scratch worktree, gcovr --json) and the checks do not:
# python3 - <<'PY' ... see DESIGN.md section 12
