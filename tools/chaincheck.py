"""chaincheck.py — the representation level of C04/C05/C06/C19: one array / one object of the library seen as its chain
of slot identifiers (pool_h ARUN), against Model/Collection.v (extracted, ARUN) and against the plain-list laws that
Proofs/CollProofs.v proves about it (checked here on the library's own output, so a failure is a concrete history)."""
import vlib

def gen_ops(rnd, n, obj, fail_rate):
    ops = []
    for _ in range(n):
        r = rnd.random()
        mask = 0
        if rnd.random() < fail_rate:
            mask = rnd.choice([1, 2, 3, 4, 5, 6, 7, 8, 16])
        if obj:
            if r < 0.62: ops.append("o%d" % mask)
            elif r < 0.9: ops.append("p%d" % rnd.randrange(0, 12))
            elif r < 0.96: ops.append("s")
            else: ops.append("c")
        else:
            if r < 0.5: ops.append("a%d" % mask)
            elif r < 0.6: ops.append("g%d:%d" % (rnd.randrange(0, 30), mask))
            elif r < 0.9: ops.append("r%d" % rnd.randrange(0, 20))
            elif r < 0.96: ops.append("s")
            else: ops.append("c")
    return ops

def laws(ops, out, limit, obj):
    """the list laws on the library's own chains; returns a description of the first failure or None"""
    steps = out.split(" ")
    trailer = [s for s in steps if "=" in s]
    steps = [s for s in steps if "=" not in s and s]
    if len(steps) != len(ops):
        return f"{len(steps)} results for {len(ops)} operations"
    prev = []
    for i, (op, st) in enumerate(zip(ops, steps)):
        res, calls, ch = st.split("/")
        chain = [int(x) for x in ch.split(",")] if ch else []
        where = f"step {i} ({op}): "
        if len(set(chain)) != len(chain):
            return where + f"a slot appears twice in the chain {chain}"
        if any(x >= limit for x in chain):
            return where + f"slot id >= NULL_SLOT {limit} in the chain"
        if obj and len(chain) % 2:
            return where + f"object chain of odd length {len(chain)}: a key without a value"
        c = op[0]
        if c == "a":
            if res == "x" and chain != prev: return where + "failed add changed the chain"
            if res != "x" and (chain != prev + [int(res)] or int(res) in prev): return where + f"add must append a fresh slot: {prev} -> {chain}"
        elif c == "g":
            k = int(op[1:].split(":")[0])
            if chain[:len(prev)] != prev: return where + "old elements are no longer a prefix"
            if res != "x" and (len(chain) != max(len(prev), k + 1) or chain[k] != int(res)): return where + f"element {k} must exist afterwards: {chain}"
        elif c == "r":
            k = int(op[1:])
            want = prev[:k] + prev[k + 1:]
            if chain != want: return where + f"remove({k}) must close the gap only: {prev} -> {chain}"
        elif c == "o":
            if res == "x" and chain != prev: return where + "failed member insertion changed the chain"
            if res != "x" and (chain[:len(prev)] != prev or len(chain) != len(prev) + 2 or chain[-1] != int(res)): return where + f"member insertion must append key and value: {prev} -> {chain}"
        elif c == "p":
            k = int(op[1:])
            want = prev[:2 * k] + prev[2 * k + 2:]
            if chain != want: return where + f"removing member {k} must remove its two slots only: {prev} -> {chain}"
        elif c == "c":
            if chain: return where + "clear() left elements"
        elif c == "s":
            if chain != prev: return where + "shrinkToFit changed the chain"
        if c in "rpcs" and calls != "0":
            return where + f"{calls} allocator calls in an operation that must not allocate"
        prev = chain
    t = " ".join(trailer)
    if "leaked=0" not in t or "MISUSE" in t:
        return "memory not returned / allocator misuse: " + t
    return None

def run(runobj, rnd, prop, geoms, n_per_geom, nops=(40, 160), cfg="10001"):
    """geoms: list of (idsize, cap, inline). Reports violations itself. Returns number of histories compared."""
    model = vlib.need_model()
    total = 0
    vlib.build_harnesses([("pool_h", dict(vlib.cfg_flags(cfg), ARDUINOJSON_SLOT_ID_SIZE=g[0], ARDUINOJSON_POOL_CAPACITY=g[1], ARDUINOJSON_INITIAL_POOL_COUNT=g[2]), {})
                          for g in geoms])
    for g in geoms:
        defs = {"ARDUINOJSON_SLOT_ID_SIZE": g[0], "ARDUINOJSON_POOL_CAPACITY": g[1], "ARDUINOJSON_INITIAL_POOL_COUNT": g[2]}
        impl = vlib.need_harness("pool_h", cfg, defs)
        limit = (1 << (8 * g[0])) - 1
        hs = []
        for k in range(n_per_geom):
            obj = k % 2 == 1
            fr = rnd.choice([0, 0, 0.05, 0.2])
            hs.append((obj, gen_ops(rnd, rnd.randrange(*nops), obj, fr)))
        if g[0] == 1:
            # fill to the last slot, remove, refill: arrays (255 slots) and objects (127 members + 1 slot unused)
            hs.append((False, ["a0"] * (limit + 2) + ["r0", "r100", "a0", "a0", "a0", "s", "r3", "a0", "c", "a0", "a0"]))
            hs.append((True, ["o0"] * (limit // 2 + 2) + ["p0", "p50", "o0", "o0", "o0", "s", "p3", "o0", "c", "o0"]))
        mo, mc = vlib.run_lines(model, ["ARUN %d %d %d %s" % (8 * g[0], g[1], g[2], " ".join(o)) for _, o in hs])
        io, ic = vlib.run_lines(impl, ["ARUN " + " ".join(o) for _, o in hs])
        if mc:
            raise vlib.Broken("model driver crashed on ARUN: " + mc[:300])
        if ic:
            k = min(len(io), len(hs) - 1)
            runobj.violation(f"{prop}: library crashed on a collection history (geometry {g}): {ic[:300]}",
                             dict(kind="history", cfg=cfg, defines=defs, harness_src="pool_h", lines=["ARUN " + " ".join(hs[k][1])], observed=ic[-2500:]))
        for (obj, ops), a, b in zip(hs, mo, io):
            total += 1
            runobj.count((prop, "chain", g, " ".join(ops)[:80], len(ops)))
            line = "ARUN " + " ".join(ops)
            bad = laws(ops, b, limit, obj)
            if bad:
                runobj.violation(f"{prop}: slot chain of the library's {'object' if obj else 'array'} is not the plain list (geometry id={g[0]} cap={g[1]} inline={g[2]}): {bad[:300]}",
                                 dict(kind="history", cfg=cfg, defines=defs, harness_src="pool_h", lines=[line[:6000]], observed=b[:3000], expected=bad))
                continue
            b0 = b.split(" leaked=")[0]
            if a != b0:
                at, bt = a.split(" "), b0.split(" ")
                i = next((i for i, (x, y) in enumerate(zip(at, bt)) if x != y), min(len(at), len(bt)))
                runobj.violation(f"model/implementation disagree on the slot chain (geometry {g}) at step {i} ({ops[i] if i < len(ops) else '-'}) of {line[:100]}: "
                                 f"model {' '.join(at[i:i + 1])[:120]} impl {' '.join(bt[i:i + 1])[:120]}",
                                 dict(kind="history", cfg=cfg, defines=defs, harness_src="pool_h", lines=["ARUN " + " ".join(ops[:i + 1])], model=" ".join(at[max(0, i - 2):i + 1]),
                                      observed=" ".join(bt[max(0, i - 2):i + 1]), failing_input=False,
                                      note="correspondence with Model/Collection.v broken (slot ids, order or allocator-call count); the list laws hold on the library's output"))
    return total

def replay(rp):
    cfg = rp.get("cfg", "10001")
    defs = rp.get("defines") or {}
    h = vlib.need_harness("pool_h", cfg, defs)
    m = vlib.need_model()
    g = (8 * int(defs.get("ARDUINOJSON_SLOT_ID_SIZE", 4)), int(defs.get("ARDUINOJSON_POOL_CAPACITY", 256)), int(defs.get("ARDUINOJSON_INITIAL_POOL_COUNT", 4)))
    bad = 0
    for l in rp.get("lines", []):
        mo, _ = vlib.run_lines(m, ["%s %d %d %d %s" % (l.split(" ")[0], g[0], g[1], g[2], l.split(" ", 1)[1])])
        io, crash = vlib.run_lines(h, [l])
        print("history:", l[:1500]); print(" model:", (mo or ["?"])[0][-1200:]); print(" impl :", (io or ["?"])[0][-1200:])
        if crash:
            print(crash[-2000:]); bad = 1
    return bad
