"""gen_json.py — generators of JSON texts (valid RFC 8259 with every free choice randomised,
dialect extensions, malformed mutations, token sequences) and the independent oracle (Python's
json module + exact rational arithmetic) used on the implementation's output."""
import json, math, random, struct
from fractions import Fraction

WS = [b" ", b"\t", b"\r", b"\n"]

def hx(b):
    return b.hex() if b else "-"

# ------------------------------------------------------------------------------------------
# values

class Gen:
    def __init__(self, rnd, max_depth=4, unicode_on=True, allow_nul_keys=True, comments=False):
        self.r = rnd
        self.max_depth = max_depth
        self.unicode_on = unicode_on
        self.allow_nul_keys = allow_nul_keys
        self.comments = comments      # insignificant bytes may then be /* ... */ and // ... \n (configurations with comments)

    # --- strings: python `bytes` of the decoded content; spelling chosen at render time
    def string(self, key=False):
        r = self.r
        k = r.random()
        if k < 0.1:
            return ""
        n = r.choice([1, 1, 2, 3, 5, 8, 30, 31, 32, 33, 64])
        out = []
        for _ in range(n):
            c = r.random()
            if c < 0.55:
                out.append(chr(r.choice(b"abcdefghijklmnopqrstuvwxyzABCXYZ0123456789 _-.,:{}[]")))
            elif c < 0.65:
                out.append(r.choice('"\\/\b\f\n\r\t'))
            elif c < 0.70 and (self.allow_nul_keys or not key):
                out.append("\0")
            elif c < 0.8:
                out.append(chr(r.randrange(0x80, 0x800)))
            elif c < 0.9:
                cp = r.randrange(0x800, 0x10000)
                if 0xD800 <= cp < 0xE000:
                    cp = 0x20AC
                out.append(chr(cp))
            elif c < 0.95:
                out.append(chr(r.randrange(0x10000, 0x110000)))
            else:
                out.append(chr(r.randrange(1, 0x20)))
        return "".join(out)

    def int_literal(self):
        r = self.r
        k = r.random()
        if k < 0.3:
            z = r.randrange(-1000, 1000)
        elif k < 0.6:
            p = r.choice([7, 8, 15, 16, 31, 32, 53, 63, 64])
            z = r.choice([1, -1]) * (2 ** p + r.randrange(-2, 3))
        elif k < 0.8:
            z = r.randrange(-2 ** 63, 2 ** 64)
        else:
            z = r.choice([0, -0, 2 ** 64 - 1, -2 ** 63, 2 ** 63, 2 ** 63 - 1, 2 ** 64, -2 ** 63 - 1, 10 ** 19, 10 ** 20 - 1,
                          18446744073709551610, 18446744073709551620, 1844674407370955161, 9999999999999999999])
        s = str(z)
        if z == 0 and r.random() < 0.3:
            s = "-0"
        return s

    def float_literal(self):
        r = self.r
        k = r.random()
        sign = r.choice(["", "-"])
        if r.random() < 0.06:
            # exactly at the longest literal a document may carry (63 characters) and just below
            n = r.choice([60, 61, 62, 63, 63, 63]) - len(sign)
            form = r.randrange(4)
            d = lambda m: "".join(r.choice("0123456789") for _ in range(m))
            if form == 0: lit = r.choice("123456789") + d(n - 1)
            elif form == 1: lit = r.choice("123456789") + "." + d(n - 2)
            elif form == 2: lit = "0." + d(n - 2 - 4) + "e-" + r.choice(["10", "99"])
            else: lit = r.choice("123456789") + d(n - 1 - 3) + "e" + r.choice(["10", "20"])
            return sign + lit
        if k < 0.25:
            return sign + "%d.%s" % (r.randrange(1000), "".join(r.choice("0123456789") for _ in range(r.randrange(1, 8))))
        if k < 0.5:
            m = "".join(r.choice("0123456789") for _ in range(r.randrange(1, 20)))
            m = str(int(m))
            f = "".join(r.choice("0123456789") for _ in range(r.randrange(0, 20)))
            e = r.choice(["", "", "e", "E"])
            lit = m + ("." + f if f else "")
            if e:
                lit += e + r.choice(["", "+", "-"]) + str(r.choice([0, 1, 5, 10, 22, 37, 38, 39, 100, 290, 300, 307, 308, 309, 320, 400, r.randrange(400)]))
            elif not f:
                lit += ".0"
            return sign + lit
        if k < 0.7:
            # aimed at the float/double decision and FLT_MAX
            m = r.choice([1, 3, 34, 35, 340, 341, 8388607, 8388608, 8388609, 3402823, 3402824, 10, 9999999, 16777216])
            e = r.choice([-46, -45, -39, -38, -37, 30, 31, 32, 36, 37, 38, 39, 40])
            return sign + "%de%d" % (m, e)
        if k < 0.85:
            # many zeros / long mantissas, still <= 63 chars
            z = r.randrange(1, 45)
            return sign + r.choice(["1", "9", "123"]) + "0" * z + r.choice(["", ".0", "e-%d" % r.randrange(1, 340), "e%d" % r.randrange(1, 300)])
        z = r.randrange(1, 40)
        return sign + "0." + "0" * z + str(r.randrange(1, 10 ** r.randrange(1, 15))) + r.choice(["", "e%d" % r.randrange(1, 300), "e-%d" % r.randrange(1, 300)])

    def value(self, depth=0):
        """returns a tree: ('null',) ('bool',b) ('num',literal) ('str',s) ('arr',[..]) ('obj',[(k,v)..])"""
        r = self.r
        k = r.random()
        if depth >= self.max_depth:
            k = k * 0.7
        if k < 0.08:
            return ("null",)
        if k < 0.18:
            return ("bool", r.random() < 0.5)
        if k < 0.36:
            return ("num", self.int_literal())
        if k < 0.5:
            return ("num", self.float_literal())
        if k < 0.7:
            return ("str", self.string())
        n = r.choice([0, 1, 1, 2, 3, 4, 6])
        if k < 0.85:
            return ("arr", [self.value(depth + 1) for _ in range(n)])
        members = []
        for _ in range(n):
            if members and r.random() < 0.15:
                key = r.choice(members)[0]             # duplicate key
            elif members and r.random() < 0.15:
                key = r.choice(members)[0] + r.choice(["", "x", "\0", "\0b"])   # prefix-related keys
                if not self.allow_nul_keys:
                    key = key.replace("\0", "")
            else:
                key = self.string(key=True)
            members.append((key, self.value(depth + 1)))
        return ("obj", members)

    # --- rendering with free choices
    def ws(self):
        r = self.r
        if self.comments and r.random() < 0.12:
            body = bytes(r.choice(b"ab*/ \"'[]{},:1\\\n") for _ in range(r.randrange(0, 8)))
            if r.random() < 0.5:
                body = body.replace(b"*/", b"* /")
                while body.endswith(b"*"):      # "**/" is fine, but keep the terminator unambiguous for the oracle's stripper
                    body = body[:-1]
                return r.choice([b"", b" "]) + b"/*" + body + b"*/" + r.choice([b"", b"\n"])
            return b"//" + body.replace(b"\n", b" ") + b"\n"
        if r.random() < 0.6:
            return b""
        return b"".join(r.choice(WS) for _ in range(r.randrange(1, 4)))

    def render_string(self, s):
        r = self.r
        out = bytearray(b'"')
        for ch in s:
            cp = ord(ch)
            esc = {'"': b'\\"', "\\": b"\\\\", "\b": b"\\b", "\f": b"\\f", "\n": b"\\n", "\r": b"\\r", "\t": b"\\t", "/": b"\\/"}
            mode = r.random()
            if cp < 0x20 or ch in '"\\':
                if ch in esc and mode < 0.6:
                    out += esc[ch]
                else:
                    out += self.uesc(cp)
            elif ch == "/" and mode < 0.3:
                out += b"\\/"
            elif self.unicode_on and mode < 0.25:
                if cp >= 0x10000:
                    v = cp - 0x10000
                    out += self.uesc(0xD800 + (v >> 10)) + self.uesc(0xDC00 + (v & 0x3FF))
                else:
                    out += self.uesc(cp)
            else:
                out += ch.encode("utf-8")
        out += b'"'
        return bytes(out)

    def uesc(self, u):
        s = "%04x" % u
        s = "".join(c.upper() if self.r.random() < 0.5 else c for c in s)
        return b"\\u" + s.encode()

    def render(self, t):
        k = t[0]
        if k == "null":
            return b"null"
        if k == "bool":
            return b"true" if t[1] else b"false"
        if k == "num":
            return t[1].encode()
        if k == "str":
            return self.render_string(t[1])
        if k == "arr":
            if not t[1]:
                return b"[" + self.ws() + b"]"
            return b"[" + b",".join(self.ws() + self.render(x) + self.ws() for x in t[1]) + b"]"
        if k == "obj":
            if not t[1]:
                return b"{" + self.ws() + b"}"
            return b"{" + b",".join(self.ws() + self.render_string(kk) + self.ws() + b":" + self.ws() + self.render(v) + self.ws()
                                    for kk, v in t[1]) + b"}"
        raise ValueError(k)

    def document(self):
        t = self.value()
        tail = self.ws()
        if t[0] == "num" and tail[:1] == b"/":
            tail = b" " + tail      # a top-level number must be followed by whitespace or the end (C10's trailing rule)
        return t, self.ws() + self.render(t) + tail

def depth(t):
    if t[0] == "arr":
        return 1 + max([depth(x) for x in t[1]] + [0])
    if t[0] == "obj":
        return 1 + max([depth(v) for _, v in t[1]] + [0])
    return 0

# ------------------------------------------------------------------------------------------
# oracle: what the document must be, from the text, through Python's json module only

def lit_fraction(lit):
    """exact rational value of a JSON number literal"""
    s = lit.lower()
    neg = s.startswith("-")
    s = s.lstrip("+-")
    if "e" in s:
        m, e = s.split("e")
        e = int(e)
    else:
        m, e = s, 0
    if "." in m:
        a, b = m.split(".")
    else:
        a, b = m, ""
    ee = max(-200000, min(200000, e - len(b)))  # beyond this every comparison made here is already decided
    v = Fraction(int((a + b) or "0"), 1) * Fraction(10) ** ee
    return -v if neg else v

def sig_digits(lit):
    s = lit.lower().lstrip("+-")
    m = s.split("e")[0].replace(".", "").lstrip("0")
    return len(m)

def float_from_dump(d):
    if d in ("Fnan", "Dnan"):
        return float("nan")
    if d[0] == "F":
        return struct.unpack(">f", bytes.fromhex(d[1:]))[0]
    return struct.unpack(">d", bytes.fromhex(d[1:]))[0]

# ARDUINOJSON_USE_DOUBLE=0: the property's 1e-13 clause and its 1e-300..1e300 window presuppose doubles; with floats only
# the rule applied is: in the normal binary32 range a finite value within 3e-6 (dropped 8th digit + conversion),
# outside it infinity / zero / a subnormal of the right magnitude
FLOAT_ONLY = False

def check_number_float_only(lit, d, v):
    if d[0] != "F":
        return f"literal {lit} -> {d}, expected a float (doubles disabled)"
    x = float_from_dump(d)
    av = abs(v)
    if av == 0:
        return None if x == 0 else f"literal {lit} (zero) -> {x!r}"
    if math.isnan(x):
        return f"literal {lit} -> NaN"
    if x != 0 and not math.isinf(x) and (x < 0) != (v < 0):
        return f"literal {lit} -> wrong sign {x!r}"
    if Fraction(2) ** -126 <= av <= Fraction(3 * 10 ** 38):
        if math.isinf(x):
            return f"literal {lit} -> infinity"
        err = abs(Fraction(x) - v)
        return None if err <= Fraction(3, 10 ** 6) * av else f"literal {lit} -> {x!r}: relative error {float(err / av):.3g} > 3e-6 (float only)"
    if av > Fraction(3 * 10 ** 38):
        return None if math.isinf(x) or abs(Fraction(x) - v) <= Fraction(3, 10 ** 6) * av else f"literal {lit} -> {x!r}: wrong magnitude"
    return None if abs(x) < 1.2e-38 or abs(Fraction(x) - v) <= Fraction(3, 10 ** 6) * av else f"literal {lit} -> {x!r}: wrong magnitude"

def check_number(lit, d):
    """C01/C12 accuracy rule for one literal against the dumped number; returns None if fine or a
    message"""
    if FLOAT_ONLY:
        v0 = lit_fraction(lit)
        if not (all(c in "-0123456789" for c in lit) and -2 ** 63 <= v0 < 2 ** 64):
            return check_number_float_only(lit, d, v0)
    is_int_lit = all(c in "-0123456789" for c in lit)
    v = lit_fraction(lit)
    if is_int_lit and -2 ** 63 <= v < 2 ** 64:
        exp = "i%d" % int(v)
        return None if d == exp else f"integer literal {lit} -> {d}, expected {exp}"
    if d[0] not in "FD":
        return f"literal {lit} -> {d}, expected a floating-point value"
    x = float_from_dump(d)
    av = abs(v)
    if av == 0:
        return None if x == 0 else f"literal {lit} (zero) -> {x!r}"
    if math.isnan(x):
        return f"literal {lit} -> NaN"
    if Fraction(10) ** -300 <= av <= Fraction(10) ** 300:
        if math.isinf(x):
            return f"literal {lit} -> infinity"
        tol = Fraction(1, 10 ** 13) if sig_digits(lit) > 7 else Fraction(1, 10 ** 6)
        err = abs(Fraction(x) - v)
        if err > tol * av:
            return f"literal {lit} -> {x!r}: relative error {float(err / av):.3g} > {float(tol)}"
        if (x < 0) != (v < 0):
            return f"literal {lit} -> wrong sign {x!r}"
        return None
    if av > Fraction(10) ** 300:
        if math.isinf(x):
            return None if (x < 0) == (v < 0) else f"{lit}: infinity of the wrong sign"
    else:
        if x == 0:
            return None
    # finite result outside the guaranteed range: must still be of the right magnitude
    if math.isinf(x):
        return f"literal {lit} -> infinity"
    err = abs(Fraction(x) - v)
    if err > Fraction(1, 10 ** 6) * av and not (av < Fraction(10) ** -300 and abs(x) < 1e-300):
        return f"literal {lit} -> {x!r}: wrong magnitude"
    return None

def strip_comments(text):
    """remove /* */ and // comments outside strings (for the RFC oracle, which does not know them)"""
    out = bytearray()
    i, n = 0, len(text)
    while i < n:
        c = text[i:i + 1]
        if c == b'"':
            j = i + 1
            while j < n and text[j:j + 1] != b'"':
                j += 2 if text[j:j + 1] == b"\\" else 1
            out += text[i:j + 1]
            i = j + 1
        elif text[i:i + 2] == b"/*":
            j = text.find(b"*/", i + 2)
            if j < 0:
                raise ValueError("unterminated comment")
            out += b" "
            i = j + 2
        elif text[i:i + 2] == b"//":
            j = text.find(b"\n", i)
            if j < 0:
                raise ValueError("unterminated line comment")
            out += b" "
            i = j + 1
        else:
            out += c
            i += 1
    return bytes(out)

def expected_dump(text, comments=False):
    """canonical dump (with numbers as ('num', literal) holes) expected for a valid RFC 8259 text,
    computed with Python's json only. Returns a tree: str for fixed parts, ('num', lit)."""
    if comments:
        text = strip_comments(text)
    def pairs(ps):
        out = []   # first position, last value
        for k, v in ps:
            for i, (k2, _) in enumerate(out):
                if k2 == k:
                    out[i] = (k, v)
                    break
            else:
                out.append((k, v))
        return ("obj", out)
    class Lit(str):
        pass
    def no_const(c):
        raise ValueError("NaN/Infinity are not RFC 8259")
    v = json.loads(text.decode("utf-8", "surrogatepass"), object_pairs_hook=pairs, parse_float=Lit, parse_int=Lit,
                   parse_constant=no_const, strict=False)
    return v

def match_dump(exp, d):
    """compare the oracle's value with a dump string; returns (ok, message, rest_of_dump)"""
    for m in ("!OBS:", "!TYPED:", "!NESTED-DESTINATION-DIFFERS"):
        if m in d:      # the harness found two observers of the library disagreeing with each other
            return "observers of the library disagree with each other: " + d[d.index(m):][:80]
    p = Parser(d)
    try:
        msg = p.match(exp)
    except (ValueError, IndexError) as e:
        msg = f"unreadable dump at {p.i}: {e}"
    if msg is None and p.i != len(d):
        msg = "trailing dump"
    return msg

class Parser:
    def __init__(self, d):
        self.d = d
        self.i = 0
    def token(self):
        j = self.i
        while j < len(self.d) and self.d[j] not in ",]}:":
            j += 1
        t = self.d[self.i:j]
        self.i = j
        return t
    def match(self, exp):
        d = self.d
        if isinstance(exp, tuple) and exp[0] == "obj":
            if self.i >= len(d) or d[self.i] != "{":
                return f"expected object at {self.i}: {d[self.i:self.i+20]}"
            self.i += 1
            first = True
            for k, v in exp[1]:
                if not first:
                    if d[self.i] != ",":
                        return "missing member"
                    self.i += 1
                first = False
                kt = self.token()
                if kt != hx(k.encode("utf-8", "surrogatepass")):
                    return f"key {kt} expected {hx(k.encode('utf-8', 'surrogatepass'))}"
                if d[self.i] != ":":
                    return "missing colon"
                self.i += 1
                m = self.match(v)
                if m:
                    return m
            if self.i >= len(d) or d[self.i] != "}":
                return "extra members"
            self.i += 1
            return None
        if isinstance(exp, list):
            if self.i >= len(d) or d[self.i] != "[":
                return f"expected array at {self.i}"
            self.i += 1
            first = True
            for v in exp:
                if not first:
                    if d[self.i] != ",":
                        return "missing element"
                    self.i += 1
                first = False
                m = self.match(v)
                if m:
                    return m
            if self.i >= len(d) or d[self.i] != "]":
                return "extra elements"
            self.i += 1
            return None
        t = self.token()
        if exp is None:
            return None if t == "n" else f"expected null got {t}"
        if exp is True:
            return None if t == "t" else f"expected true got {t}"
        if exp is False:
            return None if t == "f" else f"expected false got {t}"
        if type(exp).__name__ == "Lit":
            return check_number(str(exp), t)
        if isinstance(exp, str):
            e = "s" + hx(exp.encode("utf-8", "surrogatepass"))
            return None if t == e else f"string {t} expected {e}"
        return f"unexpected oracle value {exp!r}"

# ------------------------------------------------------------------------------------------
# malformed / dialect streams

def mutate(rnd, text):
    k = rnd.random()
    b = bytearray(text)
    if not b:
        return bytes(b)
    if k < 0.3:
        return bytes(b[:rnd.randrange(len(b))])                    # truncation
    if k < 0.6:
        i = rnd.randrange(len(b))
        b[i] = rnd.choice(b'[]{},:"\'\\ \n0123456789eE+-.tfn/*\x00\xff' )
        return bytes(b)
    if k < 0.75:
        i = rnd.randrange(len(b))
        del b[i]
        return bytes(b)
    if k < 0.9:
        i = rnd.randrange(len(b) + 1)
        b[i:i] = bytes([rnd.choice(b'[]{},:"\'\\ 0eE+-.tfn/*\x00')])
        return bytes(b)
    return bytes(rnd.randrange(256) for _ in range(rnd.randrange(1, 12)))

def reuse_texts(rnd, n):
    """the string builder keeps its scratch buffer when a string turns out to be a duplicate (or a repeated key): valid texts
    made of strings whose lengths sit on the buffer's capacity steps, some of them repeated, so that a string is built in a
    buffer left over from a longer or shorter one"""
    out = []
    for _ in range(n):
        lens = [0, 1, 30, 31, 31, 31, 32, 33, 62, 63, 63, 64, 65, 126, 127, 128]
        strs, items = [], []
        for _ in range(rnd.randrange(3, 8)):
            if strs and rnd.random() < 0.4:
                t = rnd.choice(strs)
            else:
                t = "".join(rnd.choice("abcdefgh-_") for _ in range(rnd.choice(lens)))
                strs.append(t)
            items.append(t)
        form = rnd.randrange(3)
        if form == 0: text = "[" + ",".join('"%s"' % t for t in items) + "]"
        elif form == 1: text = "{" + ",".join('"%s":"%s"' % (t, rnd.choice(items)) for t in items) + "}"
        else: text = "[" + ",".join('{"%s":%d}' % (t, i) for i, t in enumerate(items)) + ',"' + rnd.choice(strs) + '"]'
        out.append(text.encode())
    return out

def boundary_json(rnd, n):
    """inputs aimed at the fixed-size edges inside the readers (the 64-byte number buffer, 4-byte keyword reads,
    string-builder growth steps, one-byte length fields), not at the grammar: compared model vs library only"""
    out = []
    digits = "0123456789"
    def numtok(k):
        form = rnd.randrange(9)
        d = lambda m: "".join(rnd.choice(digits) for _ in range(max(1, m)))
        if form == 0: t = rnd.choice("123456789") + d(k - 1)
        elif form == 1: t = "-" + rnd.choice("123456789") + d(k - 2)
        elif form == 2: t = "0." + d(k - 2)
        elif form == 3: t = d(k - 3) + "e" + d(2)
        elif form == 4: t = "1e" + "0" * (k - 3) + rnd.choice("123456789")
        elif form == 5: t = "1" + "0" * (k - 1)
        elif form == 6: t = "1." + "0" * (k - 3) + "1"
        elif form == 7: t = d(k // 2) + "." + d(k - k // 2 - 1)
        else: t = "".join(rnd.choice("0123456789+-.eE") for _ in range(k))
        return t[:k] if len(t) > k else t
    while len(out) < n:
        k = rnd.choice([60, 61, 62, 62, 63, 63, 63, 64, 64, 64, 65, 65, 66, 70, 100, 126, 127, 128, 129, 200, 300])
        tok = numtok(k)
        ctx = rnd.randrange(8)
        if ctx == 0: text = tok
        elif ctx == 1: text = "[" + tok + "]"
        elif ctx == 2: text = "[1," + tok + ",2]"
        elif ctx == 3: text = '{"a":' + tok + "}"
        elif ctx == 4: text = '{"a":' + tok + ',"b":' + numtok(rnd.choice([3, 63, 64])) + "}"
        elif ctx == 5: text = " " + tok + " "
        elif ctx == 6: text = "[" + tok                       # truncated right after the long token
        else: text = tok + rnd.choice([",", "]", " 1", "\x00", "x"])
        out.append(text.encode())
        if rnd.random() < 0.25:
            # strings and keys across the string-builder's growth steps and the one-byte length limit
            m = rnd.choice([30, 31, 32, 33, 63, 64, 65, 127, 128, 129, 254, 255, 256, 257, 511, 512, 513])
            body = "".join(rnd.choice("abcxyz") for _ in range(m))
            out.append(rnd.choice(['"%s"', '["%s"]', '{"%s":1}', '{"k":"%s"}', '["%s","%s"]'.replace("%s", "%s", 1)]).replace("%s", body).encode())
    k = len(out)
    for text in reuse_texts(rnd, max(20, n // 3)):
        out.insert(rnd.randrange(k + 1), text)
    return out[:n]

TOKENS = [b"[", b"]", b"{", b"}", b",", b":", b'"a"', b"'b'", b"k", b"1", b"-2.5e3", b"true", b"false", b"null",
          b" ", b"//c\n", b"/*c*/", b"NaN", b"Infinity", b"\x00", b"@", b'"', b"\\", b"0", b"-", b"1e", b"tru",
          b"/*", b"*", b"/"]

def token_sequences(max_len):
    """all token sequences up to max_len (bounded-exhaustive stream for C10)"""
    def rec(prefix, n):
        yield b"".join(prefix)
        if n == 0:
            return
        for t in TOKENS:
            yield from rec(prefix + [t], n - 1)
    yield from rec([], max_len)

def filters(rnd):
    """a random filter document, as JSON text"""
    def f(d):
        k = rnd.random()
        if d > 2:
            k *= 0.5
        if k < 0.25:
            return rnd.choice(["true", "true", "false", "null", "0", "1", "2", "1.0", '"x"', "1e0"])
        if k < 0.5:
            return "true"
        if k < 0.65:
            n = rnd.choice([0, 1, 1, 2])
            return "[" + ",".join(f(d + 1) for _ in range(n)) + "]"
        n = rnd.choice([0, 1, 2, 3])
        ks = []
        for _ in range(n):
            key = rnd.choice(["a", "b", "c", "*", "*", "ab", "", "a\\u0000b", "k", "x"])
            if key not in [k for k, _ in ks]:
                ks.append((key, f(d + 1)))
        return "{" + ",".join('"%s":%s' % (k, v) for k, v in ks) + "}"
    return f(0)
