"""gen_doc.py — documents as canonical dumps (the format shared by model driver and harness),
random generation aimed at boundaries, and independent oracles: a MessagePack codec written from
the format specification, JSON text comparison helpers."""
import math, random, struct
from fractions import Fraction

def hx(b):
    return b.hex() if b else "-"

def f32_bits(x):
    return struct.unpack(">I", struct.pack(">f", x))[0]
def f64_bits(x):
    return struct.unpack(">Q", struct.pack(">d", x))[0]
def bits_f32(b):
    return struct.unpack(">f", struct.pack(">I", b))[0]
def bits_f64(b):
    return struct.unpack(">d", struct.pack(">Q", b))[0]

# A document value in Python: None, bool, ('i', int), ('F', bits32), ('D', bits64), ('s', bytes), ('r', bytes),
# list, ('o', [(keybytes, value)...])

INT_BOUNDS = []
for p in (7, 8, 15, 16, 31, 32, 53, 63, 64):
    for d in (-2, -1, 0, 1, 2):
        INT_BOUNDS += [2 ** p + d, -(2 ** p) + d]
INT_BOUNDS = [z for z in INT_BOUNDS if -2 ** 63 <= z < 2 ** 64] + [0, 1, -1, 5, -5, 31, 32, -32, -33, 127, 128, -128, -129, 255, 256]

F32_SPECIAL = [0x00000000, 0x80000000, 0x3f800000, 0xbf800000, 0x7f7fffff, 0xff7fffff, 0x00000001, 0x00800000, 0x7f800000,
               0xff800000, 0x7fc00000, 0x3dcccccd, 0x4b000000, 0x4b800000, 0x4effffff, 0x4f000000, 0x5effffff, 0x5f000000,
               0xdf000000, 0x4cbebc20, 0x4b189680, 0x4b18967f, 0x3727c5ac, 0x3727c5ad, 0x42f6e979]
F64_SPECIAL = [0, 1 << 63, 0x3ff0000000000000, 0x7fefffffffffffff, 0xffefffffffffffff, 1, 0x0010000000000000,
               0x7ff0000000000000, 0xfff0000000000000, 0x7ff8000000000000, 0x3fb999999999999a, 0x400921fb54442d18,
               0x43dfffffffffffff, 0x43e0000000000000, 0x43efffffffffffff, 0x43f0000000000000, 0xc3e0000000000000,
               0xc3e0000000000001, 0x416312d000000000, 0x416312cfe0000000, 0x3ee4f8b588e368f1, 0x3ee4f8b588e368f0,
               0x4340000000000000, 0x433fffffffffffff, 0x47efffffe0000000, 0x47efffffe0000001, 0x36a0000000000000,
               0x3ff3c0ca428c59fb, 0x7e37e43c8800759c, 0x01a56e1fc2f8f359, 0x4197d78400000000, 0x3e7ad7f29abcaf48]

class DocGen:
    def __init__(self, rnd, max_depth=4, raw=True, nan=True, big_sizes=False, str_max=300):
        self.r = rnd
        self.max_depth = max_depth
        self.raw = raw
        self.nan = nan
        self.big = big_sizes
        self.str_max = str_max

    def bstring(self, key=False):
        r = self.r
        k = r.random()
        if k < 0.1:
            return b""
        if k < 0.3:
            n = r.choice([1, 15, 16, 30, 31, 32, 33, 255, 256, 257]) if not key else r.choice([1, 2, 31, 32])
            n = min(n, self.str_max)
            return bytes(r.choice(b"abcdefghijklmnopqrstuvwxyz") for _ in range(n))
        n = r.randrange(1, 12)
        if k < 0.6:
            return bytes(r.choice(b"abcxyz019 _\"\\/\b\f\n\r\t") for _ in range(n))
        return bytes(r.randrange(256) for _ in range(n))

    def scalar(self):
        r = self.r
        k = r.random()
        if k < 0.07:
            return None
        if k < 0.15:
            return r.random() < 0.5
        if k < 0.35:
            return ("i", r.choice(INT_BOUNDS))
        if k < 0.45:
            return ("i", r.randrange(-2 ** 63, 2 ** 64))
        if k < 0.55:
            b = r.choice(F32_SPECIAL)
            if not self.nan and b == 0x7fc00000:
                b = 0x3f800000
            return ("F", b)
        if k < 0.62:
            b = r.getrandbits(32)
            if (b >> 23) & 0xff == 0xff and b & 0x7fffff:
                b = 0x7fc00000 if self.nan else 0x3f800000
            return ("F", b)
        if k < 0.72:
            b = r.choice(F64_SPECIAL)
            if not self.nan and b == 0x7ff8000000000000:
                b = 0x3ff0000000000000
            return ("D", b)
        if k < 0.8:
            b = r.getrandbits(64)
            if (b >> 52) & 0x7ff == 0x7ff and b & ((1 << 52) - 1):
                b = 0x7ff8000000000000 if self.nan else 0x3ff0000000000000
            return ("D", b)
        if k < 0.86:
            # "human" doubles
            x = r.choice([0.1, 1.5, 3.14159, 1e7, 9999999.999, 1e-5, 1.00001e-5, 123456789.125, 1e21, 1.7976931348623157e308,
                          5e-324, 2.2250738585072014e-308, 0.000123, 1234567.0, 12345678.0, 0.5, 2.5, 1e100, 1e-100,
                          r.uniform(-1e6, 1e6), r.uniform(-1, 1) * 10 ** r.randrange(-300, 300)])
            return ("D", f64_bits(x))
        if k < 0.97 or not self.raw:
            return ("s", self.bstring())
        return ("r", r.choice([b"1", b"12", b"[1,2]", b"\"x\"", b"null", b"{\"a\":1}", b"1.50"]))

    def value(self, depth=0):
        r = self.r
        k = r.random()
        if depth >= self.max_depth or k < 0.55:
            return self.scalar()
        n = r.choice([0, 1, 2, 3, 5, 15, 16, 17]) if not self.big else r.choice([0, 1, 2, 15, 16, 17, 300])
        if depth > 1:
            n = min(n, 4)
        if k < 0.78:
            return [self.value(depth + 1) for _ in range(n)]
        ms = []
        seen = set()
        for _ in range(n):
            key = self.bstring(key=True)
            if ms and r.random() < 0.1:
                key = ms[0][0] + r.choice([b"", b"x", b"\0", b"\0b"])
            if key in seen:
                continue
            seen.add(key)
            ms.append((key, self.value(depth + 1)))
        return ("o", ms)

def dump(v):
    if v is None:
        return "n"
    if v is True:
        return "t"
    if v is False:
        return "f"
    if isinstance(v, list):
        return "[" + ",".join(dump(x) for x in v) + "]"
    t = v[0]
    if t == "i":
        return "i%d" % v[1]
    if t == "F":
        return "Fnan" if (v[1] >> 23) & 0xff == 0xff and v[1] & 0x7fffff else "F%08x" % v[1]
    if t == "D":
        return "Dnan" if (v[1] >> 52) & 0x7ff == 0x7ff and v[1] & ((1 << 52) - 1) else "D%016x" % v[1]
    if t == "s":
        return "s" + hx(v[1])
    if t == "r":
        return "r" + hx(v[1])
    if t == "o":
        return "{" + ",".join(hx(k) + ":" + dump(x) for k, x in v[1]) + "}"
    raise ValueError(v)

def parse_dump(d):
    """dump string -> python value (inverse of dump)"""
    pos = [0]
    def token():
        j = pos[0]
        while j < len(d) and d[j] not in ",]}:":
            j += 1
        t = d[pos[0]:j]
        pos[0] = j
        return t
    def val():
        c = d[pos[0]]
        if c == "[":
            pos[0] += 1
            out = []
            if d[pos[0]] == "]":
                pos[0] += 1
                return out
            while True:
                out.append(val())
                c2 = d[pos[0]]
                pos[0] += 1
                if c2 == "]":
                    return out
        if c == "{":
            pos[0] += 1
            out = []
            if d[pos[0]] == "}":
                pos[0] += 1
                return ("o", out)
            while True:
                k = token()
                k = b"" if k == "-" else bytes.fromhex(k)
                pos[0] += 1
                out.append((k, val()))
                c2 = d[pos[0]]
                pos[0] += 1
                if c2 == "}":
                    return ("o", out)
        t = token()
        if t == "n":
            return None
        if t == "t":
            return True
        if t == "f":
            return False
        if t == "Fnan":
            return ("F", 0x7fc00000)
        if t == "Dnan":
            return ("D", 0x7ff8000000000000)
        k, rest = t[0], t[1:]
        if k == "i":
            return ("i", int(rest))
        if k == "F":
            return ("F", int(rest, 16))
        if k == "D":
            return ("D", int(rest, 16))
        if k in "sr":
            return (k, b"" if rest == "-" else bytes.fromhex(rest))
        raise ValueError(t)
    return val()

def num_value(v):
    """exact value (Fraction / float nan/inf) of a numeric doc value"""
    if v[0] == "i":
        return Fraction(v[1])
    x = bits_f32(v[1]) if v[0] == "F" else bits_f64(v[1])
    if math.isnan(x) or math.isinf(x):
        return x
    return Fraction(x)

# ------------------------------------------------------------------------------------------
# MessagePack, written from the format specification (independent of the library and the model)

class MPError(Exception):
    pass

def mp_decode(b, pos=0):
    """decode one object; returns (value, next_pos). Values: None/bool/('i',z)/('F',bits)/('D',bits)/('s',bytes)/
    ('bin',bytes)/('ext',type,bytes)/list/('o',pairs); raises MPError('incomplete'|'invalid')"""
    def need(n):
        if pos_[0] + n > len(b):
            raise MPError("incomplete")
        r = b[pos_[0]:pos_[0] + n]
        pos_[0] += n
        return r
    pos_ = [pos]
    c = need(1)[0]
    def uint(n):
        return int.from_bytes(need(n), "big")
    def sint(n):
        return int.from_bytes(need(n), "big", signed=True)
    if c <= 0x7f:
        v = ("i", c)
    elif c >= 0xe0:
        v = ("i", c - 256)
    elif 0x80 <= c <= 0x8f:
        v = _map(b, pos_, c & 15)
    elif 0x90 <= c <= 0x9f:
        v = _arr(b, pos_, c & 15)
    elif 0xa0 <= c <= 0xbf:
        v = ("s", need(c & 31))
    elif c == 0xc0:
        v = None
    elif c == 0xc1:
        raise MPError("invalid")
    elif c == 0xc2:
        v = False
    elif c == 0xc3:
        v = True
    elif c in (0xc4, 0xc5, 0xc6):
        v = ("bin", need(uint(1 << (c - 0xc4))))
    elif c in (0xc7, 0xc8, 0xc9):
        n = uint(1 << (c - 0xc7))
        t = need(1)[0]
        v = ("ext", t, need(n))
    elif c == 0xca:
        v = ("F", uint(4))
    elif c == 0xcb:
        v = ("D", uint(8))
    elif 0xcc <= c <= 0xcf:
        v = ("i", uint(1 << (c - 0xcc)))
    elif 0xd0 <= c <= 0xd3:
        v = ("i", sint(1 << (c - 0xd0)))
    elif 0xd4 <= c <= 0xd8:
        t = need(1)[0]
        v = ("ext", t, need(1 << (c - 0xd4)))
    elif c in (0xd9, 0xda, 0xdb):
        v = ("s", need(uint(1 << (c - 0xd9))))
    elif c in (0xdc, 0xdd):
        v = _arr(b, pos_, uint(2 if c == 0xdc else 4))
    elif c in (0xde, 0xdf):
        v = _map(b, pos_, uint(2 if c == 0xde else 4))
    else:
        raise MPError("invalid")
    return v, pos_[0]

def _arr(b, pos_, n):
    out = []
    for _ in range(n):
        v, pos_[0] = mp_decode(b, pos_[0])
        out.append(v)
    return out

def _map(b, pos_, n):
    out = []
    for _ in range(n):
        k, pos_[0] = mp_decode(b, pos_[0])
        v, pos_[0] = mp_decode(b, pos_[0])
        out.append((k, v))
    return ("o", out)

def mp_encode(v, rnd=None):
    """encode with random legal (possibly non-minimal) widths when rnd is given, minimal otherwise.
    v uses the decode vocabulary."""
    def pick(options):
        return options[0] if rnd is None else rnd.choice(options)
    if v is None:
        return b"\xc0"
    if v is True:
        return b"\xc3"
    if v is False:
        return b"\xc2"
    if isinstance(v, list):
        n = len(v)
        opts = []
        if n < 16:
            opts.append(bytes([0x90 + n]))
        if n < 65536:
            opts.append(b"\xdc" + n.to_bytes(2, "big"))
        opts.append(b"\xdd" + n.to_bytes(4, "big"))
        return pick(opts) + b"".join(mp_encode(x, rnd) for x in v)
    t = v[0]
    if t == "o":
        n = len(v[1])
        opts = []
        if n < 16:
            opts.append(bytes([0x80 + n]))
        if n < 65536:
            opts.append(b"\xde" + n.to_bytes(2, "big"))
        opts.append(b"\xdf" + n.to_bytes(4, "big"))
        return pick(opts) + b"".join(mp_encode(k, rnd) + mp_encode(x, rnd) for k, x in v[1])
    if t == "i":
        z = v[1]
        opts = []
        if 0 <= z <= 127:
            opts.append(bytes([z]))
        if -32 <= z < 0:
            opts.append(bytes([z + 256]))
        for w, code in ((1, 0xcc), (2, 0xcd), (4, 0xce), (8, 0xcf)):
            if 0 <= z < 2 ** (8 * w):
                opts.append(bytes([code]) + z.to_bytes(w, "big"))
        for w, code in ((1, 0xd0), (2, 0xd1), (4, 0xd2), (8, 0xd3)):
            if -2 ** (8 * w - 1) <= z < 2 ** (8 * w - 1):
                opts.append(bytes([code]) + z.to_bytes(w, "big", signed=True))
        return pick(opts)
    if t == "F":
        return b"\xca" + v[1].to_bytes(4, "big")
    if t == "D":
        return b"\xcb" + v[1].to_bytes(8, "big")
    if t == "s":
        n = len(v[1])
        opts = []
        if n < 32:
            opts.append(bytes([0xa0 + n]))
        if n < 256:
            opts.append(b"\xd9" + bytes([n]))
        if n < 65536:
            opts.append(b"\xda" + n.to_bytes(2, "big"))
        opts.append(b"\xdb" + n.to_bytes(4, "big"))
        return pick(opts) + v[1]
    if t == "bin":
        n = len(v[1])
        opts = []
        if n < 256:
            opts.append(b"\xc4" + bytes([n]))
        if n < 65536:
            opts.append(b"\xc5" + n.to_bytes(2, "big"))
        opts.append(b"\xc6" + n.to_bytes(4, "big"))
        return pick(opts) + v[1]
    if t == "ext":
        n = len(v[2])
        opts = []
        if n in (1, 2, 4, 8, 16):
            opts.append(bytes([0xd4 + (1, 2, 4, 8, 16).index(n), v[1]]))
        if n < 256:
            opts.append(b"\xc7" + bytes([n, v[1]]))
        if n < 65536:
            opts.append(b"\xc8" + n.to_bytes(2, "big") + bytes([v[1]]))
        opts.append(b"\xc9" + n.to_bytes(4, "big") + bytes([v[1]]))
        return pick(opts) + v[2]
    raise ValueError(v)

def mp_header(kind, n, rnd=None):
    """array ('a') or map ('m') header for n entries, random legal width when rnd is given"""
    fix, c16, c32 = (0x90, 0xdc, 0xdd) if kind == "a" else (0x80, 0xde, 0xdf)
    opts = []
    if n < 16:
        opts.append(bytes([fix + n]))
    if n < 65536:
        opts.append(bytes([c16]) + n.to_bytes(2, "big"))
    opts.append(bytes([c32]) + n.to_bytes(4, "big"))
    return opts[0] if rnd is None else rnd.choice(opts)

def mp_view(v):
    """what serializeMsgPack is REQUIRED to denote for document value v (C08): an integral float that is
    exactly an int64 may be written as that integer; a double that survives narrowing may be written as float32"""
    return v

def same_number(a, b):
    """numeric equality by value of two numeric doc values (ints/floats), NaN equal to NaN"""
    x, y = num_value(a), num_value(b)
    if isinstance(x, float) or isinstance(y, float):
        if isinstance(x, float) and isinstance(y, float):
            return (math.isnan(x) and math.isnan(y)) or x == y
        return False
    return x == y

def mp_equiv(doc, dec, exact_kind_for_nonintegral=True):
    """does the decoded MessagePack value `dec` denote document value `doc` (C08 rules)? returns None or message"""
    if doc is None or doc is True or doc is False:
        return None if dec is doc else f"{dec!r} for {doc!r}"
    if isinstance(doc, list):
        if not isinstance(dec, list) or len(dec) != len(doc):
            return "array shape"
        for a, b in zip(doc, dec):
            m = mp_equiv(a, b)
            if m:
                return m
        return None
    t = doc[0]
    if t == "o":
        if not (isinstance(dec, tuple) and dec[0] == "o") or len(dec[1]) != len(doc[1]):
            return "map shape"
        for (k, a), (k2, b) in zip(doc[1], dec[1]):
            if k2 != ("s", k):
                return f"key {k2!r} for {k!r}"
            m = mp_equiv(a, b)
            if m:
                return m
        return None
    if t == "s":
        return None if dec == ("s", doc[1]) else f"{dec!r} for string {doc[1]!r}"
    if t == "i":
        return None if dec == ("i", doc[1]) else f"{dec!r} for integer {doc[1]}"
    if t in "FD":
        x = num_value(doc)
        if not isinstance(dec, tuple) or dec[0] not in "iFD":
            return f"{dec!r} for float"
        if dec[0] == "i":
            # allowed only when the value is integral and exactly that integer
            if isinstance(x, float) or x.denominator != 1 or int(x) != dec[1]:
                return f"integer {dec[1]} for float {x!r}"
            return None
        if not same_number(doc, dec):
            return f"float {dec!r} for {doc!r}"
        # bit-exact as float32 or float64: sign of zero must survive unless written as integer
        if not isinstance(x, float) and x == 0:
            db = doc[1] >> (31 if t == "F" else 63)
            eb = dec[1] >> (31 if dec[0] == "F" else 63)
            if db != eb:
                return "sign of zero lost"
        return None
    return f"unhandled {doc!r}"

def mp_minimal_violation(b):
    """checks that every header in a serializer output uses the narrowest legal form; returns message or None"""
    try:
        v, end = mp_decode(b)
    except MPError as e:
        return "undecodable: %s" % e
    if end != len(b):
        return "trailing bytes"
    def conv(v):
        if isinstance(v, list):
            return [conv(x) for x in v]
        if isinstance(v, tuple) and v[0] == "o":
            return ("o", [(conv(k), conv(x)) for k, x in v[1]])
        return v
    if mp_encode(conv(v)) != b:
        return "not the minimal encoding"
    return None

# ------------------------------------------------------------------------------------------
def strip_json_ws(text):
    """remove whitespace outside string literals (for pretty vs compact comparison)"""
    out = bytearray()
    i, n = 0, len(text)
    ins = False
    while i < n:
        c = text[i]
        if ins:
            out.append(c)
            if c == 0x5c and i + 1 < n:
                out.append(text[i + 1])
                i += 1
            elif c == 0x22:
                ins = False
        else:
            if c == 0x22:
                ins = True
                out.append(c)
            elif c not in b" \t\r\n":
                out.append(c)
        i += 1
    return bytes(out)
