"""translate.py — tie T: regenerates coq/theories/Gen/*.v from /repo's current sources.

Two mechanisms, both re-run whenever the sources change (cached on their content hash):
 * a probe program compiled against /repo/src that evaluates leaf functions of the library on
   their COMPLETE finite domain (256 chars, 65536 code units) and prints configuration constants;
   the result is emitted as Gallina tables (run-length encoded where large);
 * a reader of the source text for the powers-of-ten tables (so that their length is known).
The hand-written model never restates these; Proofs/GenAgree.v proves (by computation over the
whole domain) that each model function coincides with its regenerated table."""
import hashlib, os, re, subprocess, sys

PROBE = r'''
#include <cstdio>
#include <cstring>
#include <cstdint>
#include <string>
#include <sstream>
#include <istream>
#include <ostream>
#define private public
#define protected public
#include <ArduinoJson.h>
using namespace ArduinoJson;
using namespace ArduinoJson::detail;
struct SW { std::string* o; size_t write(uint8_t c){o->push_back((char)c);return 1;} size_t write(const uint8_t*p,size_t n){o->append((const char*)p,n);return n;} };
typedef JsonDeserializer<Reader<const char*>> JD;
template<class F> static void rle16(const char* name, F f){
  printf("RLE %s", name); bool cur=false;
  for (uint32_t u=0; u<=65536; u++){ bool v = u<65536 ? f((uint16_t)u) : false; if (v!=cur){ printf(" %u", u); cur=v; } }
  printf("\n");
}
int main(){
  printf("TAB256 escape_char"); for(int c=0;c<256;c++) printf(" %u",(unsigned)(unsigned char)EscapeSequence::escapeChar((char)c)); printf("\n");
  printf("TAB256 unescape_char"); for(int c=0;c<256;c++) printf(" %u",(unsigned)(unsigned char)(c==0?0:EscapeSequence::unescapeChar((char)c))); printf("\n");
  printf("TAB256 can_be_in_number"); for(int c=0;c<256;c++) printf(" %u",(unsigned)JD::canBeInNumber((char)c)); printf("\n");
  printf("TAB256 can_be_in_non_quoted_string"); for(int c=0;c<256;c++) printf(" %u",(unsigned)JD::canBeInNonQuotedString((char)c)); printf("\n");
  printf("TAB256 is_quote"); for(int c=0;c<256;c++) printf(" %u",(unsigned)JD::isQuote((char)c)); printf("\n");
  printf("TAB256 decode_hex"); for(int c=0;c<256;c++) printf(" %u",(unsigned)JD::decodeHex((char)c)); printf("\n");
  rle16("is_high_surrogate", [](uint16_t u){return Utf16::isHighSurrogate(u);});
  rle16("is_low_surrogate", [](uint16_t u){return Utf16::isLowSurrogate(u);});
  printf("LTAB256 write_char"); for(int c=0;c<256;c++){ std::string o; TextFormatter<SW> tf(SW{&o}); tf.writeChar((char)c); printf(" ["); for(size_t i=0;i<o.size();i++) printf("%s%u", i?";":"", (unsigned)(unsigned char)o[i]); printf("]"); } printf("\n");
  printf("CONST default_nesting_limit %d\n", (int)ARDUINOJSON_DEFAULT_NESTING_LIMIT);
  printf("CONST number_buffer_size %u\n", (unsigned)sizeof(((JD*)0)->buffer_));
  printf("CONST string_builder_initial_capacity %u\n", (unsigned)StringBuilder::initialCapacity);
  printf("CONST mantissa_bits_64 %d\n", (int)FloatTraits<double>::mantissa_bits);
  printf("CONST exponent_max_64 %d\n", (int)FloatTraits<double>::exponent_max);
  printf("CONST mantissa_bits_32 %d\n", (int)FloatTraits<float>::mantissa_bits);
  printf("CONST exponent_max_32 %d\n", (int)FloatTraits<float>::exponent_max);
  printf("CONST sizeof_exponent_type_64 %u\n", (unsigned)sizeof(FloatTraits<double>::exponent_type));
  printf("CONST sizeof_exponent_type_32 %u\n", (unsigned)sizeof(FloatTraits<float>::exponent_type));
  { double d = ARDUINOJSON_POSITIVE_EXPONENTIATION_THRESHOLD; uint64_t b; memcpy(&b,&d,8); printf("CONST pos_exp_threshold_bits %llu\n",(unsigned long long)b); }
  { double d = ARDUINOJSON_NEGATIVE_EXPONENTIATION_THRESHOLD; uint64_t b; memcpy(&b,&d,8); printf("CONST neg_exp_threshold_bits %llu\n",(unsigned long long)b); }
  { const char* t = ARDUINOJSON_TAB; printf("BYTES tab"); for(;*t;t++) printf(" %u",(unsigned)(unsigned char)*t); printf("\n"); }
  printf("CONST slot_id_size %d\n", (int)ARDUINOJSON_SLOT_ID_SIZE);
  printf("CONST pool_capacity %d\n", (int)ARDUINOJSON_POOL_CAPACITY);
  printf("CONST initial_pool_count %d\n", (int)ARDUINOJSON_INITIAL_POOL_COUNT);
  printf("CONST string_length_size %d\n", (int)ARDUINOJSON_STRING_LENGTH_SIZE);
  printf("CONST null_slot %llu\n", (unsigned long long)NULL_SLOT);
  printf("CONST sizeof_slot %u\n", (unsigned)ResourceManager::slotSize);
  printf("CONST string_node_overhead %u\n", (unsigned)offsetof(StringNode, data));
  printf("CONST string_node_maxlength %llu\n", (unsigned long long)StringNode::maxLength);
#define HF(T,TO,name) { T v = FloatTraits<T>::template highest_for<TO>(); uint64_t b=0; memcpy(&b,&v,sizeof v); printf("CONST " name " %llu\n",(unsigned long long)b); }
  HF(double,int64_t,"highest_for_f64_i64") HF(double,uint64_t,"highest_for_f64_u64")
  HF(float,int32_t,"highest_for_f32_i32") HF(float,uint32_t,"highest_for_f32_u32")
  HF(float,int64_t,"highest_for_f32_i64") HF(float,uint64_t,"highest_for_f32_u64")
  return 0;
}
'''

def _tables_from_source(repo):
    """the four powers-of-ten tables, read from the text of FloatTraits.hpp"""
    txt = open(os.path.join(repo, "src/ArduinoJson/Numbers/FloatTraits.hpp")).read()
    out = {}
    # split at the 4-byte specialisation
    i32 = txt.index("struct FloatTraits<T, 4")
    parts = {"64": txt[:i32], "32": txt[i32:]}
    for w, t in parts.items():
        for sign, fn in (("pos", "positiveBinaryPowersOfTen"), ("neg", "negativeBinaryPowersOfTen")):
            m = re.search(fn + r"\(\)\s*\{.*?\{(.*?)\}\s*\)\s*;", t, re.S)
            if not m:
                raise RuntimeError("UNSUPPORTED table " + fn + w)
            body = re.sub(r"//[^\n]*", "", m.group(1))
            vals = re.findall(r"0x[0-9A-Fa-f]+", body)
            out[f"{sign}_pow10_{w}"] = [int(v, 16) for v in vals]
    return out

def _inventory(repo, builddir):
    """objects with static storage duration defined by the library: (a) symbols of an object file that instantiates
    the library broadly, with the section they live in; (b) declarations in the source text. Returns list of
    (description, writable)"""
    import glob
    here = os.path.dirname(os.path.dirname(os.path.abspath(__file__)))
    inv = []
    objs = []
    for src in ("inventory_probe.cpp", "text_h.cpp", "num_h.cpp"):
        obj = os.path.join(builddir, "inv_" + src.replace(".cpp", ".o"))
        p = subprocess.run(f"g++ -std=c++17 -O0 -w -c -DVERIF_INVENTORY_BUILD -I{repo}/src -I{repo}/extras/tests/Helpers -I{here}/harness {here}/harness/{src} -o {obj}", shell=True,
                           stdout=subprocess.PIPE, stderr=subprocess.STDOUT, text=True, timeout=300)
        if p.returncode != 0:
            raise RuntimeError("UNSUPPORTED inventory probe does not compile: " + p.stdout[-1500:])
        objs.append(obj)
    seen = set()
    for obj in objs:
        out = subprocess.run(["objdump", "-t", "-C", obj], stdout=subprocess.PIPE, text=True, timeout=120).stdout
        for line in out.split("\n"):
            m = re.match(r"^[0-9a-f]+\s+(.{7})\s+(\S+)\s+[0-9a-f]+\s+(.*)$", line)
            if not m:
                continue
            flags, section, name = m.groups()
            if "O" not in flags or "ArduinoJson" not in name:
                continue
            name = re.sub(r"V[0-9][0-9A-Z]{3,}::", "", name).replace(".hidden ", "").strip()
            sec = section.split("._Z")[0]
            writable = sec.startswith((".bss", ".data", ".tbss", ".tdata")) and not sec.startswith(".data.rel.ro")
            if (name, writable) not in seen:
                seen.add((name, writable))
                inv.append((name, writable))
    # (b) declarations in the source text that introduce static storage (function-level or class-level `static`
    # data, thread_local, namespace-scope variables, `mutable` members)
    pat_static = re.compile(r"^\s*static\s+(?!inline\b|const\b|constexpr\b|_assert)[\w:<>,\s\*&]+?\b(\w+)\s*(\[[^\]]*\])?\s*(=[^;]*)?;")
    pat_tl = re.compile(r"\bthread_local\b")
    pat_mut = re.compile(r"^\s*mutable\b")
    for path in sorted(glob.glob(os.path.join(repo, "src", "**", "*.hpp"), recursive=True)):
        rel = os.path.relpath(path, repo)
        for ln, line in enumerate(open(path, errors="replace"), 1):
            code = line.split("//")[0]
            if "(" in code.split("=")[0] and ")" in code:
                continue            # a function declaration
            if pat_static.match(code) or pat_tl.search(code) or pat_mut.match(code):
                # `T const name[...]` / `T const name =` / constexpr: immutable
                const = bool(re.search(r"\bconst\s+\w+\s*(\[|=|;)", code)) or "constexpr" in code
                inv.append((f"{rel}: {code.strip()[:80]}", not const))
    return inv

def _zlist(vals):
    return "[" + "; ".join(str(v) for v in vals) + "]"

def run(repo, gendir, builddir):
    os.makedirs(gendir, exist_ok=True)
    os.makedirs(builddir, exist_ok=True)
    log = []
    try:
        import vlib
        here = os.path.dirname(os.path.dirname(os.path.abspath(__file__)))
        extra = "".join(open(os.path.join(here, "harness", f)).read() for f in ("inventory_probe.cpp", "text_h.cpp", "num_h.cpp", "common.hpp"))
        key = hashlib.sha256((vlib.repo_hash() + PROBE + open(__file__).read() + extra).encode()).hexdigest()[:16]
        stamp = os.path.join(builddir, "gen-" + key + ".json")
        if os.path.exists(stamp):
            import json
            cached = json.load(open(stamp))
            for name, content in cached.items():
                p = os.path.join(gendir, name)
                old = open(p).read() if os.path.exists(p) else None
                if old != content:
                    open(p, "w").write(content)
                    log.append(f"translator: {name} rewritten (from cache)")
            return True, "translator: cached\n" + "\n".join(log) + "\n"
        outs = {}
        for tag, flags in (("default", ""), ("nan", "-DARDUINOJSON_ENABLE_NAN=1")):
            src = os.path.join(builddir, f"probe_{tag}.cpp")
            exe = os.path.join(builddir, f"probe_{tag}")
            open(src, "w").write(PROBE)
            p = subprocess.run(f"g++ -std=c++17 -O0 -w {flags} -I{repo}/src {src} -o {exe}", shell=True,
                               stdout=subprocess.PIPE, stderr=subprocess.STDOUT, text=True, timeout=300)
            if p.returncode != 0:
                return False, "UNSUPPORTED probe does not compile\n" + p.stdout[-3000:]
            r = subprocess.run([exe], stdout=subprocess.PIPE, text=True, timeout=60)
            if r.returncode != 0:
                return False, "probe failed"
            outs[tag] = r.stdout
        tables = _tables_from_source(repo)
        L = ["(* GENERATED by tools/translate.py from /repo — do not edit *)",
             "From Coq Require Import ZArith NArith List.", "Import ListNotations.", "Local Open Scope N_scope.", ""]
        for line in outs["default"].split("\n"):
            f = line.split(" ")
            if f[0] == "TAB256":
                L.append(f"Definition gen_{f[1]} : list N := {_zlist(f[2:])}.")
            elif f[0] == "RLE":
                L.append(f"Definition gen_{f[1]}_edges : list N := {_zlist(f[2:])}.")
            elif f[0] == "LTAB256":
                L.append(f"Definition gen_{f[1]} : list (list N) := [" + "; ".join(f[2:]) + "].")
            elif f[0] == "BYTES":
                L.append(f"Definition gen_{f[1]} : list N := {_zlist(f[2:])}.")
        for line in outs["nan"].split("\n"):
            f = line.split(" ")
            if f[0] == "TAB256" and f[1] == "can_be_in_number":
                L.append(f"Definition gen_can_be_in_number_nan : list N := {_zlist(f[2:])}.")
        L.append("Local Open Scope Z_scope.")
        for k, v in sorted(tables.items()):
            L.append(f"Definition gen_{k} : list Z := {_zlist(v)}.")
        new_tables = "\n".join(L) + "\n"
        C = ["(* GENERATED by tools/translate.py from /repo — do not edit *)",
             "From Coq Require Import ZArith.", "Local Open Scope Z_scope.", ""]
        for line in outs["default"].split("\n"):
            f = line.split(" ")
            if f[0] == "CONST":
                C.append(f"Definition gen_{f[1]} : Z := {f[2]}.")
        # facts read from the source TEXT (a literal inside a function body that no probe can observe)
        jd = open(os.path.join(repo, "src", "ArduinoJson", "Json", "JsonDeserializer.hpp"), errors="replace").read()
        m = re.search(r"canBeInNumber\(c\)\s*&&\s*n\s*<\s*(\d+)\s*\)", jd)
        C.append("(* parseNumericValue: `while (canBeInNumber(c) && n < K)` — K read from the source text; -1 = not of that form any more *)")
        C.append(f"Definition gen_number_token_limit : Z := {m.group(1) if m else '(-1)'}.")
        sbh = open(os.path.join(repo, "src", "ArduinoJson", "Memory", "StringBuilder.hpp"), errors="replace").read()
        m1 = re.search(r"initialCapacity\s*=\s*(\d+)\s*;", sbh)
        m2 = re.search(r"resizeString\(node_,\s*size_\s*\*\s*(\d+)U?\s*\+\s*(\d+)\)", sbh)
        C.append("(* StringBuilder: `initialCapacity = K` and the growth step `resizeString(node_, size_ * A + B)` read from the source text; -1 = not of that form any more *)")
        C.append(f"Definition gen_sb_initial_capacity : Z := {m1.group(1) if m1 else '(-1)'}.")
        C.append(f"Definition gen_sb_growth_mul : Z := {m2.group(1) if m2 else '(-1)'}.")
        C.append(f"Definition gen_sb_growth_add : Z := {m2.group(2) if m2 else '(-1)'}.")
        new_cfg = "\n".join(C) + "\n"
        inv = _inventory(repo, builddir)
        G = ["(* GENERATED by tools/translate.py from /repo — do not edit *)",
             "From Coq Require Import String List Bool.", "Import ListNotations.", "Local Open Scope string_scope.", "",
             "(* every object with static storage duration the library defines: (symbol or declaration, writable) *)",
             "Definition gen_inventory : list (string * bool) :=",
             "  [" + ";\n   ".join('("%s", %s)' % (n.replace('"', "'"), "true" if w else "false") for n, w in inv) + "]."]
        new_glob = "\n".join(G) + "\n"
        for name, content in (("Tables.v", new_tables), ("Config.v", new_cfg), ("Globals.v", new_glob)):
            p = os.path.join(gendir, name)
            old = open(p).read() if os.path.exists(p) else None
            if old != content:
                open(p, "w").write(content)
                log.append(f"translator: {name} rewritten")
        import json
        json.dump({"Tables.v": new_tables, "Config.v": new_cfg, "Globals.v": new_glob}, open(stamp, "w"))
        return True, "\n".join(log) + "\n"
    except Exception as e:  # noqa
        return False, f"UNSUPPORTED translator error: {e!r}\n"

if __name__ == "__main__":
    sys.path.insert(0, os.path.dirname(os.path.abspath(__file__)))
    import vlib
    ok, lg = run(vlib.REPO, os.path.join(vlib.COQ, "theories", "Gen"), vlib.BUILD)
    print(ok, lg)
