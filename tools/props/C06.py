"""C06 — every block comes from and returns to the user's allocator exactly once."""
import random
import vlib, histcheck, jsonchecks, gen_json, gen_doc
from gen_json import hx
from props import C09, C03

def script_reuse(n, m):
    s = "toarr 0 @0 ;; " + "".join(f"addval 0 i{i} @0 ;; " for i in range(n))
    s += "".join("rmidx 0 0 @0 ;; " for _ in range(m))
    s += "".join(f"addval 0 i{100 + i} @0 ;; " for i in range(m))
    return s, n, m

def script_churn(value, n, rounds):
    """steady state: n values, then `rounds` times remove-one/add-one and overwrite/restore of a value that needs more than
    its own slot (a double or a 64-bit integer is held in an extension slot): no allocator call may happen after the fill"""
    s = "toarr 0 @0 ;; " + "".join(f"addval 0 {value} @0 ;; " for _ in range(n))
    for r in range(rounds):
        s += f"rmidx 0 0 @0 ;; addval 0 {value} @0 ;; setelem 0 {r % n} i7 @0 ;; setelem 0 {r % n} {value} @0 ;; "
    return s, 1 + n

def script_dedup(users, text):
    h = hx(text)
    s = "toarr 0 @0 ;; " + "".join(f"addval 0 s{h} @0 ;; " for _ in range(users))
    s += "".join("rmidx 0 0 @0 ;; " for _ in range(users))
    return s

def sb_scripts(rnd, n, maxlen):
    """sequences of strings through one reused StringBuilder: lengths on the builder's capacity steps (31, 63, 127, ...) and on the
    length limit, duplicates (the scratch node is then kept for the next string), dereferences, allocator answers"""
    hxs = lambda b: b.hex() if b else "-"
    out = []
    edge = [0, 1, 30, 31, 31, 32, 62, 63, 64, 126, 127, 128, 254, 255, 256, 511, 512]
    if maxlen < 70000:
        edge += [maxlen - 1, maxlen, maxlen + 1]
    for _ in range(n):
        strs, ops = [], []
        for _ in range(rnd.randrange(2, 10)):
            k = rnd.random()
            if strs and k < 0.35:
                ops.append("s" + hxs(rnd.choice(strs)))                      # a duplicate: found in the pool
            elif strs and k < 0.5:
                ops.append("d" + hxs(rnd.choice(strs)))                      # one user less
            else:
                ln = rnd.choice(edge) if rnd.random() < 0.8 else rnd.randrange(0, 300)
                t = bytes(rnd.choice(b"abcdef\x00\xff") for _ in range(ln))
                strs.append(t)
                ops.append("s" + hxs(t))
        ans = "-" if rnd.random() < 0.4 else "".join(rnd.choice("1110") for _ in range(rnd.randrange(1, 14)))
        out.append((ans, ops))
    return out

def check(run):
    rnd = random.Random(run.seed * 295075147 + 6)
    thorough = run.tier == "thorough"
    ok, info = vlib.proof_stage(run, "C06")
    model = vlib.need_model()
    cfg = "10001"
    oracle_fail, all_mism = [], []
    geoms = [{}, {"ARDUINOJSON_POOL_CAPACITY": 4, "ARDUINOJSON_INITIAL_POOL_COUNT": 1}, {"ARDUINOJSON_SLOT_ID_SIZE": 1, "ARDUINOJSON_POOL_CAPACITY": 8, "ARDUINOJSON_INITIAL_POOL_COUNT": 2},
             {"ARDUINOJSON_USE_LONG_LONG": 0, "ARDUINOJSON_POOL_CAPACITY": 8},
             # a string-length type narrower than the slot-id type: more users of one string than a length can count
             {"ARDUINOJSON_SLOT_ID_SIZE": 2, "ARDUINOJSON_STRING_LENGTH_SIZE": 1, "ARDUINOJSON_POOL_CAPACITY": 64}]
    nh = 1500 if thorough else 200
    for gi, defs in enumerate(geoms):
        impl = vlib.need_harness("hist_h", cfg, defs)
        seeds = [run.seed * 100000 + 1300000 + gi * 10000 + k for k in range(nh)]
        hists = histcheck.gen_histories(model, seeds, 60 if not defs else 30, ndocs=3)
        if "ARDUINOJSON_USE_LONG_LONG" in defs:
            hists = []      # 64-bit integers are outside this configuration: scripted parts only
        # append document-level endings: move / copy-construct / swap, then let everything be destroyed
        endings = [" dmove 0 1 @0 ;; ", " dcopyctor 0 2 @0 ;; ", " dswap 1 2 @0 ;; dmove 2 0 @0 ;; ", ""]
        hs = [h + rnd.choice(endings) for h in hists]
        outs, crash = histcheck.run_histories(impl, hs, ndocs=3)
        for seed, h, o in zip(seeds, hs, outs):
            run.count((gi, seed))
            if o == "<crash>":
                continue
            steps, trailer = histcheck.parse_run(o)
            bad = []
            if "leaked=0" not in trailer: bad.append("every block released after destruction")
            if "afterclear=0" not in trailer: bad.append("no block remains after clear()")
            if "MISUSE" in trailer: bad.append("deallocate/reallocate only on live blocks of this allocator")
            if "READONLY-ALLOCATES" in o: bad.append("read-only operations never call the allocator")
            if "COPYCTOR-DIFFERS" in o: bad.append("copy-constructed document equals its source")
            if bad:
                oracle_fail.append((cfg, f"HRUN 3 0 - {h}"[:4000], "; ".join(bad) + f" [geometry {defs}]", trailer))
        if crash:
            k = outs.index("<crash>") if "<crash>" in outs else 0
            run.violation(f"C06: library crashed (geometry {defs}): {crash[:200]}", dict(kind="history", cfg=cfg, defines=defs, harness_src="hist_h", lines=[f"HRUN 3 0 - {hs[k]}"[:6000]], observed=crash[-3000:]))
        # slots released by a removal are reused before a new pool is requested
        cap = defs.get("ARDUINOJSON_POOL_CAPACITY", 256)
        for n, m in ((cap + 3, 3), (2 * cap + 1, cap), (5, 5), (cap, 1)):
            if defs.get("ARDUINOJSON_SLOT_ID_SIZE") == 1 and n > 200:
                continue
            s, n, m = script_reuse(n, m)
            io, c2 = vlib.run_lines(impl, ["CFG " + cfg, "HRUN 1 0 - " + s])
            mo, _ = vlib.run_lines(model, ["CFG " + cfg, "HEXP 1 " + s])
            run.count(("reuse", gi, n, m))
            steps, trailer = histcheck.parse_run(io[1]) if len(io) > 1 else ([], "")
            exp = [x for x in mo[1].split(" ;; ") if x.strip()]
            k = histcheck.first_divergence(exp, steps)
            if k is not None:
                oracle_fail.append((cfg, "HRUN 1 0 - " + s[:3000], f"step {k}: {exp[k][:200]}", steps[k][0][:200] if k < len(steps) else "missing"))
                continue
            readd = steps[1 + n + m:]
            if any(st[3] != st[2] for st in readd):
                oracle_fail.append((cfg, "HRUN 1 0 - " + s[:3000], f"no allocator call while re-adding {m} values after {m} removals (freed slots reused first) [geometry {defs}]",
                                    " ".join(f"{st[2]}->{st[3]}" for st in readd)))
        # values that occupy an extension slot (doubles, 64-bit integers): removal and overwriting give both slots back
        for value in ("D3fb999999999999a", "i9223372036854775807", "i-9223372036854775808", "i18446744073709551615"):
            if "ARDUINOJSON_USE_LONG_LONG" in defs and value[0] == "i":
                continue
            n_ = min(cap, 6)
            rounds = (3 * cap + 5) if cap <= 16 else 40
            if defs.get("ARDUINOJSON_SLOT_ID_SIZE") == 1:
                rounds = min(rounds, 60)
            s, fill = script_churn(value, n_, rounds)
            io, c2 = vlib.run_lines(impl, ["CFG " + cfg, "HRUN 1 0 - " + s])
            run.count(("churn", gi, value))
            steps, trailer = histcheck.parse_run(io[1]) if len(io) > 1 else ([], "")
            if c2 or len(steps) != fill + 4 * rounds:
                oracle_fail.append((cfg, "HRUN 1 0 - " + s[:2000], "history runs", (c2 or str(len(steps)))[-300:])); continue
            churn = steps[fill:]
            grew = [i for i, st in enumerate(churn) if st[3] != st[2]]
            if grew:
                oracle_fail.append((cfg, "HRUN 1 0 - " + s[:3000], f"no allocator call in the steady state (remove/add and overwrite of {value}: every slot, extension slots included, is reused) [geometry {defs}]",
                                    f"allocator called at churn steps {grew[:8]} ({len(grew)} calls in {len(churn)} steps)"))
            if "leaked=0" not in trailer or "MISUSE" in trailer:
                oracle_fail.append((cfg, "HRUN 1 0 - " + s[:2000], "memory returned", trailer))
        # equal copied strings are stored once and released when the last user disappears
        many = ((255, b"shared"), (256, b"shared"), (257, b"shared"), (300, b"k")) if defs.get("ARDUINOJSON_STRING_LENGTH_SIZE") == 1 else ()
        for users, text in ((30, b"a-string-of-20-bytes"), (3, b""), (4, b""), (5, b""), (200, b"x" * 100), (7, b"q"), (8, b"q")) + many:
            if defs.get("ARDUINOJSON_SLOT_ID_SIZE") == 1 and users > 100:
                continue
            s = script_dedup(users, text)
            # the string given as std::string, or (every third case) as a sized JsonString / string_view that points into a
            # longer buffer, so that the byte after it is not a terminator: equal strings are one node whatever carries them
            skind = (0, 3, 6)[(users + len(text)) % 3] if b"\0" not in text else 0
            io, c2 = vlib.run_lines(impl, ["CFG " + cfg, f"HRUN 1 {skind} - " + s])
            run.count(("dedup", gi, users, skind))
            steps, trailer = histcheck.parse_run(io[1]) if len(io) > 1 else ([], "")
            if len(steps) != 1 + 2 * users:
                oracle_fail.append((cfg, f"HRUN 1 {skind} - " + s[:2000], "history runs", (c2 or "")[-300:])); continue
            mo, _ = vlib.run_lines(model, ["CFG " + cfg, "HEXP 1 " + s])
            exp = [x for x in mo[1].split(" ;; ") if x.strip()]
            kdiv = histcheck.first_divergence(exp, steps)
            if kdiv is not None:
                oracle_fail.append((cfg, f"HRUN 1 {skind} - " + s[:3000], f"step {kdiv}: the other users of a shared string are intact: {exp[kdiv][:120]} [geometry {defs}]", steps[kdiv][0][:200] if kdiv < len(steps) else "missing"))
                continue
            adds = steps[1:1 + users]
            rms = steps[1 + users:]
            # live blocks: pools + table + exactly one string node, whatever the number of users
            live_after_first = adds[0][4]
            pools_first = 1
            import math
            slot_pools = lambda k: math.ceil(k / cap)
            for i, st in enumerate(adds):
                expected_blocks = slot_pools(i + 1) + 1    # pools + one string node (pool table inline or +1 when on heap)
                if st[4] < expected_blocks or st[4] > expected_blocks + 1:
                    oracle_fail.append((cfg, f"HRUN 1 {skind} - " + s[:2000], f"after {i + 1} users: {expected_blocks} (+1 heap table) live blocks: the string is stored once [geometry {defs}]", str(st[4])))
                    break
            if rms and not (rms[-1][4] == rms[-2][4] - 1 if len(rms) > 1 else True):
                oracle_fail.append((cfg, f"HRUN 1 {skind} - " + s[:2000], "the string node is released exactly when its last user is removed", f"{rms[-2][4]} -> {rms[-1][4]} live blocks"))
            if any(rms[i][4] != rms[0][4] for i in range(len(rms) - 1)):
                oracle_fail.append((cfg, f"HRUN 1 {skind} - " + s[:2000], "the string node stays while it has users", " ".join(str(x[4]) for x in rms[:12])))
        run.sample(dict(geometry=defs, case=("HRUN 3 0 - " + (hs[0] if hs else script_churn("D3fb999999999999a", 3, 2)[0]))[:300]))
    # memory requested while deserializing: one maximum-size string + linear in the bytes consumed
    implD = vlib.need_harness("doc_h", cfg)
    ins = [(b"J", t) for t in C03.inputs_json(rnd, 3000 if thorough else 600)] + [(b"M", t) for t in C03.inputs_mp(rnd, 3000 if thorough else 600)]
    ins += [(b"J", b"[" * 2000), (b"J", b"[1," * 3000), (b"J", b'"' + b"x" * 70000 + b'"'), (b"J", b'{"k":"' + b"y" * 65535 + b'"}'), (b"M", b"\xdb\xff\xff\xff\xff"),
            (b"M", b"\xda\xff\xff"), (b"M", b"\xdd\xff\xff\xff\xff" + b"\x01" * 500), (b"M", b"\xc6\x00\x00\xff\xf0" + b"z" * 100), (b"M", b"\xdf\xff\xff\xff\xff" + b"\xa1a\x01" * 300)]
    lines = [("JA" if k == b"J" else "MA") + " 10 - " + hx(t) for k, t in ins]
    outs, crash = vlib.run_sharded(implD, lines, None, 900, ["CFG " + cfg])
    MAXSTR, K1, K0 = 65535 + 16, 64, 8192
    for (k, t), l, o in zip(ins, lines, outs):
        run.count(("mem", l))
        if o == "<crash>":
            continue
        f = dict(p.split("=") for p in o.split(" ")[2:] if "=" in p)
        if "MISUSE" in o or f.get("leaked") != "0":
            oracle_fail.append((cfg, l[:300], "every block released exactly once", o[-200:]))
        elif int(f["req"]) > MAXSTR + K1 * len(t) + K0:
            oracle_fail.append((cfg, l[:300], f"bytes requested <= {MAXSTR} + {K1}*{len(t)} + {K0}", o[-200:]))
    if crash:
        run.violation("C06: library crashed on an instrumented-allocator deserialization: " + crash[:300], dict(kind="input", cfg=cfg, harness_src="doc_h", observed=crash[-2000:]))
    # the string builder (JSON reader) and the string buffer (MessagePack reader) with the string pool, node by node (Model/StrBuild.v): for every script the library's results (length
    # field, reference count, bytes) and its exact sequence of allocator calls (sizes, outcome) must be the model's
    for sdefs in ({}, {"ARDUINOJSON_STRING_LENGTH_SIZE": 1}, {"ARDUINOJSON_SLOT_ID_SIZE": 1, "ARDUINOJSON_STRING_LENGTH_SIZE": 4}):
        pimpl = vlib.need_harness("pool_h", cfg, sdefs)
        io, c0 = vlib.run_lines(pimpl, ["CFG " + cfg, "SBG"])
        hdr, mx = io[1].split()
        scripts = sb_scripts(rnd, 1500 if thorough else 250, int(mx))
        sl = [f"SB {hdr} {mx} {ans} " + " ".join(ops) for ans, ops in scripts] + [f"SBF {hdr} {mx} {ans} " + " ".join(ops) for ans, ops in scripts]
        mo, mcrash = vlib.run_sharded(model, sl, None, 900, ["CFG " + cfg])
        if mcrash:
            raise vlib.Broken("model driver crashed: " + mcrash[:300])
        so, scrash = vlib.run_sharded(pimpl, sl, None, 900, ["CFG " + cfg])
        if scrash:
            k = so.index("<crash>") if "<crash>" in so else 0
            run.violation(f"C06: library crashed in the string builder ({sdefs}): {scrash[:200]}", dict(kind="input", cfg=cfg, defines=sdefs, harness_src="pool_h", lines=[sl[k][:4000]], observed=scrash[-2000:]))
        for l, m, o in zip(sl, mo, so):
            run.count(("sb", str(sdefs), l))
            if o == "<crash>":
                continue
            body, _, tail = o.partition(" leaked=")
            if l.startswith("SBF "):
                m = m.rpartition(" scratch=")[0]       # (whether the buffer still holds a node is not visible from outside: the live-block count is)
            if body != m:
                ms, os_ = m.split(" "), body.split(" ")
                k = next((i for i, (x, y) in enumerate(zip(ms, os_)) if x != y), min(len(ms), len(os_)))
                # a different sequence of allocator calls is a broken correspondence, not by itself a block lost or misused
                all_mism.append((cfg, (0, l[:3000], f"op {k}: {ms[k][:200] if k < len(ms) else 'nothing'} [{sdefs}]", (os_[k] if k < len(os_) else "nothing")[:200])))
                if not tail.startswith("0") or "MISUSE" in tail or "UNTERMINATED" in o:
                    oracle_fail.append((cfg, l[:3000], f"every string node released, through this allocator, NUL-terminated [{sdefs}]", o[-120:]))
            elif not tail.startswith("0") or "MISUSE" in tail or "UNTERMINATED" in o:
                oracle_fail.append((cfg, l[:3000], f"every string node released, through this allocator, NUL-terminated [{sdefs}]", o[-120:]))
        run.cov["disagreements_checked"] += len(sl)
    run.cov["rule"] = ("histories on 3 documents sharing one instrumented allocator (ledger of live blocks, call log), ending with move / copy-construction / swap+move, "
                       "default and two small geometries: nothing leaked after clear() or destruction, no release of a dead block, read-only calls allocator-silent; scripted "
                       "fill/remove/re-add around pool boundaries (freed slots reused, no allocator call); 3..200 users of one copied string (one node, released with its last user); "
                       "deserializer inputs of C03 + huge headers: bytes requested <= max string + 64*len + 8192; distinct = distinct case")
    run.assumptions += ["a moved-from document continues with the default allocator (JsonDocument's move constructor): 'the allocator given to the document' is read as: every block is released "
                        "through the allocator that produced it (DESIGN.md §8.9)"]
    jsonchecks.finish_standard(run, "C06", ok, info, oracle_fail, all_mism, harness="hist_h")

def replay(rp):
    from props import C05
    return C05.replay(rp)
