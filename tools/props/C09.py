"""C09 — well-formed MessagePack decodes to the value it encodes; malformed is classified."""
import random, struct, math
import vlib, gen_doc
from gen_doc import hx

def rand_value(rnd, depth=0):
    k = rnd.random()
    if depth > 3:
        k *= 0.72
    if k < 0.06:
        return None
    if k < 0.12:
        return rnd.random() < 0.5
    if k < 0.32:
        return ("i", rnd.choice(gen_doc.INT_BOUNDS))
    if k < 0.38:
        return ("i", rnd.randrange(-2 ** 63, 2 ** 64))
    if k < 0.46:
        return ("F", rnd.choice(gen_doc.F32_SPECIAL + [rnd.getrandbits(32) & 0x7f7fffff | (rnd.getrandbits(1) << 31)]))
    if k < 0.56:
        return ("D", rnd.choice(gen_doc.F64_SPECIAL + [rnd.getrandbits(64) & 0x7fefffffffffffff | (rnd.getrandbits(1) << 63)]))
    if k < 0.66:
        n = rnd.choice([0, 1, 5, 31, 32, 33, 255, 256, 300])
        return ("s", bytes(rnd.randrange(256) for _ in range(n)))
    if k < 0.70:
        n = rnd.choice([0, 1, 2, 4, 8, 16, 17, 255, 256])
        return ("bin", bytes(rnd.randrange(256) for _ in range(n)))
    if k < 0.74:
        n = rnd.choice([0, 1, 2, 3, 4, 8, 16, 17, 255, 256])
        return ("ext", rnd.randrange(256), bytes(rnd.randrange(256) for _ in range(n)))
    n = rnd.choice([0, 1, 2, 3, 15, 16, 17]) if depth < 2 else rnd.choice([0, 1, 2])
    if k < 0.87:
        return [rand_value(rnd, depth + 1) for _ in range(n)]
    ms = []
    for _ in range(n):
        key = ("s", bytes(rnd.choice(b"abk\0") for _ in range(rnd.randrange(4))))
        ms.append((key, rand_value(rnd, depth + 1)))
    return ("o", ms)

def round_f32(bits64):
    x = gen_doc.bits_f64(bits64)
    try:
        return gen_doc.f32_bits(struct.unpack(">f", struct.pack(">f", x))[0])
    except OverflowError:
        return 0x7f800000 | ((bits64 >> 63) << 31)

def expected_dump(v, enc_of, use_double=True):
    """the document the library must hold for decoded value v (C09)"""
    if v is None:
        return "n"
    if v is True:
        return "t"
    if v is False:
        return "f"
    if isinstance(v, list):
        return "[" + ",".join(expected_dump(x, enc_of, use_double) for x in v) + "]"
    t = v[0]
    if t == "o":
        return "{" + ",".join(hx(k[1]) + ":" + expected_dump(x, enc_of, use_double) for k, x in v[1]) + "}"
    if t == "i":
        return "i%d" % v[1]
    if t == "F":
        return gen_doc.dump(v)
    if t == "D":
        x = gen_doc.bits_f64(v[1])
        if math.isnan(x):
            return "Dnan" if use_double else "Fnan"
        b32 = round_f32(v[1])
        if not use_double:
            return gen_doc.dump(("F", b32))
        if gen_doc.bits_f32(b32) == x:
            return gen_doc.dump(("F", b32))     # stored as float when nothing is lost
        return gen_doc.dump(v)
    if t == "s":
        return "s" + hx(v[1])
    if t in ("bin", "ext"):
        return "r" + hx(enc_of(v))
    raise ValueError(v)

def encode_tracking(v, rnd, raws):
    """encode with random legal widths, remembering the exact bytes chosen for each bin/ext"""
    if isinstance(v, list):
        return gen_doc.mp_header("a", len(v), rnd) + b"".join(encode_tracking(x, rnd, raws) for x in v)
    if isinstance(v, tuple) and v[0] == "o":
        return gen_doc.mp_header("m", len(v[1]), rnd) + b"".join(gen_doc.mp_encode(k, rnd) + encode_tracking(x, rnd, raws) for k, x in v[1])
    e = gen_doc.mp_encode(v, rnd)
    if isinstance(v, tuple) and v[0] in ("bin", "ext"):
        raws.setdefault(id(v), e)
    return e

def check(run):
    rnd = random.Random(run.seed * 32452843 + 9)
    thorough = run.tier == "thorough"
    ok, info = vlib.proof_stage(run, "C09")
    model = vlib.need_model()
    oracle_fail, all_mism = [], []
    for cfg in ("10001", "10000"):
        use_double = cfg[4] == "1"
        impl = vlib.need_harness("doc_h", cfg)
        n = (20000 if thorough else 2500) if use_double else (6000 if thorough else 800)
        cases = []
        for _ in range(n):
            v = rand_value(rnd)
            raws = {}
            enc = encode_tracking(v, rnd, raws)
            exp = expected_dump(v, lambda x: raws[id(x)], use_double)
            cases.append((v, enc, exp))
        lines = ["M 20 - " + hx(enc) for _, enc, _ in cases]
        mism, mo, io = vlib.correspond(run, model, impl, lines, cfg, "deserializeMsgPack well-formed")
        all_mism += mism
        reser = []
        for (v, enc, exp), l, o in zip(cases, lines, io):
            if o == "<crash>":
                continue
            e = f"Ok {len(enc)} {exp}"
            if o != e:
                oracle_fail.append((cfg, l, e, o))
            else:
                reser.append((exp, v, enc))
        # serializeMsgPack of the result: bin/ext byte-for-byte, the rest in minimal form, same value
        slines = ["MR " + hx(enc) for _, _, enc in reser[: (6000 if thorough else 900)]]
        mism, mo2, io2 = vlib.correspond(run, model, impl, slines, cfg, "re-serialize")
        all_mism += mism
        for (exp, v, enc), l, o in zip(reser, slines, io2):
            if o == "<crash>":
                continue
            out = bytes.fromhex(o.split(" ")[1]) if o.split(" ")[1] != "-" else b""
            try:
                dec, end = gen_doc.mp_decode(out)
                dec0, _ = gen_doc.mp_decode(enc)
            except gen_doc.MPError as e:
                oracle_fail.append((cfg, l, "re-serialized output decodes", o[:200]))
                continue
            if use_double and not same_value(dec0, dec):
                oracle_fail.append((cfg, l, "re-serialized value equals the input value (bin/ext verbatim)", o[:200]))
        # every proper prefix: IncompleteInput (EmptyInput for the empty input)
        plines, pexp = [], []
        for v, enc, exp in cases[: (3000 if thorough else 400)]:
            if len(enc) > 80:
                continue
            for k in range(len(enc)):
                plines.append("M 20 - " + hx(enc[:k]))
                pexp.append("EmptyInput" if k == 0 else "IncompleteInput")
        mism, mo3, io3 = vlib.correspond(run, model, impl, plines, cfg, "prefixes")
        all_mism += mism
        for l, e, o in zip(plines, pexp, io3):
            if o != "<crash>" and o.split(" ")[0] != e:
                oracle_fail.append((cfg, l, e, o))
        # corruptions: 0xC1 anywhere in value position, non-string keys; other single-byte corruptions: model only
        clines, cexp = [], []
        for v, enc, exp in cases[: (3000 if thorough else 500)]:
            if not enc or len(enc) > 200:
                continue
            i = rnd.randrange(len(enc))
            b = bytearray(enc)
            b[i] = rnd.choice([0xC1, rnd.randrange(256)])
            clines.append("M 20 - " + hx(bytes(b)))
            cexp.append(None)
        clines.append("M 20 - c1"); cexp.append("InvalidInput")
        clines.append("M 20 - 91c1"); cexp.append("InvalidInput")
        clines.append("M 20 - 81a161c1"); cexp.append("InvalidInput")
        for keycode in (0x00, 0x7f, 0xc0, 0xc2, 0xc3, 0xc4, 0xca, 0xcb, 0xcc, 0xd0, 0x90, 0x80, 0xe0, 0xff, 0xd4, 0xc7):
            clines.append("M 20 - 81%02x01" % keycode); cexp.append("InvalidInput")
        mism, mo4, io4 = vlib.correspond(run, model, impl, clines, cfg, "corruptions")
        all_mism += mism
        for l, e, o in zip(clines, cexp, io4):
            if e is not None and o != "<crash>" and o.split(" ")[0] != e:
                oracle_fail.append((cfg, l, e, o))
        # raw values read through the typed accessors (as<MsgPackBinary>() / as<MsgPackExtension>() / is<>()): every bin / ext
        # encoding, their truncations (a header cut short must not be read past), and arbitrary raw bytes
        rlines, rexp = [], {}
        for n_ in (0, 1, 2, 3, 4, 5, 8, 9, 16, 17, 255, 256, 300):
            pl = bytes(rnd.randrange(256) for _ in range(n_))
            for v in (("bin", pl), ("ext", rnd.randrange(256), pl)):
                enc = gen_doc.mp_encode(v, rnd)
                rlines.append("RX " + hx(enc))
                # what the accessors must give back is known from the value that was encoded, whatever width the encoder chose
                rexp[rlines[-1]] = (f"bin=s{hx(pl)} ext=-" if v[0] == "bin" else f"bin=- ext={v[1]}:s{hx(pl)}")
                for k in sorted(set([1, 2, 3, 4, 5, 6, len(enc) - 1])):
                    if 0 < k < len(enc):
                        rlines.append("RX " + hx(enc[:k]))
                rlines.append("RX " + hx(enc + b"\x00"))
        for code in list(range(0xc4, 0xca)) + list(range(0xd4, 0xd9)):
            rlines.append("RX %02x" % code)
            for _ in range(6):
                rlines.append("RX %02x%s" % (code, hx(bytes(rnd.randrange(256) for _ in range(rnd.randrange(1, 8))))))
        for _ in range(300 if thorough else 60):
            rlines.append("RX " + hx(bytes(rnd.randrange(256) for _ in range(rnd.randrange(1, 12)))))
        rlines = [l for l in rlines if l != "RX -"]
        mism, moR, ioR = vlib.correspond(run, model, impl, rlines, cfg, "typed accessors on raw values")
        all_mism += mism
        for l, o in zip(rlines, ioR):
            if o != "<crash>" and "DIFFERS" in o:
                oracle_fail.append((cfg, l, "is<T>() agrees with as<T>()", o[:200]))
            elif o != "<crash>" and l in rexp and not o.startswith(rexp[l]):
                oracle_fail.append((cfg, l, "the typed accessor returns the encoded payload: " + rexp[l][:120], o[:200]))
        run.sample(dict(case=lines[0][:160], cfg=cfg, meaning="M <nesting> <filter> <hex MessagePack> -> code, bytes consumed, document"))
    run.cov["rule"] = ("values encoded by an independent encoder with random legal widths (non-minimal ints/lengths, float32/64, bin, ext, "
                       "duplicate and NUL-containing keys), expected document computed from the value; all proper prefixes; single-byte "
                       "corruptions; 0xC1 and non-string keys; re-serialization; ARDUINOJSON_USE_DOUBLE in {1,0}; distinct = distinct case line")
    known = [k for k in vlib.load_known_findings() if k["prop"] == "C09"]
    shown = 0
    for cfg, l, e, o in oracle_fail:
        kid = classify_known(cfg, l, e, o, known)
        if kid:
            run.known(kid["id"], kid["text"])
            continue
        if shown < 5:
            shown += 1
            run.violation(f"C09 oracle (cfg {cfg}): {l[:120]}: expected {str(e)[:200]}; library: {o[:160]}",
                          dict(kind="input", cfg=cfg, harness_src="doc_h", lines=[l], expected=str(e), observed=o))
    if not oracle_fail:
        for k, l, a, b in all_mism[:5]:
            run.violation(f"model/implementation disagree on {l[:100]}: model {a[:120]} impl {b[:120]}",
                          dict(kind="input", harness_src="doc_h", lines=[l], model=a, observed=b, failing_input=False))
    if not ok:
        for p in info["problems"]:
            if not oracle_fail:
                run.violation(p, dict(kind="obligation", theorem="Properties_C09: " + p[:200], failing_input=False))

def classify_known(cfg, l, e, o, known):
    return None

def same_value(a, b):
    """equality of decoded MessagePack values up to the numeric representation"""
    if isinstance(a, list) or isinstance(b, list):
        return isinstance(a, list) and isinstance(b, list) and len(a) == len(b) and all(same_value(x, y) for x, y in zip(a, b))
    if isinstance(a, tuple) and a[0] == "o":
        return isinstance(b, tuple) and b[0] == "o" and len(a[1]) == len(b[1]) and \
            all(k1 == k2 and same_value(x, y) for (k1, x), (k2, y) in zip(a[1], b[1]))
    if isinstance(a, tuple) and a[0] in "iFD" and isinstance(b, tuple) and b[0] in "iFD":
        return gen_doc.same_number(a, b)
    return a == b

def replay(rp):
    return vlib.replay_lines(rp, "doc_h")
