"""C03 — deserializers are memory-safe, input-bounded and source-independent on any bytes."""
import random
import vlib, gen_json, gen_doc, jsonchecks
from gen_json import hx
from props import C09

def inputs_json(rnd, n, comments=False):
    out = []
    valid = jsonchecks.valid_docs(rnd, max(50, n // 6), max_depth=3, comments=comments)
    for t, text in valid:
        out.append(text)
        for _ in range(3):
            out.append(gen_json.mutate(rnd, text))
        if comments and b"/" in text:
            # cut right after every comment delimiter character: the scanner's own case splits
            cuts = [i + 1 for i in range(len(text)) if text[i:i + 1] in (b"*", b"/")]
            for i in rnd.sample(cuts, min(4, len(cuts))):
                out.append(text[:i])
    out += gen_json.boundary_json(rnd, max(60, n // 12))
    while len(out) < n:
        k = rnd.random()
        if k < 0.5:
            out.append(bytes(rnd.randrange(256) for _ in range(rnd.randrange(0, 24))))
        else:
            out.append(b"".join(rnd.choice(gen_json.TOKENS) for _ in range(rnd.randrange(1, 9))))
    return out[:n]

def inputs_mp(rnd, n):
    out = []
    while len(out) < n:
        k = rnd.random()
        v = C09.rand_value(rnd, depth=1)
        enc = C09.encode_tracking(v, rnd, {})
        if len(enc) > 400:
            continue
        if k < 0.3:
            out.append(enc)
        elif k < 0.55:
            out.append(enc[: rnd.randrange(len(enc) + 1)])
        elif k < 0.8 and enc:
            b = bytearray(enc)
            b[rnd.randrange(len(b))] = rnd.randrange(256)
            out.append(bytes(b))
        elif k < 0.9:
            out.append(bytes(rnd.randrange(256) for _ in range(rnd.randrange(0, 16))))
        else:
            # headers announcing huge lengths / counts
            out.append(rnd.choice([b"\xdb\xff\xff\xff\xff", b"\xdd\xff\xff\xff\xff", b"\xdf\xff\xff\xff\xff\xa1a", b"\xc6\xff\xff\xff\xff", b"\xc9\xff\xff\xff\xff\x01",
                                   b"\xda\xff\xff", b"\xdc\xff\xff\x01", b"\x9f", b"\x8f\xa1a", b"\xdb\x00\x01\x00\x00" + b"x" * 10, b"\xdd\x00\x01\x00\x00\x01"])
                       + bytes(rnd.randrange(256) for _ in range(rnd.randrange(0, 6))))
    return out

def check(run):
    rnd = random.Random(run.seed * 141650939 + 3)
    thorough = run.tier == "thorough"
    ok, info = vlib.proof_stage(run, "C03")
    model = vlib.need_model()
    oracle_fail, all_mism = [], []
    # (cfg string, extra defines): option matrix of the property
    matrix = [("10001", {}), ("11111", {}), ("01001", {"ARDUINOJSON_SLOT_ID_SIZE": 2, "ARDUINOJSON_STRING_LENGTH_SIZE": 1}),
              ("10001", {"ARDUINOJSON_SLOT_ID_SIZE": 1, "ARDUINOJSON_STRING_LENGTH_SIZE": 4})]
    if thorough:
        matrix += [("10101", {"ARDUINOJSON_SLOT_ID_SIZE": 2}), ("10011", {"ARDUINOJSON_STRING_LENGTH_SIZE": 4}), ("00001", {})]
    vlib.build_harnesses([("doc_h", dict(vlib.cfg_flags(c), **d), {}) for c, d in matrix])
    nj = 20000 if thorough else 1800
    nm = 12000 if thorough else 1200
    for cfg, defs in matrix:
        impl = vlib.need_harness("doc_h", cfg, defs)
        small = bool(defs)
        jin = inputs_json(rnd, nj if not small else nj // 3, comments=(cfg[1] == "1"))
        min_ = inputs_mp(rnd, nm if not small else nm // 3)
        if small:   # stay below the capacity limits of tiny geometries (NoMemory is C19's subject)
            jin = [x for x in jin if len(x) < 120]
            min_ = [x for x in min_ if len(x) < 120]
        # one key repeated around every power of 256 (the second and later occurrences replace the value, so the document
        # stays two slots large whatever the geometry): per-string bookkeeping must not depend on how often a key was seen
        reps = [2, 255, 256, 257, 300] + ([65535, 65536, 65537] if thorough and defs.get("ARDUINOJSON_SLOT_ID_SIZE") == 2 else [])
        for n_ in reps:
            jin.append(b"{" + b",".join([b'"a":"a"'] * n_) + b"}")
            jin.append(b"{" + b",".join([b'"k":"v"', b'"k":"k"'] * (n_ // 2 + 1)) + b"}")
            jin.append(b"[" + b",".join([b'{"a":1,"a":"a"}'] * min(n_, 300)) + b"]")
        for kind, ins, mcmd, icmd in (("json", jin, "J", "JK"), ("msgpack", min_, "M", "MK")):
            cases = []
            for x in ins:
                L = rnd.choice([0, 1, 2, 10, 10, 10, 255])
                flt = "-" if rnd.random() < 0.6 else hx(gen_json.filters(rnd).encode())
                cases.append((L, flt, x))
            mlines = [f"{mcmd} {L} {flt} {hx(x)}" for L, flt, x in cases]
            ilines = [f"{icmd} {L} {flt} {hx(x)}" for L, flt, x in cases]
            mo, mcrash = vlib.run_sharded(model, mlines, None, 900, ["CFG " + cfg])
            if mcrash:
                raise vlib.Broken("model driver crashed: " + mcrash[:300])
            io, icrash = vlib.run_sharded(impl, ilines, None, 900, ["CFG " + cfg])
            for l, il, m, o in zip(mlines, ilines, mo, io):
                run.count((cfg, str(defs), l))
                if o == "<crash>":
                    continue
                mp = m.split(" ")
                if kind == "json":
                    mcode, mfault, mdump = mp[0], mp[2], mp[3]
                    if mfault != "ok":
                        oracle_fail.append((cfg, l, "model: no read after the end of input", m[:100]))
                else:
                    mcode, mdump = mp[0], mp[2]
                if mcode == "OutOfFuel":
                    oracle_fail.append((cfg, l, "model terminates within its fuel", m[:100]))
                want = f"{mcode}:{mdump}"
                entries = o.strip().split(" ")
                seen = set()
                for ent in entries:
                    k, _, val = ent.partition("=")
                    seen.add(val)
                    if val == "FAULT":
                        oracle_fail.append((cfg, il, "no read after the end of input (custom reader)", o[:200]))
                    elif "!" in val:
                        oracle_fail.append((cfg, il, "document is well-formed, measurable and reusable", ent[:200]))
                    elif val.split(":")[0] not in ("Ok", "EmptyInput", "IncompleteInput", "InvalidInput", "NoMemory", "TooDeep"):
                        oracle_fail.append((cfg, il, "one of the six documented codes", ent[:200]))
                    elif val != want:
                        # NoMemory at a capacity limit of a tiny geometry is not modelled at this level
                        if small and (val.startswith("NoMemory") or want.startswith("NoMemory")):
                            continue
                        if len({e.partition("=")[2] for e in entries}) > 1:
                            oracle_fail.append((cfg, il, "same code and document for every input kind", o[:400]))
                        else:
                            all_mism.append((cfg, (0, il, want, ent)))
                        break
            run.cov["disagreements_checked"] += len(mlines)
            if icrash:
                k = io.index("<crash>") if "<crash>" in io else 0
                run.violation(f"C03: library crashed / sanitizer report (cfg {cfg} {defs}) on {ilines[k][:200]}",
                              dict(kind="input", cfg=cfg, defines=defs, harness_src="doc_h", lines=[ilines[k]], observed=icrash[-3000:]))
            run.sample(dict(cfg=cfg, defines=defs, case=ilines[0][:160]))
    run.cov["rule"] = ("valid texts/objects, truncations, byte mutations, random bytes, token soups, headers announcing 2^32-1 elements; each through 9 (MessagePack) "
                       "or 13 (JSON) input kinds in exactly-sized heap blocks under ASan/UBSan with ARDUINOJSON_DEBUG asserts, random nesting limits and "
                       "filters, option matrix %s; result of every kind must equal the model's; document then traversed, serialized, measured, cleared, reused; "
                       "distinct = distinct (configuration, limit, filter, bytes)" % [c + str(d) for c, d in matrix])
    run.assumptions += ["absence of undefined behaviour is observed by the sanitizers on the explored inputs only; the theorems bound reads and termination on the model",
                        "capacity limits of tiny geometries (NoMemory) are excluded here and covered by C19"]
    jsonchecks.finish_standard(run, "C03", ok, info, oracle_fail, all_mism, harness="doc_h")

def replay(rp):
    return vlib.replay_lines(rp, "doc_h")
