"""C14 — how a string is stored (linked, copied, de-duplicated) is unobservable."""
import random
import vlib, histcheck, jsonchecks, gen_doc
from gen_doc import hx

KINDS = {0: "std::string", 1: "const char* (linked)", 2: "char* (copied, source overwritten)", 3: "JsonString(copied)",
         4: "Arduino String", 5: "flash string", 6: "string_view", 7: "a different kind at every operation", 8: "Printable (values; keys as std::string)"}

def check(run):
    rnd = random.Random(run.seed * 256203221 + 14)
    thorough = run.tier == "thorough"
    ok, info = vlib.proof_stage(run, "C14")
    model = vlib.need_model()
    cfg = "10001"
    impl = vlib.need_harness("hist_h", cfg)
    oracle_fail, all_mism = [], []
    nh = 1500 if thorough else 250
    seeds = [run.seed * 100000 + 500000 + k for k in range(nh)]
    hists = histcheck.gen_histories(model, seeds, 100 if thorough else 70, ndocs=2)
    for kind in KINDS:
        outs, crash = histcheck.run_histories(impl, hists, ndocs=2, kind=kind)
        for seed, h, o in zip(seeds, hists, outs):
            ops, exp = histcheck.split_history(h)
            run.count((kind, seed))
            if o == "<crash>":
                continue
            steps, trailer = histcheck.parse_run(o)
            k = histcheck.first_divergence(exp, steps)
            if k is not None:
                oracle_fail.append((cfg, f"HRUN 2 {kind} - {' ;; '.join(h.split(' ;; ')[:k + 1])} ;; ",
                                    f"[strings given as {KINDS[kind]}] step {k} ({ops[k] if k < len(ops) else '?'}): {exp[k][:300] if k < len(exp) else ''}",
                                    (steps[k][0] if k < len(steps) else "missing")[:300]))
            if "leaked=0" not in trailer or "MISUSE" in trailer:
                oracle_fail.append((cfg, f"HRUN 2 {kind} - {h}", "all memory returned, no misuse", trailer))
        run.cov["disagreements_checked"] += len(hists)
        if crash:
            k = outs.index("<crash>") if "<crash>" in outs else 0
            run.violation(f"C14: library crashed with strings given as {KINDS[kind]}: {crash[:200]}",
                          dict(kind="history", cfg=cfg, harness_src="hist_h", lines=[f"HRUN 2 {kind} - {hists[k]}"], observed=crash[-3000:]))
    # scripted: a sized key that is a view INTO the buffer of a longer linked key of the same object (same address, shorter
    # length) is just its own bytes: lookups, insertions and removals must not confuse it with the longer key
    for e_, k_ in ((b"temperature_max", b"temperature"), (b"ab", b"a"), (b"abc", b"ab"), (b"k1", b"k"), (b"xy", b"x")):
        E, K = hx(e_), hx(k_)
        script = (f"toobj 0 @0 ;; setmember 0 {E} i1 @0 ;; setmember 0 {E} i1 @0 ;; getmember 0 {K} 5 @0,5 ;; getmember 0 {K} 6 @0,6 ;; "
                  f"setmember 0 {K} i2 @0 ;; setmember 0 {K} i3 @0 ;; rmkey 0 {K} @0 ;; rmkey 0 {K} @0 ;; getmember 0 {E} 7 @0,7 ;; "
                  f"makemember 0 {K} 8 @0,8 ;; rmkey 0 {E} @0 ;; getmember 0 {K} 9 @0,9 ;; ")
        mo, _ = vlib.run_lines(model, ["CFG " + cfg, "HEXP 2 " + script])
        exp = [x for x in mo[1].split(" ;; ") if x.strip()]
        for kind in (7, 3, 6, 1):
            io, crash = vlib.run_lines(impl, ["CFG " + cfg, f"HRUN 2 {kind} - " + script])
            run.count(("alias-script", e_, kind))
            got, _ = histcheck.parse_run(io[1]) if len(io) > 1 else ([], "")
            k = histcheck.first_divergence(exp, got)
            if crash or k is not None:
                oracle_fail.append((cfg, f"HRUN 2 {kind} - " + script, f"[key {k_!r} given as a view into the linked key {e_!r}; strings given as {KINDS[kind]}] step {k}: {exp[k][:200] if k is not None and k < len(exp) else ''}",
                                    (crash or (got[k][0] if got and k is not None and k < len(got) else "missing"))[-300:]))
    # numeric conversion and comparisons: linked vs copied (same answers)
    implN = vlib.need_harness("num_h", cfg)
    strs = [b"42", b"3.14", b"1e5", b"-7", b"abc", b"", b"1" * 400, b"0.5", b"18446744073709551615", b"true", b"1.5e300"]
    lines0 = ["AS 0 s" + hx(s) for s in strs]
    lines1 = ["AS 1 s" + hx(s) for s in strs]
    mism, _, o0 = vlib.correspond(run, model, implN, lines0, cfg, "as<T> on copied strings")
    all_mism += [(cfg, m) for m in mism]
    mism, _, o1 = vlib.correspond(run, model, implN, lines1, cfg, "as<T> on linked strings")
    all_mism += [(cfg, m) for m in mism]
    for l, a, b in zip(lines1, o0, o1):
        if a != b:
            oracle_fail.append((cfg, l, "same as<T>()/is<T>() as for the copied string: " + a[:200], b[:200]))
    # after an allocation failure earlier in the document's life (overflowed() stays set until clear()), with memory available
    # again: what the later operations return and leave behind does not depend on how their string operands are given
    gdefs = {"ARDUINOJSON_POOL_CAPACITY": 4, "ARDUINOJSON_INITIAL_POOL_COUNT": 1}
    implG = vlib.need_harness("hist_h", cfg, gdefs)
    fscript = ("toarr 0 @0 ;; addval 0 s6669727374 @0 ;; addval 0 i1 @0 ;; addval 0 i2 @0 ;; addval 0 i3 @0 ;; addval 0 i4 @0 ;; "
               "addval 0 s7468697264 @0 ;; setelem 0 1 s7468697264 @0 ;; toobj 1 @0,1 ;; setmember 1 6b s7468697264 @0,1 ;; addval 0 s6c617374 @0,1 ;; ")
    ref = None
    for kind in KINDS:
        dry, c0 = vlib.run_lines(implG, ["CFG " + cfg, f"HRUN 2 {kind} - " + fscript])
        dsteps, _ = histcheck.parse_run(dry[1]) if len(dry) > 1 else ([], "")
        if c0 or len(dsteps) < 11:
            oracle_fail.append((cfg, f"HRUN 2 {kind} - " + fscript, "history runs", (c0 or "")[-200:])); continue
        k = dsteps[5][2]          # allocator calls made before the 5th element is added: that call (a new pool) is made to fail
        if dsteps[5][3] == dsteps[5][2]:
            continue
        io, c2 = vlib.run_lines(implG, ["CFG " + cfg, f"HRUN 2 {kind} {k} " + fscript])
        run.count(("after-failure", kind))
        steps, trailer = histcheck.parse_run(io[1]) if len(io) > 1 else ([], "")
        vis = [st[0] for st in steps]
        if c2 or len(vis) < 11:
            oracle_fail.append((cfg, f"HRUN 2 {kind} {k} " + fscript, "history runs after an allocation failure", (c2 or "")[-300:])); continue
        if ref is None:
            ref = (kind, vis)
        elif vis != ref[1]:
            j = next(i for i, (a_, b_) in enumerate(zip(vis, ref[1])) if a_ != b_)
            oracle_fail.append((cfg, f"HRUN 2 {kind} {k} " + fscript, f"after an earlier allocation failure, step {j} gives the same result as with strings given as {KINDS[ref[0]]}: {ref[1][j][:120]}", vis[j][:160]))
    # comparisons: a string operand gives the same twelve answers whether it is a variant (linked or copied), a std::string,
    # a C string, a flash string, a string_view or a JsonString (the harness appends a marker when two kinds disagree);
    # bytes >= 0x80 and embedded NUL included
    cstrs = [b"", b"a", b"ab", b"b", b"zone", b"\xc3\xa9t\xc3\xa9", b"\x80", b"\xff", b"a\x80", b"a\x7f", b"a\0b", b"a\0", b"\xe2\x82\xac"]
    clines = [f"CMP s{hx(x)} s{hx(y)}" for x in cstrs for y in cstrs]
    mism, _, oc = vlib.correspond(run, model, implN, clines, cfg, "string comparisons across operand kinds")
    all_mism += [(cfg, m) for m in mism]
    for l, o in zip(clines, oc):
        if o != "<crash>" and "DIFFERS" in o:
            oracle_fail.append((cfg, l, "the same comparison results whatever C++ type carries the string operand", o[:200]))
    run.cov["rule"] = ("the C04 history generator's histories replayed with every string operand (values, keys, lookup keys, removal keys) given as each of %d source "
                       "kinds (%s); copied sources are overwritten right after the call; after every operation results and dumps must equal the tree model's, which has no "
                       "notion of storage; strings include empty, NUL-containing (sized kinds), repeated (sharing) ones; numeric conversions on linked vs copied; "
                       "distinct = distinct (kind, seed)" % (len(KINDS), ", ".join(KINDS.values())))
    run.sample(dict(history=" ;; ".join(histcheck.split_history(hists[0])[0][:10])))
    run.assumptions += ["strings containing NUL are always given through a sized kind (zero-terminated kinds cannot carry them)",
                        "Arduino String and flash strings are the mocks of extras/tests/Helpers"]
    jsonchecks.finish_standard(run, "C14", ok, info, oracle_fail, all_mism, harness="hist_h")

def replay(rp):
    from props import C04
    return C04.replay(rp)
