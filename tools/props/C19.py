"""C19 — capacity limits are clean edges and semantics do not depend on pool geometry."""
import random
import vlib, histcheck, jsonchecks, chaincheck
from gen_json import hx

def geom_defs(idsz, cap, ipc, strsz=None):
    d = {"ARDUINOJSON_SLOT_ID_SIZE": idsz, "ARDUINOJSON_POOL_CAPACITY": cap, "ARDUINOJSON_INITIAL_POOL_COUNT": ipc}
    if strsz:
        d["ARDUINOJSON_STRING_LENGTH_SIZE"] = strsz
    return d

def check(run):
    rnd = random.Random(run.seed * 334214459 + 19)
    thorough = run.tier == "thorough"
    ok, info = vlib.proof_stage(run, "C19")
    model = vlib.need_model()
    cfg = "10001"
    oracle_fail, all_mism = [], []
    if thorough:
        matrix = [(1, c, i) for c in (2, 3, 4, 5, 16, 17, 85, 100, 128, 255, 256) for i in (1, 2, 3, 4)] + \
                 [(2, c, i) for c in (2, 3, 100, 128, 256) for i in (1, 3, 4)] + [(4, 256, 4), (4, 3, 1), (4, 100, 2)]
    else:
        matrix = [(1, 16, 4), (1, 100, 4), (1, 256, 4), (1, 5, 3), (1, 2, 1), (1, 255, 2), (1, 85, 1), (2, 128, 4), (2, 3, 3), (4, 256, 4), (4, 7, 2)]
    vlib.build_harnesses([("hist_h", dict(vlib.cfg_flags(cfg), **geom_defs(*g)), {}) for g in matrix] +
                         [("pool_h", dict(vlib.cfg_flags(cfg), **geom_defs(*g)), {}) for g in matrix])
    # (a) the same histories, below the limits, under every geometry: observables equal the geometry-free tree model
    nh = 300 if thorough else 60
    seeds = [run.seed * 100000 + 1900000 + k for k in range(nh)]
    hists = histcheck.gen_histories(model, seeds, 30, ndocs=2)
    for g in matrix:
        defs = geom_defs(*g)
        impl = vlib.need_harness("hist_h", cfg, defs)
        outs, crash = histcheck.run_histories(impl, hists, ndocs=2)
        for seed, h, o in zip(seeds, hists, outs):
            run.count((g, seed))
            if o == "<crash>":
                continue
            ops, exp = histcheck.split_history(h)
            steps, trailer = histcheck.parse_run(o)
            if any("1" in st[1] for st in steps):
                # a limit was reached: must be clean — checked below by (b); here only the ledger
                pass
            else:
                k = histcheck.first_divergence(exp, steps)
                if k is not None:
                    oracle_fail.append((cfg, f"HRUN 2 0 - {' ;; '.join(h.split(' ;; ')[:k + 1])} ;; ", f"[geometry id={g[0]} cap={g[1]} inline={g[2]}] step {k}: {exp[k][:200] if k < len(exp) else ''}",
                                        (steps[k][0] if k < len(steps) else "missing")[:200]))
            if "leaked=0" not in trailer or "MISUSE" in trailer or "NOT-REUSABLE" in trailer:
                oracle_fail.append((cfg, f"HRUN 2 0 - {h}"[:3000], f"[geometry {g}] memory returned, reusable after clear", trailer))
        if crash:
            k = outs.index("<crash>") if "<crash>" in outs else 0
            run.violation(f"C19: library crashed under geometry id={g[0]} cap={g[1]} inline={g[2]}: {crash[:200]}",
                          dict(kind="history", cfg=cfg, defines=defs, harness_src="hist_h", lines=[f"HRUN 2 0 - {hists[k]}"[:6000]], observed=crash[-3000:]))
    # (b) the slot allocator at, below and above its limit, with shrinkToFit, clear and allocator failures: ids as the model's
    for g in matrix:
        defs = geom_defs(*g)
        impl = vlib.need_harness("pool_h", cfg, defs)
        limit = (1 << (8 * g[0])) - 1
        lines = []
        for k in range(40 if thorough else 12):
            n = rnd.choice([60, 300, 700]) if g[0] == 1 else rnd.choice([100, 400])
            ops = []
            for _ in range(n):
                r = rnd.random()
                ops.append("a%d" % rnd.choice([0, 0, 0, 0, 0, 0, 1, 2, 3]) if r < 0.72 else ("f%d" % rnd.randrange(1000) if r < 0.93 else ("s" if r < 0.98 else "c")))
            lines.append(" ".join(ops))
        if g[0] == 1:
            # exactly at / one below / one above the limit, then remove and re-add, then shrink and grow again
            lines.append(" ".join(["a0"] * (limit + 3) + ["f0", "f5", "a0", "a0", "a0", "s", "a0", "f1", "a0", "c", "a0"]))
            lines.append(" ".join(["a0"] * 70 + ["s"] + ["a0"] * 300 + ["f3"] * 10 + ["a0"] * 12))
        mo, mc = vlib.run_lines(model, ["PRUN %d %d %d %s" % (8 * g[0], g[1], g[2], l) for l in lines])
        io, ic = vlib.run_lines(impl, ["PRUN " + l for l in lines])
        if ic:
            run.violation(f"C19: slot allocator crashed under geometry {g}: {ic[:300]}", dict(kind="history", cfg=cfg, defines=defs, harness_src="pool_h", lines=["PRUN " + lines[min(len(io), len(lines) - 1)]], observed=ic[-2000:]))
        for l, a, b in zip(lines, mo, io):
            run.count((g, "pool", l[:60], len(l)))
            b0 = b.split(" leaked=")[0]
            ids = [int(x) for x in b0.split(" ") if x.isdigit()]
            if any(i >= limit for i in ids):
                oracle_fail.append((cfg, "PRUN " + l[:2000], f"[geometry {g}] every slot id < {limit}", str(max(ids))))
            elif "leaked=0" not in b or "MISUSE" in b:
                oracle_fail.append((cfg, "PRUN " + l[:2000], f"[geometry {g}] no leak / misuse", b[-60:]))
            elif a != b0:
                at, bt = a.split(" "), b0.split(" ")
                i = next((i for i, (x, y) in enumerate(zip(at, bt)) if x != y), -1)
                all_mism.append((cfg, (i, f"PRUN {l[:1500]} [geometry {g}]", " ".join(at[max(0, i - 3):i + 2]), " ".join(bt[max(0, i - 3):i + 2]))))
    # (b') arrays and objects as chains of slots (Model/Collection.v), filled to the last slot, under every geometry
    nchain = chaincheck.run(run, rnd, "C19", matrix, 60 if thorough else 10, nops=(40, 120))
    run.cov["disagreements_checked"] += nchain
    # (b'') deserializers exactly at the slot limit: a container whose children need limit-1 / limit / limit+1 slots, in both
    # formats: within the limit the result is the geometry-free one (Ok, all children), above it NoMemory with overflowed()
    dgeoms = [g for g in matrix if g[0] == 1][: (8 if thorough else 4)] + [g for g in matrix if g[0] == 2][:1]
    vlib.build_harnesses([("doc_h", dict(vlib.cfg_flags(cfg), **geom_defs(*g)), {}) for g in dgeoms])
    for g in dgeoms:
        defs = geom_defs(*g)
        implD = vlib.need_harness("doc_h", cfg, defs)
        limit = (1 << (8 * g[0])) - 1
        cases = []
        for n in (limit - 1, limit, limit + 1):
            hdr = (bytes([0x90 + n]) if n < 16 else b"\xdc" + n.to_bytes(2, "big") if n < 65536 else b"\xdd" + n.to_bytes(4, "big"))
            cases.append(("MF", hdr + b"\xc0" * n, n, n <= limit, "array of %d" % n))
            cases.append(("JF", b"[" + b",".join([b"null"] * n) + b"]", n, n <= limit, "array of %d" % n))
        for m in (limit // 2 - 1, limit // 2, limit // 2 + 1):
            hdr = (bytes([0x80 + m]) if m < 16 else b"\xde" + m.to_bytes(2, "big") if m < 65536 else b"\xdf" + m.to_bytes(4, "big"))
            # the same short key for every member: one string node, 2 slots per member
            cases.append(("MF", hdr + b"\xa1k\x01" * m, m, 2 * m <= limit, "map of %d" % m))
        dl = [f"{c} 250 - - {hx(x)}" for c, x, _, _, _ in cases]
        io, crash = vlib.run_lines(implD, ["CFG " + cfg] + dl, timeout=900)
        io = io[1:]
        if crash:
            run.violation(f"C19: library crashed at the slot limit (geometry {g}): {crash[:300]}", dict(kind="input", cfg=cfg, defines=defs, harness_src="doc_h", lines=[dl[min(len(io), len(dl) - 1)][:20000]], observed=crash[-2000:]))
        for (c, x, n, fits, what), l, o in zip(cases, dl, io):
            run.count((g, "limit", c, what))
            code = o.split(" ")[0]
            size_ok = o.split(" ")[1].count("n") + o.split(" ")[1].count("i1") >= n if fits else True
            if fits and (code != "Ok" or " ov=1" in o or not size_ok):
                oracle_fail.append((cfg, l[:3000], f"[geometry {g}] {what} needs no more than {limit} slots: Ok, every child present, overflowed() clear", o[:120] + " ..." + o[-60:]))
            elif not fits and (code != "NoMemory" or " ov=1" not in o):
                oracle_fail.append((cfg, l[:3000], f"[geometry {g}] {what} exceeds {limit} slots: NoMemory with overflowed() set", o[:120] + " ..." + o[-60:]))
            elif "afterclear=0" not in o or "leaked=0" not in o or "MISUSE" in o or "NOT-REUSABLE" in o:
                oracle_fail.append((cfg, l[:3000], f"[geometry {g}] memory returned, document reusable after the limit was met", o[-120:]))
    # (c) string length limit (1-byte lengths): 255 fits, 256 fails cleanly, document intact and usable
    implS = vlib.need_harness("hist_h", cfg, geom_defs(1, 16, 4, 1))
    s255, s256 = hx(b"x" * 255), hx(b"y" * 256)
    script = f"toarr 0 @0 ;; addval 0 i1 @0 ;; addval 0 s{s255} @0 ;; addval 0 s{s256} @0 ;; addval 0 i2 @0 ;; setelem 0 0 s{s256} @0 ;; setelem 0 0 i3 @0 ;; "
    io, c2 = vlib.run_lines(implS, ["CFG " + cfg, "HRUN 1 0 - " + script])
    run.count(("strlen",))
    steps, trailer = histcheck.parse_run(io[1]) if len(io) > 1 else ([], "")
    want = ["-|[]", "true|[i1]", f"true|[i1,s{s255}]", f"false|[i1,s{s255}]", f"true|[i1,s{s255},i2]"]
    got = [st[0].split("|0=")[0] for st in steps]
    if c2 or got[:5] != want or "leaked=0" not in trailer:
        oracle_fail.append((cfg, "HRUN 1 0 - " + script[:200], "255-byte string stored, 256-byte string refused cleanly (false, document intact)", str(got[:5])[:300] + (c2 or "")[-200:]))
    elif steps[3][1] != "1":
        oracle_fail.append((cfg, "HRUN 1 0 - " + script[:200], "overflowed() set when the string is too long", steps[3][1]))
    # ... also when the document already holds strings whose lengths are congruent to the over-long one modulo 256 (a length kept
    # in one byte must not make "abc" + 256 more bytes look like "abc"), as values and as keys, through several string kinds
    for kind in (0, 2, 3, 6):
        for pre in (b"", b"abc", b"k"):
            longs = hx(pre + b"z" * 256)
            P = hx(pre)
            script = (f"toarr 0 @0 ;; addval 0 s{P} @0 ;; addval 0 s{longs} @0 ;; addval 0 i2 @0 ;; "
                      f"toobj 1 @0,1 ;; setmember 1 {P} i1 @0,1 ;; setmember 1 {longs} i42 @0,1 ;; setmember 1 6f6b i3 @0,1 ;; ")
            io, c2 = vlib.run_lines(implS, ["CFG " + cfg, f"HRUN 2 {kind} - " + script])
            run.count(("strlen-congruent", kind, pre))
            steps, trailer = histcheck.parse_run(io[1]) if len(io) > 1 else ([], "")
            got = [st[0] for st in steps]
            want = ["-|[]|n", f"true|[s{P}]|n", f"false|[s{P}]|n", f"true|[s{P},i2]|n",
                    f"-|[s{P},i2]|{{}}", f"true|[s{P},i2]|{{{P}:i1}}", f"false|[s{P},i2]|{{{P}:i1}}", f"true|[s{P},i2]|{{{P}:i1,6f6b:i3}}"]
            gotv = [g_.rsplit("|", 1)[0] for g_ in got]
            if c2 or gotv != want or "leaked=0" not in trailer:
                k = next((i for i, (a_, b_) in enumerate(zip(gotv, want)) if a_ != b_), min(len(gotv), len(want)))
                oracle_fail.append((cfg, f"HRUN 2 {kind} - " + script[:300], f"a string of 256 + {len(pre)} bytes is refused cleanly although \"{pre.decode()}\" is already stored (step {k}: {want[k][:80] if k < len(want) else ''})",
                                    (gotv[k] if k < len(gotv) else "missing")[:200] + (c2 or "")[-200:]))
    run.cov["rule"] = ("geometry matrix %s (slot-id bytes, pool capacity, inline pools): (a) %d tree-model histories below the limits must give the geometry-free model's observables; "
                       "(b) random and scripted alloc/free/shrinkToFit/clear histories with allocator failures on the slot allocator, exactly at / below / above 2^(8*size)-1 slots: ids < NULL_SLOT "
                       "and equal to the proved pool model's; (b') array / object histories (add, insert beyond the end, remove, member add/remove, clear, shrinkToFit, failures) incl. filling to the last slot: "
                       "slot chains and allocator-call counts equal Model/Collection.v's and obey the proved list laws; (b'') deserializeJson / deserializeMsgPack of containers needing limit-1 / limit / limit+1 slots (Ok with every child, or NoMemory with overflowed()); (c) string length limit with 1-byte lengths; distinct = distinct (geometry, case)" % (matrix, nh))
    run.sample(dict(geometry=matrix[0], case="PRUN a0 a0 a1 f0 s a0 c a0"))
    jsonchecks.finish_standard(run, "C19", ok, info, oracle_fail, all_mism, harness="hist_h")

def replay(rp):
    if any(l.startswith("ARUN") for l in rp.get("lines", [])):
        return chaincheck.replay(rp)
    cfg = rp.get("cfg", "10001")
    name = rp.get("harness_src", "hist_h")
    h = vlib.need_harness(name, cfg, rp.get("defines"))
    bad = 0
    for l in rp.get("lines", []):
        l = l.split(" [geometry")[0]
        io, crash = vlib.run_lines(h, ["CFG " + cfg, l])
        print("run:", l[:1500]); print(" impl:", (io[1] if len(io) > 1 else io)[-1500:])
        if crash:
            print(crash[-2000:]); bad = 1
    return bad
