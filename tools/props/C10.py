"""C10 — deserializeJson accepts exactly the documented dialect and classifies the rest."""
import itertools, random
import vlib, gen_json, jsonchecks
from gen_json import hx

def token_stream(rnd, max_len, extra_random):
    seqs = set()
    for n in range(0, max_len + 1):
        for combo in itertools.product(gen_json.TOKENS, repeat=n):
            seqs.add(b"".join(combo))
    toks = gen_json.TOKENS
    while len(seqs) < extra_random + sum(len(toks) ** k for k in range(max_len + 1)) // 2 and extra_random:
        n = rnd.randrange(max_len + 1, max_len + 6)
        seqs.add(b"".join(rnd.choice(toks) for _ in range(n)))
        extra_random -= 1
    return sorted(seqs)

def check(run):
    rnd = random.Random(run.seed * 122949829 + 10)
    thorough = run.tier == "thorough"
    ok, info = vlib.proof_stage(run, "C10")
    model = vlib.need_model()
    oracle_fail, all_mism = [], []
    # comments x nan x inf x unicode (use_double fixed to 1): quick = 6 configurations incl. the two mixed NaN/Infinity ones
    if thorough:
        cfgs = ["%d%d%d%d1" % (u, c, n, i) for u in (1, 0) for c in (0, 1) for n in (0, 1) for i in (0, 1)]
    else:
        cfgs = ["10001", "11111", "10101", "10011", "01001", "00111"]
    specs = [("text_h", vlib.cfg_flags(c), {}) for c in cfgs]
    vlib.build_harnesses(specs)
    seqs = token_stream(rnd, 4 if thorough else 3, 60000 if thorough else 12000)
    valid = jsonchecks.valid_docs(rnd, 3000 if thorough else 600)
    valid_c = jsonchecks.valid_docs(rnd, 1200 if thorough else 300, comments=True)   # texts with comments, for the configurations that enable them
    for cfg in cfgs:
        impl = vlib.need_harness("text_h", cfg)
        lines = ["J 10 - " + hx(s) for s in seqs]
        # mutations and truncations of valid texts, dialect extensions
        muts = []
        for t, text in valid:
            for _ in range(3):
                muts.append(gen_json.mutate(rnd, text))
        for t, text in valid_c:
            muts.append(text)        # accepted when comments are enabled, refused at the comment otherwise
            muts.append(gen_json.mutate(rnd, text))
            cuts = [i + 1 for i in range(len(text)) if text[i:i + 1] in (b"*", b"/")]
            for i in rnd.sample(cuts, min(3, len(cuts))):
                muts.append(text[:i])
        ext = [b"{a:1}", b"{a_b1:'x'}", b"['x',\"y\"]", b"{'k':1}", b"[1,2]garbage", b"{\"a\":1}}", b"\"x\"y", b"true1", b"nullx",
               b"[1 2]", b"[1,]", b"[,1]", b"{,}", b"{\"a\"}", b"{\"a\":}", b"{:1}", b"[1,2", b"\"abc", b"{\"a\":1", b"[\"a", b"tru", b"nul", b"fals",
               b"+1", b"01", b"1.", b".5", b"1e", b"1e+", b"-", b"--1", b"1..2", b"0x10", b"1e5e5", b"NaN", b"nan", b"-NaN", b"Infinity", b"-Infinity", b"+inf",
               b"inf", b"[NaN]", b"[Infinity]", b"[-Infinity]", b"{\"x\":+Infinity}", b"[inf]", b"Nope", b"Inx", b"/**/1", b"1/**/", b"//x\n1", b"1//x", b"/*", b"/", b"[1/*x*/,2]",
               b"[1//c\n,2]", b"/* unterminated", b"// only a comment", b"// c\n", b"/**/", b" \t\r\n", b"", b"\x00", b" \x00[1]", b"[1]\x00[", b"\"\\u00:0\"", b"\"\\u00`0\"", b"\"\\uD83D\"",
               b"\"\\x\"", b"\"\\", b"'\\''", b"\"\\/\"", b"\"\x01\"", b"\xff", b"[\xff]", b"\"\xff\xfe\"", b"{\"a\":1,\"a\":2}", b"1" * 63, b"1" * 64, b"1" * 65, b"0." + b"0" * 61 + b"1",
               b"[" + b"1" * 64 + b"]"]
        # every byte value in every digit position of a \\u escape and after a backslash (the leaf tables of the reader)
        for c in range(1, 256):
            for pos in range(4):
                digits = [b"0", b"0", b"4", b"1"]
                digits[pos] = bytes([c])
                ext.append(b'"\\u' + b"".join(digits) + b'"')
            ext.append(b'"\\' + bytes([c]) + b'"')
            ext.append(b"[1" + bytes([c]) + b"2]")
        # a third of them with another nesting limit and with the filter `true` (which keeps everything): the same verdicts
        # as without a filter, whatever the order in which the two options are given (the harness alternates it)
        mlines = [("J %d 74727565 " % (1, 2, 3, 10)[(i // 3) % 4] if i % 3 == 1 else "J 10 - ") + hx(s) for i, s in enumerate(muts + ext)]
        L = lines + mlines
        mism, mo, io = vlib.correspond(run, model, impl, L, cfg, "dialect " + cfg)
        all_mism += [(cfg, m) for m in mism]
        comments = cfg[1] == "1"
        for l, o, mdl in zip(L, io, mo):
            if o == "<crash>":
                continue
            # the model accepts exactly the dialect of Spec/Dialect.v (C10_accepts_exactly_the_dialect): an input on which
            # model and library disagree about Ok / not Ok (or about the value) is a text inside the dialect that is
            # refused, or outside it that is accepted
            if (mdl.split(" ")[0] == "Ok") != (o.split(" ")[0] == "Ok"):
                oracle_fail.append((cfg, l, "accepted if and only if in the dialect (model, proved equal to Spec/Dialect.v: %s)" % mdl[:60], o[:100]))
                continue
            if mdl.split(" ")[0] == "Ok" and mdl.split(" ")[3:] != o.split(" ")[3:]:
                oracle_fail.append((cfg, l, "the value the dialect assigns: %s" % " ".join(mdl.split(" ")[3:])[:100], o[:100]))
                continue
            text = bytes.fromhex(l.split(" ")[3]) if l.split(" ")[3] != "-" else b""
            code = o.split(" ")[0]
            vis = text.split(b"\x00")[0]
            # only whitespace (and comments when enabled) => EmptyInput
            if vis.strip(b" \t\r\n") == b"" and code != "EmptyInput":
                oracle_fail.append((cfg, l, "EmptyInput", o[:100]))
            # strict RFC 8259 texts are accepted (independent parser says so)
            if code != "Ok" and b"\x00" not in text and cfg[0] == "1":
                try:
                    gen_json.expected_dump(text)
                    acc = True
                except Exception:
                    acc = False
                if acc and code != "TooDeep" and not too_long_literal(text):
                    oracle_fail.append((cfg, l, "Ok (Python json accepts this RFC 8259 text)", o[:100]))
            # NaN / Infinity only when the corresponding option is enabled
            if code == "Ok":
                d = o.split(" ")[3]
                if cfg[2] == "0" and "nan" in d:
                    oracle_fail.append((cfg, l, "NaN rejected when ARDUINOJSON_ENABLE_NAN=0", o[:100]))
                if cfg[3] == "0" and ("7f800000" in d or "ff800000" in d or "7ff0000000000000" in d or "fff0000000000000" in d) and not overflow_literal(text):
                    oracle_fail.append((cfg, l, "Infinity rejected when ARDUINOJSON_ENABLE_INFINITY=0", o[:100]))
                if not comments and (b"/*" in vis or b"//" in vis) and not in_string(vis):
                    first = vis.lstrip(b" \t\r\n")[:2]
                    if first in (b"/*", b"//"):
                        oracle_fail.append((cfg, l, "comments rejected when ARDUINOJSON_ENABLE_COMMENTS=0", o[:100]))
        # unclosed top-level array / object / string is never accepted: every proper prefix of the value
        plines = []
        for t, text in valid[: (600 if thorough else 150)]:
            if t[0] not in ("arr", "obj", "str"):
                continue
            body = text.rstrip(b" \t\r\n")
            for k in range(1, len(body)):
                plines.append("J 10 - " + hx(body[:k]))
        mism, mo, io = vlib.correspond(run, model, impl, plines, cfg, "unclosed prefixes")
        all_mism += [(cfg, m) for m in mism]
        for l, o in zip(plines, io):
            if o != "<crash>" and o.split(" ")[0] == "Ok":
                oracle_fail.append((cfg, l, "an unclosed top-level container/string is never accepted", o[:100]))
        run.sample(dict(cfg=cfg, case=lines[len(lines) // 2]))
    # NoMemory beyond the string capacity (C01_string_limit_is_exact / C10_long_string_is_NoMemory): a decoded string or
    # key of 65535 bytes is accepted, one of 65536 bytes is read to its closing quote and refused with NoMemory
    impl0 = vlib.need_harness("text_h", "10001")
    lim = []
    for n_, want in ((65535, "Ok"), (65536, "NoMemory"), (70000, "NoMemory")):
        body = b"a" * n_
        lim += [(b'"' + body + b'"', want), (b"'" + body + b"'", want), (b'["x","' + body + b'"]', want), (b'{"' + body + b'":1}', want),
                (b"{" + body + b":1}", want), (b'"' + b"a" * (n_ - 1) + b'\\n"', want), (b'"' + b"a" * (n_ - 2) + b'\\u00e9"', want),
                (b'  "' + body + b'" trailing', want)]
    llines = ["J 10 - " + hx(t) for t, _ in lim]
    lo, lcrash = vlib.run_sharded(impl0, llines, None, 600, ["CFG 10001"])
    if lcrash:
        run.violation("C10: library crashed on a string at the capacity limit: " + lcrash[:200], dict(kind="input", cfg="10001", lines=[llines[0][:100]], observed=lcrash[-2000:]))
    for (t, want), l, o in zip(lim, llines, lo):
        run.count(("10001", "limit", len(t), t[:6]))
        if o != "<crash>" and o.split(" ")[0] != want:
            oracle_fail.append(("10001", l[:120] + "...(%d bytes)" % len(t), want + " (strings and keys of at most 65535 bytes fit; longer ones are NoMemory)", o[:80]))
    if thorough:
        mism, _, _ = vlib.correspond(run, model, impl0, llines[:4] + llines[8:12], "10001", "string capacity limit", timeout=3000)
        all_mism += [("10001", m) for m in mism]
    run.cov["rule"] = ("bounded-exhaustive: every sequence of at most %d tokens over %d JSON tokens, plus random longer sequences, mutations and truncations of valid "
                       "texts, dialect extensions, every proper prefix of valid containers/strings; configurations %s (unicode comments nan inf use_double); oracle rules: "
                       "whitespace-only => EmptyInput, Python-json-accepted => Ok, NaN/Infinity/comments only when enabled, unclosed never Ok; model vs library on all; "
                       "distinct = distinct (configuration, text)" % (4 if thorough else 3, len(gen_json.TOKENS), ",".join(cfgs)))
    run.cov["exhaustive"] = False
    jsonchecks.finish_standard(run, "C10", ok, info, oracle_fail, all_mism)

def too_long_literal(text):
    import re
    return any(len(m) > 63 for m in re.findall(rb"[-+0-9.eE]+", text))

def overflow_literal(text):
    import re
    for m in re.findall(rb"-?[0-9][0-9.]*(?:[eE][-+]?[0-9]+)?", text):
        try:
            if abs(gen_json.lit_fraction(m.decode())) > 10 ** 300:
                return True
        except Exception:
            pass
    return False

def in_string(vis):
    return vis.lstrip(b" \t\r\n")[:1] in (b'"', b"'", b"[", b"{")

def replay(rp):
    return vlib.replay_lines(rp)
