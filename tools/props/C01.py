"""C01 — valid JSON deserializes to exactly the value it denotes."""
import random
import vlib, gen_json
from gen_json import hx

def run_valid(run, model, impl, cfg, n, rnd, oracle_fail, all_mism, label="valid RFC 8259 texts", unicode_on=True):
    g = gen_json.Gen(rnd, unicode_on=unicode_on, comments=(cfg[1] == "1"))
    docs = []
    while len(docs) < n:
        t, text = g.document()
        if gen_json.depth(t) > 10:
            continue
        docs.append((t, text))
    # texts whose strings are built in a scratch buffer left over from an earlier (duplicate) string of another length
    docs += [(None, text) for text in gen_json.reuse_texts(rnd, max(30, n // 8))]
    lines = ["J 10 - " + hx(text) for _, text in docs]
    mism, mo, io = vlib.correspond(run, model, impl, lines, cfg, label)
    all_mism += mism
    for (t, text), l, o in zip(docs, lines, io):
        if o == "<crash>":
            continue
        parts = o.split(" ")
        try:
            exp = gen_json.expected_dump(text, comments=(cfg[1] == "1"))
        except Exception as e:   # generator bug: not valid JSON for the oracle
            run.notes.append("oracle rejected a generated text: %r %s" % (text[:60], e))
            continue
        if parts[0] != "Ok":
            oracle_fail.append((l, "Ok", o, text))
            continue
        msg = gen_json.match_dump(exp, parts[3])
        if msg:
            oracle_fail.append((l, msg, o, text))
    return docs

def check(run):
    rnd = random.Random(run.seed * 7919 + 1)
    thorough = run.tier == "thorough"
    ok, info = vlib.proof_stage(run, "C01")
    model = vlib.need_model()
    oracle_fail, all_mism = [], []
    cfgs = ["10001"] + (["11111", "10000"] if thorough else ["11111"])
    n = 60000 if thorough else 6000
    for cfg in cfgs:
        impl = vlib.need_harness("text_h", cfg)
        gen_json.FLOAT_ONLY = cfg[4] == "0"
        docs = run_valid(run, model, impl, cfg, n if cfg == "10001" else n // 4, rnd, oracle_fail, all_mism)
        run.sample(dict(text=docs[0][1].decode("latin1"), cfg=cfg))
        run.sample(dict(text=docs[1][1].decode("latin1"), cfg=cfg))
    gen_json.FLOAT_ONLY = False
    run.cov["rule"] = ("grammar-directed random RFC 8259 texts (random whitespace, escape spelling incl. \\uXXXX and surrogate pairs, "
                       "number spellings aimed at 2^63/2^64, FLT_MAX, exponent limits; duplicate, empty, NUL-containing and prefix-related keys); "
                       "each is run through the extracted model and the rebuilt library (dirty destination) and the library's document is "
                       "compared with Python's json module (exact rationals for the C12 tolerance); distinct = distinct text")
    run.assumptions += ["ARDUINOJSON_DECODE_UNICODE=1; nesting <= 10; literals <= 63 chars; memory available"]
    for l, e, o, text in oracle_fail[:5]:
        run.violation(f"C01 oracle: text {text[:80]!r}: {e}; library returned {o[:120]}",
                      dict(kind="input", cfg="10001", lines=[l], expected=str(e), observed=o, text=text.decode("latin1")))
    if not oracle_fail:
        for k, l, a, b in all_mism[:5]:
            run.violation(f"model/implementation disagree on {l[:100]}: model {a[:100]} impl {b[:100]}",
                          dict(kind="input", lines=[l], model=a, observed=b, failing_input=False,
                               note="correspondence broken; the Python oracle accepts the library's result"))
    if not ok:
        for p in info["problems"]:
            if not oracle_fail:
                run.violation(p, dict(kind="obligation", theorem="Properties_C01: " + p[:200], failing_input=False,
                                      detail=info["log"][-2000:]))

def replay(rp):
    return vlib.replay_lines(rp)
