"""C13 — typed extraction is exact when it fits and zero otherwise, never undefined."""
import math, random, struct
from fractions import Fraction
import vlib, gen_doc, jsonchecks
from gen_doc import hx, dump

TYPES = [("i8", True, 8), ("u8", False, 8), ("i16", True, 16), ("u16", False, 16), ("i32", True, 32), ("u32", False, 32),
         ("i64", True, 64), ("u64", False, 64)]

def lo_hi(signed, bits):
    return (-(1 << (bits - 1)), (1 << (bits - 1)) - 1) if signed else (0, (1 << bits) - 1)

def expected_int(v, signed, bits):
    """C13's rule on the exact value of a stored number"""
    lo, hi = lo_hi(signed, bits)
    x = gen_doc.num_value(v)
    if isinstance(x, float):      # NaN / infinities
        return 0
    if lo <= x <= hi:
        return int(x) if x >= 0 else -int(-x)     # truncation toward zero
    return 0

def nearest_f32(x):
    """the binary32 value nearest to x (ties to even), computed exactly from the rational value — never through a
    double, which would round twice"""
    if isinstance(x, float):
        if math.isnan(x) or math.isinf(x):
            return x
    q = Fraction(x)
    if q == 0:
        return 0.0 if not (isinstance(x, float) and math.copysign(1.0, x) < 0) else -0.0
    sign = -1 if q < 0 else 1
    a = abs(q)
    e = a.numerator.bit_length() - a.denominator.bit_length()
    if Fraction(2) ** e > a:
        e -= 1                                  # 2^e <= a < 2^(e+1)
    qexp = max(e, -126) - 23                    # exponent of the last mantissa bit (subnormals share -149)
    scaled = a / Fraction(2) ** qexp
    m = scaled.numerator // scaled.denominator
    rem = scaled - m
    if rem > Fraction(1, 2) or (rem == Fraction(1, 2) and m % 2 == 1):
        m += 1
    val = Fraction(m) * Fraction(2) ** qexp
    if val >= Fraction(2) ** 128:
        return sign * math.inf
    return sign * float(val)                    # exactly representable, so float() is exact

def values(rnd, n, thorough):
    out = []
    for z in gen_doc.INT_BOUNDS:
        out.append(("i", z))
    for b in gen_doc.F32_SPECIAL:
        out.append(("F", b))
    for b in gen_doc.F64_SPECIAL:
        out.append(("D", b))
    # within 2 of every power of two and type limit, as integers, floats and doubles (exactly representable or nearest)
    for p in list(range(0, 66)):
        for d in (-2, -1, 0, 1, 2):
            for s in (1, -1):
                z = s * (1 << p) + d
                if -2 ** 63 <= z < 2 ** 64:
                    out.append(("i", z))
                out.append(("D", gen_doc.f64_bits(float(z))))
                out.append(("D", gen_doc.f64_bits(float(z) + 0.5)))
                out.append(("D", gen_doc.f64_bits(math.nextafter(float(z), math.inf))))
                out.append(("D", gen_doc.f64_bits(math.nextafter(float(z), -math.inf))))
                try:
                    fb = gen_doc.f32_bits(float(z))
                    out.append(("F", fb))
                    out.append(("F", (fb + 1) & 0xffffffff))
                    out.append(("F", (fb - 1) & 0xffffffff))
                except OverflowError:
                    pass
    # integers just beside a float midpoint (and a double midpoint): converting through a wider format first (double
    # rounding), or truncating instead of rounding, gives a neighbour of the nearest value
    for e in range(25, 64):
        for _ in range(6):
            j = rnd.randrange(0, 1 << 22)
            mid = ((1 << 24) + 2 * j + 1) << (e - 24)          # exactly between two adjacent floats
            for z in (mid + 1, mid - 1, mid, mid + (1 << max(0, e - 54)), mid - (1 << max(0, e - 54))):
                for sgn in (1, -1):
                    if -2 ** 63 <= sgn * z < 2 ** 64:
                        out.append(("i", sgn * z))
    for e in range(54, 64):
        for _ in range(6):
            j = rnd.randrange(0, 1 << 51)
            mid = ((1 << 53) + 2 * j + 1) << (e - 53)          # exactly between two adjacent doubles
            for z in (mid + 1, mid - 1, mid):
                for sgn in (1, -1):
                    if -2 ** 63 <= sgn * z < 2 ** 64:
                        out.append(("i", sgn * z))
    while len(out) < n:
        k = rnd.random()
        if k < 0.3:
            out.append(("i", rnd.randrange(-2 ** 63, 2 ** 64)))
        elif k < 0.6:
            out.append(("F", rnd.getrandbits(32)))
        else:
            out.append(("D", rnd.getrandbits(64)))
    return out

def numeric_strings(rnd, n):
    out = []
    for _ in range(n):
        k = rnd.random()
        if k < 0.3:
            s = str(rnd.choice(gen_doc.INT_BOUNDS + [2 ** 64, -2 ** 63 - 1, 10 ** 20]))
        elif k < 0.4:
            # integer literals of 19-23 digits on both sides of the 64-bit limits (digit accumulation overflows somewhere in here)
            s = rnd.choice(["", "-"]) + str(rnd.randrange(10 ** 18, 10 ** rnd.choice([19, 20, 20, 20, 21, 22, 23])))
        elif k < 0.5:
            s = "0" * rnd.randrange(0, 30) + str(rnd.randrange(0, 2 ** 64))
        elif k < 0.7:
            s = "%s%d.%s" % (rnd.choice(["", "-"]), rnd.randrange(0, 10 ** rnd.randrange(1, 12)), "".join(rnd.choice("0123456789") for _ in range(rnd.randrange(1, 30))))
        elif k < 0.8:
            s = "%d%se%s%d" % (rnd.randrange(1, 999), "0" * rnd.randrange(0, 5), rnd.choice(["", "-", "+"]), rnd.randrange(0, 400))
        elif k < 0.9:
            # arbitrary length: thousands of digits
            s = rnd.choice(["1", "9", "12345"]) + "0" * rnd.choice([100, 600, 5000, 40000]) + rnd.choice(["", ".5", "e-5000"])
        else:
            s = rnd.choice(["0." + "0" * rnd.choice([10, 400, 40000]) + "1", "3.4028235e38", "3.4028236e38", "3.5e38", "-3.4028235e38", "1e39", "-1e300", "1e-46", "1.4e-45", "abc", "", "1x", "0x10", " 1", "1 ", "--1", "+5", "-0", "1e", "NaN", "inf", "12\x0034", ".", "-", "1e999999999999"])
        out.append(s.encode("latin1"))
    return out

def check(run):
    rnd = random.Random(run.seed * 179424673 + 13)
    thorough = run.tier == "thorough"
    ok, info = vlib.proof_stage(run, "C13")
    model = vlib.need_model()
    cfg = "10001"
    impl = vlib.need_harness("num_h", cfg)
    oracle_fail, all_mism = [], []
    vals = values(rnd, 120000 if thorough else 12000, thorough)
    lines = ["AS 0 " + dump(v) for v in vals]
    mism, mo, io = vlib.correspond(run, model, impl, lines, cfg, "as<T>/is<T> on stored numbers")
    all_mism += [(cfg, m) for m in mism]
    for v, l, o in zip(vals, lines, io):
        if o == "<crash>":
            continue
        if "DIFFERS" in o:
            oracle_fail.append((cfg, l, "long == long long, operator| consistent", o))
            continue
        f = dict(p.split("=") for p in o.split(" "))
        x = gen_doc.num_value(v)
        for i, (name, signed, bits) in enumerate(TYPES):
            e = expected_int(v, signed, bits)
            if int(f[name]) != e:
                oracle_fail.append((cfg, l, f"as<{name}> = {e}", o))
            lo, hi = lo_hi(signed, bits)
            eis = v[0] == "i" and lo <= v[1] <= hi
            if (f["is"][i] == "1") != eis:
                oracle_fail.append((cfg, l, f"is<{name}> = {eis}", o))
            if eis:
                # agrees with as<U>() for every wider U
                for name2, s2, b2 in TYPES:
                    lo2, hi2 = lo_hi(s2, b2)
                    if lo2 <= lo and hi <= hi2 and int(f[name2]) != v[1]:
                        oracle_fail.append((cfg, l, f"as<{name2}> agrees with as<{name}>", o))
        # floating targets: nearest representable value
        if isinstance(x, float):
            ed = x
        else:
            ed = float(x) if abs(x) < Fraction(2) ** 1024 else (math.inf if x > 0 else -math.inf)
        got = gen_doc_float(f["f64"])
        if not same_float(got, ed):
            oracle_fail.append((cfg, l, f"as<double> = {ed!r}", o))
        ef = nearest_f32(x)
        got = gen_doc_float(f["f32"])
        if not same_float(got, ef):
            oracle_fail.append((cfg, l, f"as<float> = {ef!r}", o))
    # numeric strings, both storage kinds (copied / linked)
    strs = numeric_strings(rnd, 6000 if thorough else 1200)
    for kind in (0, 1):
        lines = [f"AS {kind} s{hx(s)}" for s in strs if kind == 0 or b"\0" not in s]
        mism, mo, io = vlib.correspond(run, model, impl, lines, cfg, "numeric strings kind=%d" % kind)
        all_mism += [(cfg, m) for m in mism]
        for l, o in zip(lines, io):
            if o == "<crash>":
                continue
            s = bytes.fromhex(l.split(" ")[2][1:]) if len(l.split(" ")[2]) > 1 and l.split(" ")[2] != "s-" else b""
            txt = s.decode("latin1")
            f = dict(p.split("=") for p in o.split(" ") if "=" in p)
            # integer literals convert by the integer rules
            body = txt[1:] if txt[:1] in "+-" else txt
            if body.isdigit() and len(body) < 25:
                z = int(txt)
                if -2 ** 63 <= z < 2 ** 64:
                    for name, signed, bits in TYPES:
                        lo, hi = lo_hi(signed, bits)
                        e = z if lo <= z <= hi else 0
                        if int(f[name]) != e:
                            oracle_fail.append((cfg, l, f"as<{name}>(\"{txt[:30]}\") = {e}", o))
            if body.isdigit() and len(body) < 60:
                z = int(txt)
                if z >= 2 ** 64 + 2 ** 13 or z <= -2 ** 63 - 2 ** 13:
                    # clearly outside every integral type: 0, never a wrapped value; and still the right magnitude as a double
                    for name, signed, bits in TYPES:
                        if int(f[name]) != 0:
                            oracle_fail.append((cfg, l, f"as<{name}>(\"{txt[:30]}\") = 0 (out of range, not wrapped)", o))
                            break
                    gd = gen_doc_float(f["f64"])
                    if math.isinf(gd) or math.isnan(gd) or abs(Fraction(gd) - z) > Fraction(abs(z), 10 ** 13):
                        oracle_fail.append((cfg, l, f"as<double>(\"{txt[:30]}\") within 1e-13 of {z}", o))
            if f["is"] != "0000000000":
                oracle_fail.append((cfg, l, "is<number>() false for a string", o))
            # a string converts to float by the same rule as the stored number it denotes: as<float>() is the float nearest
            # to what as<double>() returns (infinity beyond the float range, never 0 for a large value)
            g64 = gen_doc_float(f["f64"])
            g32 = gen_doc_float(f["f32"])
            if not (math.isnan(g64) and math.isnan(g32)) and not same_float(g32, nearest_f32(g64)):
                oracle_fail.append((cfg, l, f"as<float>(\"{txt[:30]}\") = the float nearest to as<double>() = {nearest_f32(g64)!r}", o))
    # copyArray: document -> C arrays (1-d with explicit length, 2-d, char arrays), destination inside guard elements
    ca_lines = []
    def small_elem():
        k = rnd.random()
        if k < 0.5: return ("i", rnd.choice([0, 1, -1, 7, 255, 256, -129, 2 ** 31 - 1, 2 ** 31, -2 ** 31 - 1, 2 ** 63, rnd.randrange(-1000, 1000)]))
        if k < 0.65: return ("D", struct.unpack(">Q", struct.pack(">d", rnd.choice([1.5, -2.75, 1e10, 3e9, -1e30, 255.9])))[0])
        if k < 0.75: return ("s", rnd.choice([b"12", b"x", b"-7", b""]))
        if k < 0.85: return rnd.choice([None, True, False])
        return [("i", rnd.randrange(100)) for _ in range(rnd.randrange(0, 4))]
    for _ in range(1500 if thorough else 300):
        n = rnd.choice([0, 1, 2, 3, 4, 5, 8, 17])
        src = [small_elem() for _ in range(n)] if rnd.random() < 0.9 else small_elem()
        ca_lines.append("CA1 %s %d %s" % (rnd.choice(["i32", "u8", "i64"]), rnd.choice([0, 1, 2, 3, 4, 5, 8, 16]), dump(src)))
    for _ in range(1000 if thorough else 200):
        rows = []
        for _ in range(rnd.choice([0, 1, 2, 3, 4, 5, 6])):
            rows.append([("i", rnd.randrange(-5, 100)) for _ in range(rnd.choice([0, 1, 2, 3, 4, 5, 7]))] if rnd.random() < 0.85 else small_elem())
        src = rows if rnd.random() < 0.95 else small_elem()
        ca_lines.append("CA2 %s %s" % (rnd.choice(["3x2", "2x4", "1x1", "4x3"]), dump(src)))
    for _ in range(600 if thorough else 150):
        ln = rnd.choice([0, 1, 2, 3, 4, 5, 7, 8, 9, 15, 16, 17, 40])
        sv = ("s", bytes(rnd.choice(b"abc\x00xyz") for _ in range(ln))) if rnd.random() < 0.9 else small_elem()
        ca_lines.append("CAS %s %s" % (rnd.choice(["1", "2", "4", "8", "16"]), dump(sv)))
    mism, mo, io = vlib.correspond(run, model, impl, ca_lines, cfg, "copyArray")
    all_mism += [(cfg, m) for m in mism]
    for l, o in zip(ca_lines, io):
        if o == "<crash>":
            continue
        if "GUARD-OVERWRITTEN" in o:
            oracle_fail.append((cfg, l, "copyArray writes nothing outside the destination it was given", o))
            continue
        f = l.split(" ")
        if f[0] == "CA1":
            # independent of the model: count = min(size, len); elements beyond the count keep their previous value (90)
            got = [int(x) for x in o.split("[")[1].rstrip("]").split(",") if x != ""]
            cnt = int(o.split(" ")[0])
            if cnt > int(f[2]) or any(x != 90 for x in got[cnt:]) or len(got) != int(f[2]):
                oracle_fail.append((cfg, l, "count <= len and elements beyond the count untouched", o))
    # the other direction (C arrays -> document): run on the library only, expected text computed here
    cad_lines, cad_exp = [], []
    for _ in range(400 if thorough else 80):
        vals = [rnd.choice([0, 1, -1, 255, 2 ** 31, -2 ** 31 - 1, 2 ** 63 - 1, -2 ** 63, rnd.randrange(-10 ** 6, 10 ** 6)]) for _ in range(rnd.choice([0, 1, 2, 3, 4, 9, 40]))]
        cad_lines.append("CAD " + dump([("i", v) for v in vals]))
        di = lambda v: "i%d" % v
        f3 = (vals + [0, 0, 0])[:3]
        one = "[" + ",".join(di(v) for v in vals) + "]"
        fx = "[" + ",".join(di(v) for v in f3) + "]"
        fr = "[" + ",".join(di(v) for v in f3[::-1]) + "]"
        cad_exp.append(f"true {one} true {{6d:[{','.join(['i0'] + [di(v) for v in vals])}]}} true {fx} true {{6b:{fx}}} true [{fx},{fr}] true [s616263]")
    cad_out, cad_crash = vlib.run_sharded(impl, cad_lines, None, 600, ["CFG " + cfg])
    if cad_crash:
        run.violation("C13: library crashed in copyArray(C array -> document): " + cad_crash[:200], dict(kind="input", cfg=cfg, harness_src="num_h", lines=[cad_lines[0]], observed=cad_crash[-2000:]))
    for l, e, o in zip(cad_lines, cad_exp, cad_out):
        run.count(l)
        if o != "<crash>" and o != e:
            oracle_fail.append((cfg, l, "copyArray(C array -> document) stores exactly the given numbers: " + e[:200], o[:300]))
    run.cov["rule"] = ("copyArray(document -> T* with length / T[N1][N2] / char[N]) on arrays shorter, equal and longer than the destination, rows of uneven length, non-array "
                       "sources and elements, strings around N with embedded NUL: destination placed between guard elements (none may change), result and count equal the "
                       "model's (Convert.copy_array_1d / copy_array_2d / copy_string, proved never to write beyond the destination); copyArray(C array -> document, JsonArray, member; 1-D, pointer+length, 2-D, char[]) against the numbers given; enumerations and bool as conversion targets; "
                       "stored numbers: integer/float/double within 2 of every power of two and type limit (values, halves, neighbours), special floats, random; "
                       "8 integral targets + float + double + is<T>; oracle: C13's rule on the exact rational value (Python Fraction), nearest representable for "
                       "floating targets, is<T> => as<U> agrees for wider U; numeric strings of up to 40000 digits as copied and as linked strings; "
                       "UBSan float-cast-overflow and ASan on; distinct = distinct case line")
    run.sample(dict(case=lines[0], meaning="AS <0 copied|1 linked> <value dump> -> as<T> for 8 integer types, float, double, is<T> bits"))
    jsonchecks.finish_standard(run, "C13", ok, info, oracle_fail, all_mism, harness="num_h")

def gen_doc_float(d):
    import gen_json
    return gen_json.float_from_dump(d)

def same_float(a, b):
    if math.isnan(a) or (isinstance(b, float) and math.isnan(b)):
        return math.isnan(a) and isinstance(b, float) and math.isnan(b)
    return a == b

def replay(rp):
    return vlib.replay_lines(rp, "num_h")
