"""C20 — distinct documents can be used from distinct threads without synchronisation."""
import random, re
import vlib, histcheck, jsonchecks

def check(run):
    rnd = random.Random(run.seed * 353868013 + 20)
    thorough = run.tier == "thorough"
    ok, info = vlib.proof_stage(run, "C20")
    model = vlib.need_model()
    cfg = "10001"
    impl = vlib.need_harness("conc_h", cfg, sanitize="thread")
    oracle_fail, all_mism = [], []
    nruns = 60 if thorough else 10
    rounds = 30 if thorough else 8
    lines = []
    for k in range(nruns):
        nthreads = rnd.choice([2, 3, 4, 8])
        seeds = [run.seed * 100000 + 2000000 + k * 10 + t for t in range(nthreads)]
        hists = histcheck.gen_histories(model, seeds, 50, ndocs=2)
        lines.append(f"CRUN {rounds} 2 " + " ### ".join(hists))
    outs, crash = vlib.run_sharded(impl, lines, min(4, len(lines)), 1800, ["CFG " + cfg],
                                   env={"TSAN_OPTIONS": "halt_on_error=1 exitcode=97 second_deadlock_stack=1"})
    for l, o in zip(lines, outs):
        run.count((l[:200], len(l)))
        if o == "<crash>":
            continue
        if not o.startswith("SAME"):
            oracle_fail.append((cfg, l[:4000], "every thread gets the results of its sequential run", o))
    if crash:
        k = outs.index("<crash>") if "<crash>" in outs else 0
        what = "ThreadSanitizer: data race" if "ThreadSanitizer" in crash else "crash"
        run.violation(f"C20: {what} while threads work on distinct documents: " + " ".join(crash.split("\n")[1:4])[:300],
                      dict(kind="schedule", cfg=cfg, harness_src="conc_h", lines=[lines[k][:8000]], observed=crash[-4000:]))
    # the sequential correspondence of the same histories with the tree model (ties the per-thread semantics)
    implH = vlib.need_harness("hist_h", cfg)
    seeds = [run.seed * 100000 + 2100000 + k for k in range(150 if thorough else 40)]
    hists = histcheck.gen_histories(model, seeds, 50, ndocs=2)
    outs, crash2 = histcheck.run_histories(implH, hists, ndocs=2)
    for seed, h, o in zip(seeds, hists, outs):
        run.count(("seq", seed))
        if o == "<crash>":
            continue
        ops, exp = histcheck.split_history(h)
        steps, trailer = histcheck.parse_run(o)
        k = histcheck.first_divergence(exp, steps)
        if k is not None:
            all_mism.append((cfg, (k, f"HRUN 2 0 - {' ;; '.join(h.split(' ;; ')[:k + 1])} ;; ", exp[k][:200], steps[k][0][:200] if k < len(steps) else "missing")))
    run.cov["rule"] = ("%d runs of 2-8 threads x %d rounds: each thread replays its own 50-operation history (building, reading, deserializing, serializing, copying) on its own two documents "
                       "with the shared default allocator, and after every step copies a document shared read-only and deserializes with a filter taken from it (const access); per-thread outputs "
                       "must equal the sequential run's; schedules perturbed by seeded yields; ThreadSanitizer on; plus the inventory obligation regenerated from the source; "
                       "distinct = distinct set of per-thread histories" % (nruns, rounds))
    run.sample(dict(case=lines[0][:300]))
    run.assumptions += ["partial: data races are a runtime fact of the C++ memory model; the theorem is about the model's per-thread state, the inventory about declarations and symbols, "
                        "ThreadSanitizer explores the schedules that happened"]
    # when the inventory obligation broke, name the offending entries (that is the concrete finding)
    if not ok:
        try:
            src = open(vlib.COQ + "/theories/Gen/Globals.v").read()
            allowed = open(vlib.COQ + "/theories/Model/Conc.v").read()
            bad = [n for n, w in re.findall(r'\("([^"]*)", (true|false)\)', src) if w == "true" and ('"' + n + '"') not in allowed]
            for n in bad[:5]:
                run.violation("C20: the library now defines mutable static state: " + n,
                              dict(kind="obligation", theorem="C20_no_hidden_state", failing_input=True, entry=n))
            if bad:
                ok = True    # reported with a concrete witness; do not duplicate as no-failing-input-found
        except OSError:
            pass
    jsonchecks.finish_standard(run, "C20", ok, info, oracle_fail, all_mism, harness="conc_h")

def replay(rp):
    cfg = rp.get("cfg", "10001")
    if rp.get("entry"):
        print("mutable static state in the library:", rp["entry"])
        import translate
        translate.run(vlib.REPO, vlib.COQ + "/theories/Gen", vlib.BUILD)
        print("present in the regenerated inventory:", rp["entry"] in open(vlib.COQ + "/theories/Gen/Globals.v").read())
        return 1 if rp["entry"] in open(vlib.COQ + "/theories/Gen/Globals.v").read() else 0
    h = vlib.need_harness("conc_h", cfg, sanitize="thread")
    bad = 0
    for l in rp.get("lines", []):
        io, crash = vlib.run_lines(h, ["CFG " + cfg, l], env={"TSAN_OPTIONS": "halt_on_error=1 exitcode=97"})
        print(" impl:", io[-1] if io else "")
        if crash:
            print(crash[-3000:]); bad = 1
    return bad
