"""C18 — comparison operators form one coherent relation that agrees with the values."""
import math, random
from fractions import Fraction
import vlib, gen_doc, jsonchecks
from gen_doc import hx, dump

def pool(rnd, thorough):
    vals = ["U", None, True, False]
    ints = [0, 1, -1, 2, 5, 127, 128, 255, 256, -128, -129, 2 ** 31 - 1, 2 ** 31, -2 ** 31, 2 ** 32 - 1, 2 ** 32, 2 ** 53 - 1, 2 ** 53, 2 ** 53 + 1,
            2 ** 63 - 1, 2 ** 63, 2 ** 64 - 1, -2 ** 63, -2 ** 63 + 1, 9007199254740993, -9007199254740993, 10 ** 18]
    vals += [("i", z) for z in ints]
    f32 = [0x00000000, 0x80000000, 0x3f800000, 0xbf800000, 0x40000000, 0x40a00000, 0x7f7fffff, 0xff7fffff, 0x7f800000, 0xff800000, 0x7fc00000,
           0x4f000000, 0x4f800000, 0x5f000000, 0xdf000000, 0x3dcccccd, 0x4b000000]
    vals += [("F", b) for b in f32]
    f64 = [0, 1 << 63, 0x3ff0000000000000, 0xbff0000000000000, 0x4000000000000000, 0x4014000000000000, 0x7ff0000000000000, 0xfff0000000000000,
           0x7ff8000000000000, 0x43e0000000000000, 0x43f0000000000000, 0xc3e0000000000000, 0x4340000000000000, 0x4340000000000001,
           0x3fb999999999999a, 0x41dfffffffc00000, 0x41e0000000000000, 0x3ff0000000000001]
    vals += [("D", b) for b in f64]
    strs = [b"", b"a", b"ab", b"abc", b"b", b"A", b"a\0", b"a\0b", b"\x80", b"\xff", b"a\x80", b"1", b"12", b"true", b"null"]
    vals += [("s", s) for s in strs]
    vals += [("r", s) for s in (b"1", b"12", b"2", b"", b"\"a\"", b"[1]", b"\xff", b"1\0")]
    vals += [[], [("i", 1)], [("i", 1), ("i", 2)], [("i", 2), ("i", 1)], [("D", 0x3ff0000000000000)], [("D", 0x3ff0000000000000), ("F", 0x40000000)],
             [[("i", 1)]], [[]], [None], [("s", b"a")], [("D", 0x7ff8000000000000)]]
    vals += [("o", []), ("o", [(b"a", ("i", 1))]), ("o", [(b"a", ("i", 1)), (b"b", ("i", 2))]), ("o", [(b"b", ("i", 2)), (b"a", ("i", 1))]),
             ("o", [(b"a", ("D", 0x3ff0000000000000))]), ("o", [(b"a", ("i", 2))]), ("o", [(b"b", ("i", 1))]), ("o", [(b"a", None)]),
             ("o", [(b"a\0b", ("i", 1))]), ("o", [(b"a", ("o", [(b"x", [("i", 1)])]))]), ("o", [(b"a", ("o", [(b"x", [("F", 0x3f800000)])]))]),
             ("o", [(b"", ("i", 1))])]
    if thorough:
        g = gen_doc.DocGen(rnd, max_depth=2, raw=True)
        vals += [g.value() for _ in range(250)]
    return vals

def by_value(a, b):
    """the order/equality C18 prescribes, or None when the property leaves it open (different kinds,
    booleans against numbers): returns 'lt' 'eq' 'gt' 'ne'"""
    if a == "U":
        a = None
    if b == "U":
        b = None
    def kind(v):
        if v is None: return "null"
        if isinstance(v, bool): return "bool"
        if isinstance(v, list): return "arr"
        return {"i": "num", "F": "num", "D": "num", "s": "str", "r": "raw", "o": "obj"}[v[0]]
    ka, kb = kind(a), kind(b)
    if ka == "null" or kb == "null":
        return "eq" if ka == kb else "ne"
    if ka != kb:
        return None if {ka, kb} == {"bool", "num"} else "ne"
    if ka == "bool":
        return "eq" if a == b else ("lt" if (not a and b) else "gt")
    if ka == "num":
        if a[0] == "i" and b[0] == "i":
            return "eq" if a[1] == b[1] else ("lt" if a[1] < b[1] else "gt")
        x = to_double(a); y = to_double(b)
        if math.isnan(x) or math.isnan(y):
            return "ne"
        return "eq" if x == y else ("lt" if x < y else "gt")
    if ka in ("str", "raw"):
        return "eq" if a[1] == b[1] else "order"
    if ka == "arr":
        if len(a) != len(b):
            return "ne"
        for x, y in zip(a, b):
            r = by_value(x, y)
            if r is None:
                return None
            if r != "eq":
                return "ne"
        return "eq"
    if ka == "obj":
        if len(a[1]) != len(b[1]) or len({k for k, _ in a[1]}) != len(a[1]) or len({k for k, _ in b[1]}) != len(b[1]):
            return "ne" if len(a[1]) != len(b[1]) else None
        db = dict(b[1])
        for k, x in a[1]:
            if k not in db:
                return "ne"
            r = by_value(x, db[k])
            if r is None:
                return None
            if r != "eq":
                return "ne"
        return "eq"

def to_double(v):
    if v[0] == "i":
        return float(v[1])
    return gen_doc.bits_f32(v[1]) if v[0] == "F" else gen_doc.bits_f64(v[1])

def has_dup_keys(v):
    if isinstance(v, list):
        return any(has_dup_keys(x) for x in v)
    if isinstance(v, tuple) and v[0] == "o":
        ks = [k for k, _ in v[1]]
        return len(set(ks)) != len(ks) or any(has_dup_keys(x) for _, x in v[1])
    return False

def check(run):
    rnd = random.Random(run.seed * 198491317 + 18)
    thorough = run.tier == "thorough"
    ok, info = vlib.proof_stage(run, "C18")
    model = vlib.need_model()
    cfg = "10001"
    impl = vlib.need_harness("num_h", cfg)
    oracle_fail, all_mism = [], []
    vals = pool(rnd, thorough)
    pairs = [(a, b) for a in vals for b in vals]
    if not thorough and len(pairs) > 14000:
        rnd.shuffle(pairs)
        pairs = pairs[:14000]
    d = lambda v: "U" if v == "U" else dump(v)
    lines = [f"CMP {d(a)} {d(b)}" for a, b in pairs]
    mism, mo, io = vlib.correspond(run, model, impl, lines, cfg, "operators")
    all_mism += [(cfg, m) for m in mism]
    for (a, b), l, o in zip(pairs, lines, io):
        if o == "<crash>":
            continue
        if "DIFFERS" in o:
            oracle_fail.append((cfg, l, "variant-vs-scalar operators agree with variant-vs-variant, and the result depends neither on the integer type (signed or unsigned) that stores a value nor on two strings sharing one buffer", o))
            continue
        eq, ne, lt, le, gt, ge, req, rne, rlt, rle, rgt, rge = [c == "1" for c in o[:12]]
        laws = []
        if eq != req: laws.append("a==b iff b==a")
        if ne != (not eq): laws.append("a!=b iff not a==b")
        if lt != rgt: laws.append("a<b iff b>a")
        if gt != rlt: laws.append("a>b iff b<a")
        if le != (lt or eq): laws.append("a<=b iff a<b or a==b")
        if ge != (gt or eq): laws.append("a>=b iff a>b or a==b")
        if (lt + eq + gt) > 1: laws.append("at most one of < == >")
        if laws:
            oracle_fail.append((cfg, l, "; ".join(laws), o))
            continue
        r = by_value(a, b)
        if r is None:
            continue
        want = {"eq": (True, False, False), "lt": (False, True, False), "gt": (False, False, True), "ne": (False, False, False)}
        if r == "order":
            if eq:
                oracle_fail.append((cfg, l, "different bytes are not equal", o))
        elif (eq, lt, gt) != want[r]:
            oracle_fail.append((cfg, l, f"by value: {r}", o))
    # the same relation in a build without doubles (ARDUINOJSON_USE_DOUBLE=0: floats are the only floating-point storage):
    # integers against floats still compare by numeric value, as doubles
    def has_double(v):
        if isinstance(v, list): return any(has_double(x) for x in v)
        if isinstance(v, tuple) and v[0] == "o": return any(has_double(x) for _, x in v[1])
        return isinstance(v, tuple) and v[0] == "D"
    cfg0 = "10000"
    impl0 = vlib.need_harness("num_h", cfg0)
    vals0 = [v for v in vals if not has_double(v)]
    pairs0 = [(a, b) for a in vals0 for b in vals0 if (isinstance(a, tuple) and a[0] in "iF") or (isinstance(b, tuple) and b[0] in "iF")]
    if len(pairs0) > (20000 if thorough else 5000):
        rnd.shuffle(pairs0)
        pairs0 = pairs0[: (20000 if thorough else 5000)]
    lines0 = [f"CMP {d(a)} {d(b)}" for a, b in pairs0]
    mism, mo0, io0 = vlib.correspond(run, model, impl0, lines0, cfg0, "operators without doubles")
    all_mism += [(cfg0, m) for m in mism]
    for (a, b), l, o in zip(pairs0, lines0, io0):
        if o == "<crash>":
            continue
        if "DIFFERS" in o:
            oracle_fail.append((cfg0, l, "variant-vs-scalar operators agree with variant-vs-variant (no doubles)", o)); continue
        eq, ne, lt, le, gt, ge = [c == "1" for c in o[:6]]
        r = by_value(a, b)
        if r in ("eq", "lt", "gt", "ne"):
            want = {"eq": (True, False, False), "lt": (False, True, False), "gt": (False, False, True), "ne": (False, False, False)}[r]
            if (eq, lt, gt) != want:
                oracle_fail.append((cfg0, l, f"by value (ARDUINOJSON_USE_DOUBLE=0): {r}", o))
    # objects with a repeated key (only reachable through deserializeMsgPack)
    dups = [("o", [(b"a", ("i", 1)), (b"a", ("i", 1))]), ("o", [(b"a", ("i", 1)), (b"b", ("i", 2))]), ("o", [(b"a", ("i", 1)), (b"a", ("i", 2))]),
            ("o", [(b"a", ("i", 2)), (b"a", ("i", 1))]), ("o", [(b"a", ("i", 1))]), ("o", [(b"b", ("i", 2)), (b"a", ("i", 1))]),
            [("o", [(b"k", None), (b"k", None)])], [("o", [(b"k", None), (b"j", None)])]]
    def enc(v):
        if isinstance(v, list):
            return gen_doc.mp_header("a", len(v)) + b"".join(enc(x) for x in v)
        if isinstance(v, tuple) and v[0] == "o":
            return gen_doc.mp_header("m", len(v[1])) + b"".join(gen_doc.mp_encode(("s", k)) + enc(x) for k, x in v[1])
        return gen_doc.mp_encode(v)
    dpairs = [(a, b) for a in dups for b in dups]
    dlines = [f"CMPM {hx(enc(a))} {hx(enc(b))}" for a, b in dpairs]
    mism, mo, io = vlib.correspond(run, model, impl, dlines, cfg, "operators on MessagePack-built operands")
    all_mism += [(cfg, m) for m in mism]
    known = {k["id"]: k for k in vlib.load_known_findings() if k["prop"] == "C18"}
    for (a, b), l, o in zip(dpairs, dlines, io):
        if o == "<crash>" or len(o) < 12:
            continue
        eq, ne, lt, le, gt, ge, req, rne, rlt, rle, rgt, rge = [c == "1" for c in o[:12]]
        if eq != req:
            if (has_dup_keys(a) or has_dup_keys(b)) and "dupkeys-asymmetric-eq" in known:
                run.known("dupkeys-asymmetric-eq", known["dupkeys-asymmetric-eq"]["text"])
            else:
                oracle_fail.append((cfg, l, "a==b iff b==a", o))
    run.cov["rule"] = ("ordered pairs over a pool of %d values (integers across int32/int64/uint64 boundaries and signs, floats/doubles incl. +-0, NaN, infinities, 2^53 neighbours, "
                       "strings with NUL / bytes >= 0x80 / prefixes, raw values incl. prefixes, nested arrays and objects incl. permuted members, null, unbound); six operators in "
                       "both operand orders, variant-variant and variant-scalar/string; oracle: the coherence laws on the library's own answers and comparison by value; "
                       "distinct = distinct ordered pair" % len(vals))
    run.sample(dict(case=lines[0], meaning="CMP <dump a> <dump b> -> a==b a!=b a<b a<=b a>b a>=b then the same with operands swapped"))
    run.assumptions += ["booleans against numbers are not constrained by the property (the code compares true as 1); only the coherence laws are required there",
                        "objects with repeated keys (reachable only through deserializeMsgPack) are outside the by-value oracle"]
    jsonchecks.finish_standard(run, "C18", ok, info, oracle_fail, all_mism, harness="num_h")

def replay(rp):
    return vlib.replay_lines(rp, "num_h")
