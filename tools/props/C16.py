"""C16 — one call consumes one document from a stream."""
import random
import vlib, gen_json, gen_doc, jsonchecks
from gen_json import hx
from props import C09

SEPS = [b"", b" ", b"\n", b"\r\n", b"\t \n", b"  "]

def check(run):
    rnd = random.Random(run.seed * 86028121 + 16)
    thorough = run.tier == "thorough"
    ok, info = vlib.proof_stage(run, "C16")
    model = vlib.need_model()
    cfg = "10001"
    impl = vlib.need_harness("doc_h", cfg)
    oracle_fail, all_mism = [], []
    # --- JSON: sequences of documents of every top-level kind with every separator
    g = gen_json.Gen(rnd, max_depth=2)
    seqs = []
    n = 30000 if thorough else 3000
    while len(seqs) < n:
        k = rnd.randrange(1, 7)
        docs = []
        for _ in range(k):
            t = g.value(depth=1 if rnd.random() < 0.7 else 0)
            docs.append((t, g.render(t)))
        parts, expect, pos = [], [], 0
        okseq = True
        for j, (t, text) in enumerate(docs):
            lead = rnd.choice(SEPS)
            # a number must be followed by whitespace (or the end) — otherwise it is one longer token
            is_num = t[0] == "num"
            parts.append(lead + text)
            pos += len(lead) + len(text)
            if is_num:
                nxt_needed = True
                expect.append((t, text, pos, pos + 1))
            else:
                expect.append((t, text, pos, pos))
        # enforce the separator rule after numbers / before numbers and literals that would merge
        stream = b""
        exp2 = []
        cur = 0
        for j, ((t, text, _, _), part) in enumerate(zip(expect, parts)):
            if j > 0:
                prev_t = expect[j - 1][0][0]
                lead = part[: len(part) - len(text)]
                if prev_t == "num" and lead == b"":
                    part = b" " + part
            stream += part
            cur = len(stream)
            exp2.append((t, text, cur, cur + (1 if t[0] == "num" else 0)))
        # the byte a number looks ahead must not be the first byte of the next document
        final = b""
        for j, ((t, text, lo, hi), part) in enumerate(zip(exp2, parts)):
            pass
        seqs.append((stream, exp2))
    lines = ["JS " + hx(s) for s, _ in seqs]
    mism, mo, io = vlib.correspond(run, model, impl, lines, cfg, "JSON document sequences")
    all_mism += [(cfg, m) for m in mism]
    for (stream, exp), l, o in zip(seqs, lines, io):
        if o == "<crash>":
            continue
        if "STREAM-DIFFERS" in o:
            oracle_fail.append((cfg, l[:200], "std::istream, block-wise std::istream, Arduino Stream and custom reader agree", o[:300]))
            continue
        calls = o.strip().split(" ")
        msg = None
        consumed_extra = 0
        for j, (t, text, lo, hi) in enumerate(exp):
            if j >= len(calls):
                msg = f"document {j} not returned"
                break
            head, d = calls[j].split(":", 1)
            code, pos = head.split("@")
            if code != "Ok":
                msg = f"document {j} ({text[:30]!r}): {code}"
                break
            pos = int(pos)
            # a number may take one byte more (the whitespace that follows it), nothing else may
            limit_hi = min(hi, len(stream))
            if not (lo <= pos <= limit_hi):
                msg = f"document {j} ({text[:30]!r}): stream position {pos}, expected {lo}..{limit_hi}"
                break
            try:
                e = gen_json.expected_dump(text)
                m = gen_json.match_dump(e, d)
            except Exception as ex:
                m = None
            if m:
                msg = f"document {j}: {m}"
                break
        if msg is None and len(calls) > len(exp):
            last = calls[len(exp)]
            if not last.startswith("EmptyInput"):
                msg = "after the last document: " + last[:60]
        if msg:
            oracle_fail.append((cfg, l[:300], msg, o[:300]))
    # --- MessagePack back to back
    mseqs = []
    for _ in range(20000 if thorough else 2500):
        k = rnd.randrange(1, 6)
        stream, exp = b"", []
        for _ in range(k):
            v = C09.rand_value(rnd, depth=2)
            raws = {}
            enc = C09.encode_tracking(v, rnd, raws)
            stream += enc
            exp.append((C09.expected_dump(v, lambda x: raws[id(x)], True), len(stream)))
        mseqs.append((stream, exp))
    lines = ["MS " + hx(s) for s, _ in mseqs]
    mism, mo, io = vlib.correspond(run, model, impl, lines, cfg, "MessagePack object sequences")
    all_mism += [(cfg, m) for m in mism]
    for (stream, exp), l, o in zip(mseqs, lines, io):
        if o == "<crash>":
            continue
        if "STREAM-DIFFERS" in o:
            oracle_fail.append((cfg, l[:200], "std::istream, block-wise std::istream, Arduino Stream and custom reader agree", o[:300]))
            continue
        calls = o.strip().split(" ")
        want = [f"Ok@{pos}:{d}" for d, pos in exp] + [f"EmptyInput@{len(stream)}:n"]
        if calls != want:
            k = next((i for i, (a, b) in enumerate(zip(calls, want)) if a != b), min(len(calls), len(want)))
            oracle_fail.append((cfg, l[:300], f"call {k}: {want[k][:80] if k < len(want) else 'nothing'}", (calls[k] if k < len(calls) else "nothing")[:200]))
    # the positions (not the values) again in builds that store less: 32-bit integers only, floats only — a value that cannot
    # be kept is still consumed entirely
    for defs in ({"ARDUINOJSON_USE_LONG_LONG": 0}, {"ARDUINOJSON_USE_DOUBLE": 0, "ARDUINOJSON_STRING_LENGTH_SIZE": 1}):
        cfg2 = "10000" if "ARDUINOJSON_USE_DOUBLE" in defs else cfg
        d2 = {k: v for k, v in defs.items() if k != "ARDUINOJSON_USE_DOUBLE"}
        impl2 = vlib.need_harness("doc_h", cfg2, d2)
        sub = mseqs[: (4000 if thorough else 600)]
        # integers at the 32/64-bit edges, back to back
        for _ in range(200 if thorough else 60):
            vals = [rnd.choice([2 ** 32 - 1, 2 ** 32, 2 ** 40 + 5, 2 ** 63, 2 ** 64 - 1, -2 ** 31, -2 ** 31 - 1, -2 ** 40, -2 ** 63, 1700000000000, 7]) for _ in range(rnd.randrange(1, 5))]
            stream, exp = b"", []
            for z in vals:
                stream += gen_doc.mp_encode(("i", z), rnd)
                exp.append(("?", len(stream)))
            sub = sub + [(stream, exp)]
        l2 = ["MS " + hx(s_) for s_, _ in sub]
        o2, crash2 = vlib.run_sharded(impl2, l2, None, 900, ["CFG " + cfg2])
        if crash2:
            run.violation(f"C16: library crashed ({defs}): {crash2[:200]}", dict(kind="input", cfg=cfg2, defines=d2, harness_src="doc_h", lines=[l2[0]], observed=crash2[-2000:]))
        for (stream, exp), l, o in zip(sub, l2, o2):
            run.count((str(defs), l))
            if o == "<crash>":
                continue
            if "STREAM-DIFFERS" in o:
                oracle_fail.append((cfg2, l[:200], f"std::istream, block-wise std::istream, Arduino Stream and custom reader agree [{defs}]", o[:300])); continue
            calls = [c for c in o.strip().split(" ") if c]
            heads = [c.split(":", 1)[0] for c in calls]
            wanth = [f"Ok@{pos}" for _, pos in exp] + [f"EmptyInput@{len(stream)}"]
            if any(h.startswith("NoMemory") for h in heads):
                continue      # a string longer than the 1-byte length limit: C19's subject
            if heads != wanth:
                k = next((i for i, (a, b) in enumerate(zip(heads, wanth)) if a != b), min(len(heads), len(wanth)))
                oracle_fail.append((cfg2, l[:300], f"call {k} ends at {wanth[k] if k < len(wanth) else 'nothing'} [{defs}]", (calls[k] if k < len(calls) else "nothing")[:200]))
    run.cov["rule"] = ("sequences of 1-6 JSON documents of every top-level kind with separators none/space/LF/CRLF/mixed (numbers followed by at least one "
                       "whitespace byte), and of 1-5 back-to-back MessagePack objects with random legal widths; successive calls on std::istringstream (tellg) and "
                       "on a byte-counting custom reader must agree, return the documents in order (Python json / independent codec as oracle) and leave the "
                       "stream exactly after each value (at most one byte further after a number); distinct = distinct stream")
    run.sample(dict(case=lines[0][:200], meaning="MS/JS <hex stream> -> code@position:document for each successive call"))
    jsonchecks.finish_standard(run, "C16", ok, info, oracle_fail, all_mism, harness="doc_h")

def replay(rp):
    return vlib.replay_lines(rp, "doc_h")
