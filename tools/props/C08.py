"""C08 — serializeMsgPack emits one conforming MessagePack object equal to the document."""
import random
import vlib, gen_doc, doccheck
from gen_doc import hx, dump, parse_dump

def mp_raws(rnd):
    kind = rnd.random()
    n = rnd.choice([0, 1, 2, 4, 8, 16, 17, 255, 256, 300])
    payload = bytes(rnd.randrange(256) for _ in range(n))
    v = ("bin", payload) if kind < 0.5 else ("ext", rnd.randrange(256), payload)
    return v, gen_doc.mp_encode(v, rnd)

def inject_raws(rnd, v, raws):
    if isinstance(v, list):
        return [inject_raws(rnd, x, raws) for x in v]
    if isinstance(v, tuple) and v[0] == "o":
        return ("o", [(k, inject_raws(rnd, x, raws)) for k, x in v[1]])
    if isinstance(v, tuple) and v[0] == "r":
        val, enc = mp_raws(rnd)
        raws[enc] = val
        return ("r", enc)
    return v

def equiv(doc, dec, raws):
    if isinstance(doc, tuple) and doc[0] == "r":
        return None if raws.get(doc[1]) == dec or gen_doc.mp_decode(doc[1])[0] == dec else "bin/ext not verbatim"
    if isinstance(doc, list):
        if not isinstance(dec, list) or len(dec) != len(doc):
            return "array shape"
        for a, b in zip(doc, dec):
            m = equiv(a, b, raws)
            if m:
                return m
        return None
    if isinstance(doc, tuple) and doc[0] == "o":
        if not (isinstance(dec, tuple) and dec[0] == "o") or len(dec[1]) != len(doc[1]):
            return "map shape"
        for (k, a), (k2, b) in zip(doc[1], dec[1]):
            if k2 != ("s", k):
                return f"key {k2!r}"
            m = equiv(a, b, raws)
            if m:
                return m
        return None
    return gen_doc.mp_equiv(doc, dec)

def check(run):
    rnd = random.Random(run.seed * 15485863 + 8)
    thorough = run.tier == "thorough"
    ok, info = vlib.proof_stage(run, "C08")
    model = vlib.need_model()
    cfg = "10001"
    impl = vlib.need_harness("doc_h", cfg)
    n = 30000 if thorough else 3000
    raws = {}
    docs = [inject_raws(rnd, d, raws) for d in doccheck.gen_docs(rnd, n, raw=True)]
    # header-width boundaries: strings 31/32/255/256/65535 (the library's maximum), containers 15/16/17/65535/65536
    for ln in (0, 1, 31, 32, 33, 255, 256, 257, 65534, 65535):
        docs.append(("s", bytes(rnd.choice(b"abc") for _ in range(ln))))
    for cnt in (15, 16, 17, 65535, 65536) if thorough else (15, 16, 17, 300):
        docs.append([None] * cnt)
        docs.append([("i", i % 7) for i in range(cnt)])
        if cnt <= 300:
            docs.append(("o", [(b"k%d" % i, ("i", i)) for i in range(cnt)]))
    if thorough:
        docs.append(("o", [(b"k%d" % i, True) for i in range(65536)]))
    for z in gen_doc.INT_BOUNDS:
        docs.append(("i", z))
    for b in gen_doc.F32_SPECIAL:
        docs.append(("F", b))
    for b in gen_doc.F64_SPECIAL:
        docs.append(("D", b))
    dumps = [dump(d) for d in docs]
    lines = [f"S 2 {d}" for d in dumps]
    oracle_fail, all_mism = [], []
    mism, mo, io = vlib.correspond(run, model, impl, lines, cfg, "serializeMsgPack", timeout=2400)
    all_mism += mism
    for d, l, o in zip(dumps, lines, io):
        if o == "<crash>":
            continue
        parts = o.split(" ")
        if len(parts) > 4:
            oracle_fail.append((l[:300], "all destinations agree; same bytes whichever integer type stores a value", o[-200:]))
            continue
        out = bytes.fromhex(parts[0]) if parts[0] != "-" else b""
        if not (int(parts[1]) == int(parts[2]) == len(out)):
            oracle_fail.append((l[:300], "count == measure == length", o[:200]))
            continue
        doc = parse_dump(parts[3])
        try:
            dec, end = gen_doc.mp_decode(out)
        except gen_doc.MPError as e:
            oracle_fail.append((l[:300], "independent decoder accepts: %s" % e, o[:200]))
            continue
        if end != len(out):
            oracle_fail.append((l[:300], "exactly one object", o[:200]))
            continue
        m = equiv(doc, dec, raws)
        if m:
            oracle_fail.append((l[:300], m, o[:200]))
            continue
        if not doccheck.has_raw(doc):
            m = gen_doc.mp_minimal_violation(out)
            if m:
                oracle_fail.append((l[:300], m, o[:200]))
    # large containers (array 32 / map 32 headers): built in linear time inside the harness, compared by header, length and
    # hash with the model and with the independent encoder
    def fnv(b):
        h = 14695981039346656037
        for c in b:
            h = ((h ^ c) * 1099511628211) & 0xFFFFFFFFFFFFFFFF
        return h
    bigs = [("arr-nil", c) for c in (65535, 65536)] + [("arr-int", 65537)] + [("map-int", c) for c in (15, 16, 17, 65535, 65536, 65537)]
    if thorough:
        bigs += [("map-int", 100000), ("arr-int", 300000), ("arr-nil", 1000000)]
    blines0 = [f"BIG {s_} {c}" for s_, c in bigs]
    # (the string pool's linear search makes 65536 distinct keys quadratic: optimized build without sanitizers for these)
    implO = vlib.need_harness("doc_h", cfg, None, sanitize="", opt="-O2")
    mismB, moB, ioB = vlib.correspond(run, model, implO, blines0, cfg, "large containers", timeout=1200)
    all_mism += mismB
    for (shape, cnt), l, o in zip(bigs, blines0, ioB):
        if o == "<crash>":
            continue
        if shape == "arr-nil": val = [None] * cnt
        elif shape == "arr-int": val = [("i", i % 7) for i in range(cnt)]
        else: val = ("o", [(("s", b"k%d" % i), ("i", i % 7)) for i in range(cnt)])
        enc = gen_doc.mp_encode(val)
        want = f"{hx(enc[:8])} {len(enc)} {fnv(enc)}"
        got = " ".join(o.split(" ")[:3])
        if got != want or "DIFFERS" in o:
            oracle_fail.append((l, f"MessagePack of {shape} x{cnt} per the specification: " + want, o[:200]))
    # bin / ext values built through the typed API (MsgPackBinary / MsgPackExtension converters), every payload size
    # around the header-width thresholds; the serialization must be the value's encoding per the specification
    tlines, texp = [], []
    sizes = [0, 1, 2, 3, 4, 5, 7, 8, 9, 15, 16, 17, 31, 32, 255, 256, 257, 1000, 65529, 65530, 65531, 65532, 65533, 65534]
    for n_ in sizes:
        pl = bytes(rnd.randrange(256) for _ in range(n_))
        tlines.append("TB " + hx(pl)); texp.append(("bin", pl))
        ty = rnd.choice([0, 1, 5, 127, -1, -128])
        tlines.append("TX %d %s" % (ty, hx(pl))); texp.append(("ext", ty & 255, pl))
    mismT, moT, ioT = vlib.correspond(run, model, impl, tlines, cfg, "typed bin/ext")
    all_mism += mismT
    for l, v, o in zip(tlines, texp, ioT):
        if o == "<crash>":
            continue
        parts = o.split(" ")
        enc = gen_doc.mp_encode(v)
        if len(enc) > 65535:
            want_hex = "c0"          # the raw string cannot be created: the value stays null
        else:
            want_hex = hx(enc)
        if parts[1] != want_hex or parts[2] != parts[3] or int(parts[2]) != len(bytes.fromhex(parts[1])):
            oracle_fail.append((l[:200], "the minimal MessagePack encoding of that bin/ext object: " + want_hex[:60], o[:200]))
        elif len(enc) <= 65535:
            back = parts[4].split("=", 1)[1]
            wantb = ("s" + hx(v[1])) if v[0] == "bin" else ("%d:s%s" % (v[1], hx(v[2])))
            if back != wantb:
                oracle_fail.append((l[:200], "as<MsgPackBinary/MsgPackExtension>() returns the payload: " + wantb[:80], o[:200]))
    # bounded buffers
    blines, expect = [], []
    idx = list(range(len(dumps)))
    rnd.shuffle(idx)
    for i in idx[: (1500 if thorough else 200)]:
        o = io[i]
        if o == "<crash>":
            continue
        out = bytes.fromhex(o.split(" ")[0]) if o.split(" ")[0] != "-" else b""
        if len(out) > 100:
            continue
        for cap in range(0, len(out) + 3):
            blines.append(f"B 2 {cap} {dumps[i]}")
            st = out[:cap]
            expect.append(f"{hx(st)} {len(st)} nonul")
    mism, mo2, io2 = vlib.correspond(run, model, impl, blines, cfg, "bounded buffer")
    all_mism += mism
    for l, e, o in zip(blines, expect, io2):
        if o != e and o != "<crash>":
            oracle_fail.append((l, e, o))
    run.cov["rule"] = ("random documents + every header-width boundary (str 31/32/255/256/65535, array/map 15/16/17/65535/65536 in thorough, "
                       "integers at +-2^k and neighbours, special floats), bin/ext raw values; output decoded by an independent decoder written from "
                       "the MessagePack specification, compared with the document (C08 rules) and with the minimal re-encoding; buffers of every "
                       "capacity 0..len+2; model vs library byte-exact")
    run.sample(dict(case=lines[0][:200], meaning="S 2 <document dump> -> hex MessagePack, count, measure, re-dump"))
    run.assumptions += ["NaN payloads other than the canonical quiet NaN are not exercised"]
    for l, e, o in oracle_fail[:5]:
        run.violation(f"C08 oracle: {l[:120]}: expected {str(e)[:200]}; library: {o[:160]}",
                      dict(kind="input", cfg=cfg, harness_src="doc_h", lines=[l], expected=str(e), observed=o))
    if not oracle_fail:
        for k, l, a, b in all_mism[:5]:
            run.violation(f"model/implementation disagree on {l[:100]}: model {a[:120]} impl {b[:120]}",
                          dict(kind="input", cfg=cfg, harness_src="doc_h", lines=[l[:5000]], model=a[:2000], observed=b[:2000], failing_input=False))
    if not ok:
        for p in info["problems"]:
            if not oracle_fail:
                run.violation(p, dict(kind="obligation", theorem="Properties_C08: " + p[:200], failing_input=False))

def replay(rp):
    return vlib.replay_lines(rp, "doc_h")
