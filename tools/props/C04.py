"""C04 — the document is the tree its API describes, after every history."""
import random
import vlib, histcheck, jsonchecks, chaincheck

# assignments from an aliasing source (the source is the destination itself, inside it, or around it):
# scripted, one process each because the library may crash on them
ALIAS_CASES = [
    ("descendant", "toobj 0 @0 ;; makemember 0 61 2 @0,2 ;; toarr 2 @0,2 ;; addval 2 i7 @0,2 ;; getelem 2 0 3 @0,2,3 ;; assign 2 3 @0 ;; "),
    ("ancestor", "toobj 0 @0 ;; makemember 0 79 2 @0,2 ;; set 2 i5 @0,2 ;; assign 2 0 @0 ;; "),
    ("self", "toobj 0 @0 ;; setmember 0 6b i1 @0 ;; assign 0 0 @0 ;; "),
    ("root-from-member", "toobj 0 @0 ;; setmember 0 6b s78 @0 ;; getmember 0 6b 2 @0,2 ;; assign 0 2 @0 ;; "),
]

def check(run):
    rnd = random.Random(run.seed * 236887691 + 4)
    thorough = run.tier == "thorough"
    ok, info = vlib.proof_stage(run, "C04")
    model = vlib.need_model()
    cfg = "10001"
    oracle_fail, all_mism = [], []
    geoms = [{}] + ([{"ARDUINOJSON_SLOT_ID_SIZE": 1, "ARDUINOJSON_POOL_CAPACITY": 4, "ARDUINOJSON_INITIAL_POOL_COUNT": 1},
                     {"ARDUINOJSON_SLOT_ID_SIZE": 2, "ARDUINOJSON_POOL_CAPACITY": 3, "ARDUINOJSON_INITIAL_POOL_COUNT": 2}])
    nh = 4000 if thorough else 500
    seeds = [run.seed * 100000 + k for k in range(nh)]
    hists = histcheck.gen_histories(model, seeds, 120 if thorough else 80, ndocs=2)
    # tiny geometries fill up quickly: shorter histories there (capacity limits are C19's subject)
    short = histcheck.gen_histories(model, seeds[: nh // 2], 25, ndocs=2)
    for gi, defs in enumerate(geoms):
        impl = vlib.need_harness("hist_h", cfg, defs)
        hs = hists if not defs else short
        # in the default geometry the second half of the histories passes every string operand through a different C++
        # type at every operation (kind 7 of the harness: C14's subject, but the tree has to come out the same)
        half = len(hs) // 2 if not defs else len(hs)
        outs, crash = histcheck.run_histories(impl, hs[:half], ndocs=2)
        kinds = [0] * half
        if half < len(hs):
            outs2, crash2 = histcheck.run_histories(impl, hs[half:], ndocs=2, kind=7)
            outs, crash, kinds = outs + outs2, crash or crash2, kinds + [7] * (len(hs) - half)
        for seed, h, o, kind in zip(seeds, hs, outs, kinds):
            ops, exp = histcheck.split_history(h)
            run.count((gi, seed))
            if o == "<crash>":
                continue
            steps, trailer = histcheck.parse_run(o)
            if defs and any("1" in st[1] for st in steps):
                continue      # hit a capacity limit of the tiny geometry: not this property's concern
            k = histcheck.first_divergence(exp, steps)
            if k is not None:
                oracle_fail.append((cfg, f"HRUN 2 {kind} - {' ;; '.join(h.split(' ;; ')[:k + 1])} ;; ", f"step {k} ({ops[k] if k < len(ops) else '?'}): {exp[k][:300] if k < len(exp) else ''}",
                                    (steps[k][0] if k < len(steps) else "missing")[:300] + f" [geometry {defs}]"))
            if "leaked=0" not in trailer or "MISUSE" in trailer or "NOT-REUSABLE" in trailer or "afterclear=0" not in trailer:
                oracle_fail.append((cfg, f"HRUN 2 {kind} - {h}", "all memory returned, no misuse, document reusable", trailer))
        run.cov["disagreements_checked"] += len(hs)
        if crash:
            k = outs.index("<crash>") if "<crash>" in outs else 0
            run.violation(f"C04: library crashed on a history (geometry {defs}): {crash[:200]}",
                          dict(kind="history", cfg=cfg, defines=defs, harness_src="hist_h", lines=[f"HRUN 2 {kinds[k]} - {hs[k]}"], observed=crash[-3000:]))
    run.sample(dict(history=" ;; ".join(histcheck.split_history(hists[0])[0][:12]), meaning="ops on handles (0,1 = document roots); after each op all documents and all live handles are dumped"))
    # many values sharing one copied string, in a build whose string-length type is narrower than its slot-id type (more users
    # than a length can count): removing users one by one leaves the others intact (every step compared with the tree model)
    gdefs = {"ARDUINOJSON_SLOT_ID_SIZE": 2, "ARDUINOJSON_STRING_LENGTH_SIZE": 1, "ARDUINOJSON_POOL_CAPACITY": 64}
    implg = vlib.need_harness("hist_h", cfg, gdefs)
    for users in (256, 257, 300):
        script = "toarr 0 @0 ;; " + "".join("addval 0 s736861726564 @0 ;; " for _ in range(users)) + "".join("rmidx 0 0 @0 ;; " for _ in range(users))
        mo, _ = vlib.run_lines(model, ["CFG " + cfg, "HEXP 2 " + script])
        io, crash = vlib.run_lines(implg, ["CFG " + cfg, "HRUN 2 0 - " + script])
        run.count(("shared", users))
        exp = [x for x in mo[1].split(" ;; ") if x.strip()]
        got, trailer = histcheck.parse_run(io[1]) if len(io) > 1 else ([], "")
        k = histcheck.first_divergence(exp, got)
        if crash or k is not None:
            oracle_fail.append((cfg, "HRUN 2 0 - " + script[:3000], f"{users} users of one string, step {k}: {exp[k][:120] if k is not None and k < len(exp) else ''} [geometry {gdefs}]",
                                (crash or (got[k][0] if k is not None and k < len(got) else "missing"))[-300:]))
    # assignment from an aliasing source
    impl = vlib.need_harness("hist_h", cfg)
    known = {k["id"]: k for k in vlib.load_known_findings() if k["prop"] == "C04"}
    for name, script in ALIAS_CASES:
        mo, _ = vlib.run_lines(model, ["CFG " + cfg, "HEXP 2 " + script])
        io, crash = vlib.run_lines(impl, ["CFG " + cfg, "HRUN 2 0 - " + script])
        run.count(("alias", name))
        exp = [s for s in mo[1].split(" ;; ") if s.strip()]
        got, _ = histcheck.parse_run(io[1]) if len(io) > 1 else ([], "")
        k = histcheck.first_divergence(exp, got)
        if crash or k is not None:
            kid = "assign-from-aliasing-source"
            if kid in known:
                run.known(kid, known[kid]["text"])
            else:
                oracle_fail.append((cfg, "HRUN 2 0 - " + script, f"{name}: {exp[-1][:200]}", (crash or got[k][0] if got else "crash")[-300:]))
    # values that share one stored string / raw node (a copy inside the same document): overwriting one user — with a value of
    # the same size, through the typed bin / ext API or as a raw value — leaves the other users as they were
    for pad in ("", "toarr 1 @0,1 ;; ", "toarr 1 @0,1 ;; toarr 1 @0,1 ;; "):          # (shifts which API form the harness uses)
        for v1, v2 in (("rc4020102", "rc4020304"), ("rd5070102", "rd5070304"), ("s6162", "s6364"), ("rc403616263", "rc403646566")):
            script = (pad + f"toarr 0 @0 ;; addval 0 {v1} @0 ;; getelem 0 0 2 @0,2 ;; addnew 0 3 @0,2,3 ;; assign 3 2 @0,2,3 ;; addnew 0 4 @0,2,3,4 ;; assign 4 2 @0,2,3,4 ;; "
                      f"set 2 {v2} @0,2,3,4 ;; set 3 {v2} @0,2,3,4 ;; set 3 {v1} @0,2,3,4 ;; ")
            mo, _ = vlib.run_lines(model, ["CFG " + cfg, "HEXP 2 " + script])
            io, crash = vlib.run_lines(impl, ["CFG " + cfg, "HRUN 2 0 - " + script])
            run.count(("shared-node", pad, v1))
            exp = [x for x in mo[1].split(" ;; ") if x.strip()]
            got, _ = histcheck.parse_run(io[1]) if len(io) > 1 else ([], "")
            k = histcheck.first_divergence(exp, got)
            if crash or k is not None:
                oracle_fail.append((cfg, "HRUN 2 0 - " + script, f"users of a shared node, step {k}: {exp[k][:160] if k is not None and k < len(exp) else ''}",
                                    (crash or (got[k][0] if k is not None and k < len(got) else "missing"))[-300:]))
    # the representation under the tree: arrays/objects as chains of slots (Model/Collection.v, Proofs/CollProofs.v)
    nchain = chaincheck.run(run, rnd, "C04", [(4, 256, 4), (1, 4, 1), (2, 3, 2), (1, 16, 4), (1, 255, 1)] + ([(1, 5, 3), (2, 128, 4), (1, 2, 2), (4, 7, 1)] if thorough else []),
                            400 if thorough else 60)
    run.cov["disagreements_checked"] += nchain
    run.cov["rule"] = ("[chains] %d add/insert-beyond-end/remove/member add/member remove/clear/shrinkToFit histories of one array or one object with allocator failures at "
                       "chosen calls: after every operation the chain of slot ids read from the library's own links and the number of allocator calls must equal "
                       "Model/Collection.v's, and must obey the list laws proved in CollProofs (append fresh, remove closes the gap, whole pairs, no duplicates, ids < NULL_SLOT); " % nchain)
    run.cov["rule"] += ("random histories (80-120 operations on 2 documents through up to 24 live handles: set of every scalar kind, to<JsonArray/JsonObject>, clear, add, add<JsonVariant>, "
                       "operator[] read/create/assign incl. insertion beyond the end, remove by index/key, assignment between unrelated values of the same or the other document, "
                       "document clear/copy/swap/shrinkToFit, deserializeJson into a document or a nested value incl. malformed texts), generated by the extracted tree model "
                       "(which tracks which handles are alive); after EVERY operation the return value, the dump of every document and of every live handle must equal the tree "
                       "model's; default geometry and two tiny-pool geometries; ASan/UBSan, instrumented allocator (no leak, no misuse); distinct = distinct (geometry, seed)")
    run.assumptions += ["handles into a document are not used after swap/shrinkToFit/copy-assignment of that document (they are stale pointers by the library's documentation)",
                        "assignment from an aliasing source is a recorded known finding"]
    jsonchecks.finish_standard(run, "C04", ok, info, oracle_fail, all_mism, harness="hist_h")

def replay(rp):
    import sys
    cfg = rp.get("cfg", "10001")
    m = vlib.need_model()
    h = vlib.need_harness("hist_h", cfg, rp.get("defines"))
    bad = 0
    if any(l.startswith("ARUN") for l in rp.get("lines", [])):
        return chaincheck.replay(rp)
    for l in rp.get("lines", []):
        parts = l.split(" ", 4)
        mo, _ = vlib.run_lines(m, ["CFG " + cfg, "HEXP " + parts[1] + " " + parts[4]])
        io, crash = vlib.run_lines(h, ["CFG " + cfg, l])
        print("history:", parts[4][:2000])
        print(" model:", mo[1][-1500:] if len(mo) > 1 else mo)
        print(" impl :", io[1][-1500:] if len(io) > 1 else io)
        if crash:
            print(crash[-2000:]); bad = 1
    return bad
