"""C15 — the nesting limit bounds recursion for every input."""
import random
import vlib, gen_json, gen_doc, jsonchecks
from gen_json import hx

def json_tower(kind, depth, close=True):
    if kind == "arr":
        return b"[" * depth + (b"]" * depth if close else b"")
    t = b""
    for _ in range(depth):
        t += b'{"a":'
    t += b"1"
    return t + (b"}" * depth if close else b"")

def mp_tower(kind, depth):
    if kind == "arr":
        return b"\x91" * depth + b"\x01"
    return b"\x81\xa1a" * depth + b"\x01"

def check(run):
    rnd = random.Random(run.seed * 49979687 + 15)
    thorough = run.tier == "thorough"
    ok, info = vlib.proof_stage(run, "C15")
    model = vlib.need_model()
    cfg = "10001"
    impl_t = vlib.need_harness("text_h", cfg)
    impl_d = vlib.need_harness("doc_h", cfg)
    oracle_fail, all_mism = [], []
    Ls = list(range(0, 256)) if thorough else [0, 1, 2, 9, 10, 11, 50, 127, 128, 254, 255]
    # --- JSON towers, kept and discarded by a filter
    lines, exps = [], []
    for L in Ls:
        for kind in ("arr", "obj"):
            for depth in (L, L + 1, L + 2):
                if depth == 0:
                    continue
                for close in (True, False):
                    for flt in ("-", hx(b"false"), hx(b'{"x":true}'), hx(b"[false]")):
                        text = json_tower(kind, depth, close)
                        lines.append(f"J {L} {flt} {hx(text)}")
                        if depth > L:
                            pos = L + 1 if kind == "arr" else 5 * L + 1
                            # with filter [false] on an array tower / {"x":true} on an object tower the outer
                            # container is kept and the inner ones skipped: same position either way
                            exps.append(("TooDeep", pos))
                        else:
                            exps.append((("Ok" if close else "IncompleteInput"), None))
    # thousands of openers
    for L in (0, 10, 255):
        for n in (1000, 10000) if not thorough else (1000, 10000, 100000):
            for flt in ("-", hx(b"false")):
                lines.append(f"J {L} {flt} {hx(b'[' * n)}")
                exps.append(("TooDeep", L + 1))
                lines.append("J %d %s %s" % (L, flt, hx(b'{"a":' * n)))
                exps.append(("TooDeep", 5 * L + 1))
    mism, mo, io = vlib.correspond(run, model, impl_t, lines, cfg, "JSON towers")
    all_mism += [(cfg, m) for m in mism]
    for l, (ecode, epos), o in zip(lines, exps, io):
        if o == "<crash>":
            continue
        p = o.split(" ")
        L = int(l.split(" ")[1])
        if p[0] != ecode or (epos is not None and int(p[1]) != epos):
            oracle_fail.append((cfg, l, f"{ecode} at byte {epos}", o[:120]))
        if p[0] == "Ok" and jsonchecks.dump_nesting(p[3]) > L:
            oracle_fail.append((cfg, l, f"nesting() <= {L}", o[:120]))
    # --- MessagePack towers (fix, 16 and 32 bit headers)
    lines, exps = [], []
    for L in Ls:
        for kind in ("arr", "obj"):
            for depth in (L, L + 1, L + 2):
                if depth == 0:
                    continue
                for flt in ("-", hx(b"false"), hx(b'{"x":true}')):
                    lines.append(f"M {L} {flt} {hx(mp_tower(kind, depth))}")
                    exps.append("TooDeep" if depth > L else "Ok")
        for hdr in (b"\xdc\x00\x01", b"\xdd\x00\x00\x00\x01", b"\xde\x00\x01\xa1a", b"\xdf\x00\x00\x00\x01\xa1a"):
            lines.append("M %d - %s" % (L, hx(hdr * (L + 1) + bytes([1]))))
            exps.append("TooDeep")
            lines.append("M %d - %s" % (L, hx(hdr * L + bytes([1]))))
            exps.append("Ok")
    for L in (0, 10, 255):
        lines.append("M %d - %s" % (L, hx(bytes([0x91]) * 10000))); exps.append("TooDeep")
        lines.append("M %d %s %s" % (L, hx(b'false'), hx(bytes([0x81, 0xa1, 0x61]) * 10000))); exps.append("TooDeep")
    mism, mo, io = vlib.correspond(run, model, impl_d, lines, cfg, "MessagePack towers")
    all_mism += [(cfg, m) for m in mism]
    for l, e, o in zip(lines, exps, io):
        if o == "<crash>":
            continue
        p = o.split(" ")
        L = int(l.split(" ")[1])
        if p[0] != e:
            oracle_fail.append((cfg, l[:200], e, o[:120]))
        if p[0] == "Ok" and jsonchecks.dump_nesting(p[2]) > L:
            oracle_fail.append((cfg, l[:200], f"nesting() <= {L}", o[:120]))
    # --- random valid documents with a random limit: TooDeep iff the text nests deeper than L
    docs = jsonchecks.valid_docs(rnd, 20000 if thorough else 2500)
    lines, exps = [], []
    for t, text in docs:
        d = gen_json.depth(t)
        L = rnd.choice([0, 1, 2, 3, d, max(0, d - 1), d + 1])
        lines.append(f"J {L} - {hx(text)}")
        exps.append("TooDeep" if d > L else "Ok")
    mism, mo, io = vlib.correspond(run, model, impl_t, lines, cfg, "random documents x limit")
    all_mism += [(cfg, m) for m in mism]
    for l, e, o in zip(lines, exps, io):
        if o != "<crash>" and o.split(" ")[0] != e:
            oracle_fail.append((cfg, l[:200], e, o[:120]))
    # --- stack consumed: a function of the nesting alone.  The same towers with k fillers in one gap (whitespace, comments,
    # k more elements / members, a k-character string, k escapes; kept and discarded by a filter): the stack the
    # deserializer uses (probed by the reader at every read) must not grow with k
    impl_c = vlib.need_harness("doc_h", "11111")
    stk_fail = 0
    for hcfg, himpl in (("10001", impl_d), ("11111", impl_c)):
        fillers = [("spaces", lambda k: b" " * k, b""), ("newlines", lambda k: b"\r\n" * k, b""),
                   ("elements", lambda k: b"1," * k, b""), ("strings", lambda k: b'"",' * k, b""),
                   ("long string", lambda k: b'"' + b"a" * k + b'",', b""), ("escapes", lambda k: b'"' + b"\\n" * k + b'",', b""),
                   ("unicode escapes", lambda k: b'"' + b"\\u00e9" * (k // 4) + b'",', b""),
                   ("nested empties", lambda k: b"[],{}," * (k // 2), b"")]
        if hcfg[1] == "1":
            fillers += [("block comments", lambda k: b"/**/" * k, b""), ("line comments", lambda k: b"//\n" * k, b""),
                        ("comment with stars", lambda k: b"/*" + b"*" * k + b"*/", b"")]
        slines, smeta = [], []
        for L in (0, 1, 3, 10):
            for flt in ("-", hx(b"false"), hx(b"[[true]]")):
                for name, mk, _ in fillers:
                    for k in (8, 3000, 20000 if not thorough else 100000):
                        depth = max(L, 1)
                        text = b"[" * depth + mk(k) + b"1" + b"]" * depth
                        slines.append(f"STK J {max(L, 1)} {flt} {hx(text)}")
                        smeta.append((hcfg, L, flt, name, k))
        # MessagePack: wide arrays / maps / long strings at a fixed depth
        for L in (1, 3, 10):
            for k in (8, 3000, 20000):
                body = b"\xdc" + k.to_bytes(2, "big") + b"\xc0" * k
                slines.append(("STK M %d - %s" % (L, hx(b"\x91" * (L - 1) + body)))); smeta.append((hcfg, L, "-", "mp wide array", k))
                body = b"\xde" + k.to_bytes(2, "big") + b"\xa1k\x01" * k
                slines.append(("STK M %d - %s" % (L, hx(b"\x91" * (L - 1) + body)))); smeta.append((hcfg, L, "-", "mp wide map", k))
                body = b"\xda" + k.to_bytes(2, "big") + b"s" * k
                slines.append(("STK M %d - %s" % (L, hx(b"\x91" * (L - 1) + body)))); smeta.append((hcfg, L, "-", "mp long string", k))
        outs, crash = vlib.run_sharded(himpl, slines, None, 900, ["CFG " + hcfg])
        if crash:
            run.violation(f"C15: library crashed while measuring stack use (cfg {hcfg}): {crash[:300]}",
                          dict(kind="input", cfg=hcfg, harness_src="doc_h", lines=[crash.split("\n")[0].split(": ", 1)[-1][:20000]], observed=crash[-2000:]))
        base = {}
        for l, m, o in zip(slines, smeta, outs):
            run.count(("stack",) + m)
            if o == "<crash>":
                continue
            st = int(o.split("stack=")[1].split(" ")[0])
            key = m[:4]
            if m[4] == 8:
                base[key] = st
            elif key in base and st > base[key] + 1024:
                stk_fail += 1
                oracle_fail.append((hcfg, l[:4000], f"stack bounded by the nesting limit alone: {base[key]} bytes with 8 x {m[3]} in the gap (limit {m[1]})", f"{st} bytes with {m[4]} x {m[3]}: {o}"))
    run.cov["rule"] = ("stack use probed at every read for towers at L in {0,1,3,10} with 8 / 3000 / 20000 fillers of 8-11 kinds in one gap (JSON, comments configuration included, kept and filtered; MessagePack wide arrays/maps/strings): must not grow with the filler count; " +
                       "towers of [ / {\"a\": / 0x91 / 0x81 / array16,32 / map16,32 of depth L, L+1, L+2 for L in %s, closed and unclosed, kept and "
                       "filter-discarded, thousands of openers; random documents with limits around their depth; oracle: TooDeep exactly when depth > L, "
                       "at the (L+1)-th opener, nesting() <= L on Ok; distinct = distinct case line" % ("0..255" if thorough else str(Ls)))
    run.sample(dict(case=lines[0][:120]))
    run.assumptions += ["stack bytes per frame are a compiler fact: the theorem bounds the number of nested calls (structural recursion on L), "
                        "the correspondence ties TooDeep positions to the code"]
    jsonchecks.finish_standard(run, "C15", ok, info, oracle_fail, all_mism)

def replay(rp):
    return vlib.replay_lines(rp, rp.get("harness_src", "text_h"))
