"""C05 — allocation failure is reported and never corrupts the document (fault enumeration)."""
import random
import vlib, histcheck, jsonchecks

LEVEL = "fault_enumeration"

def handle_dumps(vis):
    """visible output 'res|doc0|doc1|h=dump,h=dump' -> (res, [docs], {handle: dump})"""
    parts = vis.split("|")
    res, docs, hd = parts[0], parts[1:-1], parts[-1]
    d = {}
    # handle dumps are comma separated but dumps contain commas: split on ',<digits>='
    import re
    idx = [m.start() for m in re.finditer(r"(?:^|,)(\d+)=", hd)]
    for a, b in zip(idx, idx[1:] + [len(hd)]):
        seg = hd[a:b].lstrip(",")
        h, _, v = seg.partition("=")
        d[h] = v
    return res, docs, d

def check(run):
    rnd = random.Random(run.seed * 275604541 + 5)
    thorough = run.tier == "thorough"
    ok, info = vlib.proof_stage(run, "C05")
    model = vlib.need_model()
    cfg = "10001"
    # a small pool geometry makes pool creation and pool-table growth (the interesting allocator calls) frequent
    geoms = [{"ARDUINOJSON_POOL_CAPACITY": 4, "ARDUINOJSON_INITIAL_POOL_COUNT": 1}, {}]
    oracle_fail, all_mism = [], []
    nh = 120 if thorough else 24
    total_runs = 0
    for gi, defs in enumerate(geoms):
        impl = vlib.need_harness("hist_h", cfg, defs)
        seeds = [run.seed * 100000 + 900000 + gi * 1000 + k for k in range(nh)]
        hists = histcheck.gen_histories(model, seeds, 45, ndocs=2)
        base, crash = histcheck.run_histories(impl, hists, ndocs=2)
        jobs = []    # (history index, failspec)
        for hi, (h, o) in enumerate(zip(hists, base)):
            if o == "<crash>":
                continue
            steps, trailer = histcheck.parse_run(o)
            ncalls = steps[-1][3] if steps else 0
            ks = list(range(ncalls))
            if not thorough and len(ks) > 40:
                ks = sorted(rnd.sample(ks, 40))
            for k in ks:
                jobs.append((hi, str(k)))
                jobs.append((hi, f"{k}+"))
            # random multi-failure subsets
            for _ in range(6 if thorough else 2):
                jobs.append((hi, "R" + str(rnd.randrange(1 << 30))))
        lines = []
        for hi, fs in jobs:
            if fs.startswith("R"):
                # a random subset is expressed as several runs of "fail from k" is not equivalent; use single points at random instead
                fs = str(rnd.randrange(max(1, histcheck.parse_run(base[hi])[0][-1][3])))
            lines.append(f"HRUN 2 0 {fs} {hists[hi]}")
        outs, crash2 = vlib.run_sharded(impl, lines, None, 1800, ["CFG " + cfg])
        total_runs += len(lines)
        for (hi, fs), line, o in zip(jobs, lines, outs):
            run.count((gi, hi, fs))
            if o == "<crash>":
                continue
            ops, exp = histcheck.split_history(hists[hi])
            unrelated = list(histcheck.last_unrelated)
            bsteps, _ = histcheck.parse_run(base[hi])
            fsteps, trailer = histcheck.parse_run(o)
            # memory: everything returned on clear and on destruction, usable again after clear
            if "afterclear=0" not in trailer or "leaked=0" not in trailer or "MISUSE" in trailer or "NOT-REUSABLE" in trailer:
                oracle_fail.append((cfg, line[:3000], "all memory returned on clear()/destruction, no misuse, document usable after clear()", trailer + f" [geometry {defs}]"))
                continue
            # first step at which the failing run departs from the failure-free one
            j = None
            for i, (b, f) in enumerate(zip(bsteps, fsteps)):
                if b[0] != f[0] or b[1] != f[1]:
                    j = i
                    break
            if j is None:
                continue
            res, docs, hd = handle_dumps(fsteps[j][0])
            # the failure is reported: overflowed() is set on some document
            if "1" not in fsteps[j][1]:
                oracle_fail.append((cfg, line[:3000], f"step {j} ({ops[j]}): overflowed() set when the result differs from the failure-free run ({bsteps[j][0][:80]})",
                                    fsteps[j][0][:200] + f" ~{fsteps[j][1]} [geometry {defs}]"))
                continue
            if res in ("true", "bound") and handle_dumps(bsteps[j][0])[0] == res and fsteps[j][0] != bsteps[j][0]:
                oracle_fail.append((cfg, line[:3000], f"step {j} ({ops[j]}): reports the failure (false / unbound)", fsteps[j][0][:200]))
                continue
            # every value outside the path being modified is unchanged
            if j > 0:
                _, _, before = handle_dumps(fsteps[j - 1][0])
                toks = [t for t in ops[j].split(" ") if not t.startswith(("%", "@"))]
                rebound = toks[-1] if toks[0] in ("addnew", "getelem", "makeelem", "getmember", "makemember") else None
                for h in unrelated[j]:
                    if h == rebound:
                        continue
                    if h in before and h in hd and before[h] != hd[h]:
                        oracle_fail.append((cfg, line[:3000], f"step {j} ({ops[j]}): handle {h} (unrelated to the target) unchanged: {before[h][:100]}", hd[h][:100]))
                        break
        for c in (crash, crash2):
            if c:
                run.violation(f"C05: library crashed / sanitizer report under an allocation failure (geometry {defs}): {c[:300]}",
                              dict(kind="history", cfg=cfg, defines=defs, harness_src="hist_h", lines=[c.split("\n")[0][:5000]], observed=c[-3000:]))
        run.sample(dict(geometry=defs, case=lines[0][:300] if lines else ""))
    run.cov["rule"] = ("for each of %d histories per geometry (45 operations on 2 documents incl. deserializeJson, copies between documents, document copy/swap/shrink) with N "
                       "allocator calls: every single-failure position k and every fail-from-k schedule (quick: at most 40 positions per history) plus random positions; "
                       "%d failing runs; oracles: no crash/sanitizer report; at the first operation that departs from the failure-free run overflowed() is set and the operation "
                       "does not claim success; handles unrelated to its target keep their value; after the history clear() returns every block, the document works again, "
                       "destruction leaks nothing, no block is released twice; distinct = distinct (geometry, history, schedule)" % (nh, total_runs))
    run.assumptions += ["a shrinking reallocate never fails (as the property states)", "level: fault enumeration over generated scenarios; the theorems are about the slot allocator model (PoolProofs)"]
    jsonchecks.finish_standard(run, "C05", ok, info, oracle_fail, all_mism, harness="hist_h")

def replay(rp):
    cfg = rp.get("cfg", "10001")
    h = vlib.need_harness("hist_h", cfg, rp.get("defines"))
    bad = 0
    for l in rp.get("lines", []):
        io, crash = vlib.run_lines(h, ["CFG " + cfg, l])
        print("run:", l[:1500])
        print(" impl:", (io[1] if len(io) > 1 else io)[-2500:])
        if crash:
            print(crash[-2500:]); bad = 1
    return bad
