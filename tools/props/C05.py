"""C05 — allocation failure is reported and never corrupts the document (fault enumeration)."""
import random
import vlib, histcheck, jsonchecks, gen_json
from gen_json import hx

LEVEL = "fault_enumeration"

def handle_dumps(vis):
    """visible output 'res|doc0|doc1|h=dump,h=dump' -> (res, [docs], {handle: dump})"""
    parts = vis.split("|")
    res, docs, hd = parts[0], parts[1:-1], parts[-1]
    d = {}
    # handle dumps are comma separated but dumps contain commas: split on ',<digits>='
    import re
    idx = [m.start() for m in re.finditer(r"(?:^|,)(\d+)=", hd)]
    for a, b in zip(idx, idx[1:] + [len(hd)]):
        seg = hd[a:b].lstrip(",")
        h, _, v = seg.partition("=")
        d[h] = v
    return res, docs, d

def cb_value(rnd, d=0):
    """a value for the copy-with-budget cases: nested arrays / objects (keys unique per object) of small integers, booleans, null and
    short strings, and scalars that keep their bytes in an extension slot (doubles that are not floats, integers beyond 32 bits)"""
    k = rnd.random()
    if d >= 3 or k < 0.35:
        return rnd.choice(["1", "7", "-3", "true", "false", "null", '"s"', '"key"', "0", "1.5", "-2.5e200", "5000000000", "-3000000000", "2147483647", "-2147483648", "1e300"])
    if k < 0.68:
        return "[" + ",".join(cb_value(rnd, d + 1) for _ in range(rnd.randrange(0, 5))) + "]"
    keys = rnd.sample(["a", "b", "c", "key", "x", ""], rnd.randrange(0, 4))
    return "{" + ",".join('"%s":%s' % (kk, cb_value(rnd, d + 1)) for kk in keys) + "}"

def cb_ext(v):
    import struct
    if isinstance(v, bool) or v is None or isinstance(v, str):
        return 0
    if isinstance(v, int):
        return 1 if (v < -2 ** 31 or v >= 2 ** 32) else 0
    if isinstance(v, float):
        try:
            return 0 if struct.unpack("f", struct.pack("f", v))[0] == v else 1     # a double that is exactly a float is stored as a float
        except OverflowError:
            return 1
    return 0

def cb_slots(v):
    if isinstance(v, list):
        return sum(1 + cb_slots(e) for e in v)
    if isinstance(v, dict):
        return sum(2 + cb_slots(e) for e in v.values())
    return cb_ext(v)

def cb_eq(p, v):
    """equality of a dumped value with the source value; floating-point leaves within C12's parsing tolerance"""
    if isinstance(v, float) and isinstance(p, (float, int)) and not isinstance(p, bool):
        return abs(p - v) <= 1e-12 * abs(v)
    if isinstance(v, list):
        return isinstance(p, list) and len(p) == len(v) and all(cb_eq(x, y) for x, y in zip(p, v))
    if isinstance(v, dict):
        return isinstance(p, dict) and list(p.keys()) == list(v.keys()) and all(cb_eq(p[k], v[k]) for k in v)
    return type(p) == type(v) and p == v

def cb_trunc(p, v):
    """p is what a copy of v may leave behind: the same value, or arrays cut after a fully copied element, objects cut after a
    member whose own value is such a truncation"""
    if isinstance(v, list):
        return isinstance(p, list) and len(p) <= len(v) and all(cb_eq(x, y) for x, y in zip(p, v))
    if isinstance(v, dict):
        if not isinstance(p, dict) or list(p.keys()) != list(v.keys())[:len(p)]:
            return False
        ks = list(p.keys())
        return all(cb_eq(p[k], v[k]) for k in ks[:-1]) and (not ks or cb_trunc(p[ks[-1]], v[ks[-1]]))
    return cb_eq(p, v) or (p is None and cb_ext(v) == 1)      # a scalar whose extension slot could not be had stays null

def check(run):
    rnd = random.Random(run.seed * 275604541 + 5)
    thorough = run.tier == "thorough"
    ok, info = vlib.proof_stage(run, "C05")
    model = vlib.need_model()
    cfg = "10001"
    # a small pool geometry makes pool creation and pool-table growth (the interesting allocator calls) frequent
    geoms = [{"ARDUINOJSON_POOL_CAPACITY": 4, "ARDUINOJSON_INITIAL_POOL_COUNT": 1}, {}]
    oracle_fail, all_mism = [], []
    nh = 120 if thorough else 24
    total_runs = 0
    for gi, defs in enumerate(geoms):
        impl = vlib.need_harness("hist_h", cfg, defs)
        seeds = [run.seed * 100000 + 900000 + gi * 1000 + k for k in range(nh)]
        hists = histcheck.gen_histories(model, seeds, 45, ndocs=2)
        base, crash = histcheck.run_histories(impl, hists, ndocs=2)
        jobs = []    # (history index, failspec)
        for hi, (h, o) in enumerate(zip(hists, base)):
            if o == "<crash>":
                continue
            steps, trailer = histcheck.parse_run(o)
            ncalls = steps[-1][3] if steps else 0
            ks = list(range(ncalls))
            if not thorough and len(ks) > 40:
                ks = sorted(rnd.sample(ks, 40))
            for k in ks:
                jobs.append((hi, str(k)))
                jobs.append((hi, f"{k}+"))
            # random multi-failure subsets
            for _ in range(6 if thorough else 2):
                jobs.append((hi, "R" + str(rnd.randrange(1 << 30))))
        lines = []
        for hi, fs in jobs:
            if fs.startswith("R"):
                # a random subset is expressed as several runs of "fail from k" is not equivalent; use single points at random instead
                fs = str(rnd.randrange(max(1, histcheck.parse_run(base[hi])[0][-1][3])))
            lines.append(f"HRUN 2 0 {fs} {hists[hi]}")
        outs, crash2 = vlib.run_sharded(impl, lines, None, 1800, ["CFG " + cfg])
        total_runs += len(lines)
        for (hi, fs), line, o in zip(jobs, lines, outs):
            run.count((gi, hi, fs))
            if o == "<crash>":
                continue
            ops, exp = histcheck.split_history(hists[hi])
            unrelated = list(histcheck.last_unrelated)
            bsteps, _ = histcheck.parse_run(base[hi])
            fsteps, trailer = histcheck.parse_run(o)
            # memory: everything returned on clear and on destruction, usable again after clear
            if "afterclear=0" not in trailer or "leaked=0" not in trailer or "MISUSE" in trailer or "NOT-REUSABLE" in trailer:
                oracle_fail.append((cfg, line[:3000], "all memory returned on clear()/destruction, no misuse, document usable after clear()", trailer + f" [geometry {defs}]"))
                continue
            if "POST-SUCCESS-INCOMPLETE" in o or "POST-FAILURE-NOT-FLAGGED" in o:
                oracle_fail.append((cfg, line[:3000], "a deep copy made while allocations keep failing either reports failure (with overflowed() set) or is complete", ("POST-SUCCESS-INCOMPLETE" if "POST-SUCCESS-INCOMPLETE" in o else "POST-FAILURE-NOT-FLAGGED") + f" [geometry {defs}]"))
                continue
            # first step at which the failing run departs from the failure-free one
            j = None
            for i, (b, f) in enumerate(zip(bsteps, fsteps)):
                if b[0] != f[0] or b[1] != f[1]:
                    j = i
                    break
            if j is None:
                continue
            res, docs, hd = handle_dumps(fsteps[j][0])
            # the failure is reported: overflowed() is set on some document
            if "1" not in fsteps[j][1]:
                oracle_fail.append((cfg, line[:3000], f"step {j} ({ops[j]}): overflowed() set when the result differs from the failure-free run ({bsteps[j][0][:80]})",
                                    fsteps[j][0][:200] + f" ~{fsteps[j][1]} [geometry {defs}]"))
                continue
            if res in ("true", "bound") and handle_dumps(bsteps[j][0])[0] == res and fsteps[j][0] != bsteps[j][0]:
                oracle_fail.append((cfg, line[:3000], f"step {j} ({ops[j]}): reports the failure (false / unbound)", fsteps[j][0][:200]))
                continue
            # every value outside the path being modified is unchanged
            if j > 0:
                _, _, before = handle_dumps(fsteps[j - 1][0])
                toks = [t for t in ops[j].split(" ") if not t.startswith(("%", "@"))]
                rebound = toks[-1] if toks[0] in ("addnew", "getelem", "makeelem", "getmember", "makemember", "chainget", "addarr", "addobj", "nestarr", "nestobj") else None
                for h in unrelated[j]:
                    if h == rebound:
                        continue
                    if h in before and h in hd and before[h] != hd[h]:
                        oracle_fail.append((cfg, line[:3000], f"step {j} ({ops[j]}): handle {h} (unrelated to the target) unchanged: {before[h][:100]}", hd[h][:100]))
                        break
        for c in (crash, crash2):
            if c:
                run.violation(f"C05: library crashed / sanitizer report under an allocation failure (geometry {defs}): {c[:300]}",
                              dict(kind="history", cfg=cfg, defines=defs, harness_src="hist_h", lines=[c.split("\n")[0].split(": ", 1)[-1][:20000]], observed=c[c.find("\n"):][-3000:]))
        run.sample(dict(geometry=defs, case=lines[0][:300] if lines else ""))
    # ---- deserialization scenarios (the input generators of C01 / C09): every failure position of every input ----
    from props import C09
    ndes = 400 if thorough else 60
    texts = [t for _, t in jsonchecks.valid_docs(rnd, ndes, max_depth=3) if len(t) < 400]
    mps = []
    while len(mps) < ndes:
        v = C09.rand_value(rnd, depth=2)
        enc = C09.encode_tracking(v, rnd, {})
        if 2 <= len(enc) <= 400:
            mps.append(enc)
    # strings repeated and then outgrown (the deserializer's scratch buffer is kept for a duplicate, then must grow)
    for w in (b"id", b"name", b"k"):
        mps.append(b"\x92\x82" + bytes([0xa0 + len(w)]) + w + b"\x01\xa1v" + bytes([0xa0 + len(w)]) + w + b"\x82" + bytes([0xa0 + len(w)]) + w + b"\x02\xab" + w + b"-longer-key" [: 11 - len(w)] + b"\x03")
        texts.append(b'[{"%s":1,"v":"%s"},{"%s":2,"%s-much-longer-key-than-before":"%s"}]' % (w, w, w, w, w * 9))
    ndes_runs = 0
    for defs in ({}, {"ARDUINOJSON_POOL_CAPACITY": 4, "ARDUINOJSON_INITIAL_POOL_COUNT": 1}):
        impl = vlib.need_harness("doc_h", cfg, defs)
        scen = [("JF", t) for t in texts] + [("MF", m) for m in mps]
        filt = ["-" if rnd.random() < 0.7 else hx(gen_json.filters(rnd).encode()) for _ in scen]
        base_lines = [f"{c} 10 {f} - {hx(x)}" for (c, x), f in zip(scen, filt)]
        base, bcrash = vlib.run_sharded(impl, base_lines, None, 900, ["CFG " + cfg])
        jobs, lines = [], []
        for si, ((c, x), f, b) in enumerate(zip(scen, filt, base)):
            if b == "<crash>":
                continue
            n = int(b.split(" calls=")[1].split(" ")[0])
            ks = list(range(n))
            if not thorough and len(ks) > 24:
                ks = sorted(rnd.sample(ks, 24))
            for k in ks:
                for fs in (str(k), f"{k}+"):
                    jobs.append((si, fs))
                    lines.append(f"{c} 10 {f} {fs} {hx(x)}")
        outs, fcrash = vlib.run_sharded(impl, lines, None, 1800, ["CFG " + cfg])
        ndes_runs += len(lines)
        for (si, fs), line, o in zip(jobs, lines, outs):
            run.count(("deser", str(defs), si, fs))
            if o == "<crash>":
                continue
            b = base[si]
            code, dump_ = o.split(" ")[0], o.split(" ")[1]
            bcode, bdump = b.split(" ")[0], b.split(" ")[1]
            ov = " ov=1" in o
            if "afterclear=0" not in o or "leaked=0" not in o or "MISUSE" in o or "NOT-REUSABLE" in o or "MEASURE-DIFFERS" in o or "READONLY-ALLOCATES" in o:
                oracle_fail.append((cfg, line, "well-formed document; all memory returned on clear()/destruction, no block released twice, usable after clear()", o[-160:] + f" [geometry {defs}]"))
            elif (code, dump_) != (bcode, bdump) and code != "NoMemory":
                oracle_fail.append((cfg, line, f"the failure-free result {bcode} {bdump[:120]} or NoMemory", o[:200] + f" [geometry {defs}]"))
            elif code == "NoMemory" and not ov and bcode != "NoMemory":
                oracle_fail.append((cfg, line, "overflowed() set when NoMemory is reported", o[:200]))
            elif code == "Ok" and ov:
                oracle_fail.append((cfg, line, "Ok is not reported after a failed allocation (overflowed() is set)", o[:200]))
        for c in (bcrash, fcrash):
            if c:
                run.violation(f"C05: library crashed / sanitizer report while deserializing under an allocation failure (geometry {defs}): {c[:300]}",
                              dict(kind="input", cfg=cfg, defines=defs, harness_src="doc_h", lines=[c.split("\n")[0].split(": ", 1)[-1][:20000]], observed=c[c.find("\n"):][-3000:]))
    # --- copying a value when only b more slots can be had (Model/CopyBudget.v): result, destination and the number of slots
    # still free afterwards must be the model's, for every budget from 0 to "enough"
    import json as _json
    import gen_doc as _gd0
    from gen_doc import parse_dump as _pd
    def _plain(d):
        # dump value -> python value comparable with json.loads of the source text (ints, bools, None, str, list, dict)
        if d is None or d is True or d is False: return d
        if isinstance(d, list): return [_plain(x) for x in d]
        if d[0] == "o": return {k.decode("latin1"): _plain(x) for k, x in d[1]}
        if d[0] == "i": return d[1]
        if d[0] == "s": return d[1].decode("latin1")
        if d[0] in "FD": return float(_gd0.num_value(d))
        return ("other", d)
    implc = vlib.need_harness("doc_h", cfg)
    cb_lines, cb_meta = [], []
    for _ in range(1200 if thorough else 150):
        text = cb_value(rnd)
        v = _json.loads(text)
        need = cb_slots(v)
        if need > 200:
            continue
        for b in range(0, need + 2):
            cb_lines.append(f"CPB {b} {hx(text.encode())}")
            cb_meta.append((text, v, need, b))
    mism, cmo, cio = vlib.correspond(run, model, implc, cb_lines, cfg, "copy with a slot budget")
    all_mism += [(cfg, m) for m in mism]
    for l, (text, v, need, b), o in zip(cb_lines, cb_meta, cio):
        if o == "<crash>":
            continue
        if "NOT-FLAGGED" in o or "LEAK-OR-MISUSE" in o or o.startswith(("budget-too-large", "setup", "bad-src")):
            oracle_fail.append((cfg, l, "a failed copy sets overflowed(); every block returns to the allocator", o[:200])); continue
        okc, d, rem = o.split(" ")[:3]
        p = _plain(_pd(d))
        if okc == "true" and (not cb_eq(p, v) or b < need or int(rem) != b - need):
            oracle_fail.append((cfg, l, f"a copy that reports success is complete and uses exactly {need} slots", o[:200]))
        elif okc == "false" and (b >= need or not cb_trunc(p, v)):
            oracle_fail.append((cfg, l, "a copy fails only for lack of slots and leaves a truncation of the source (whole elements, whole members) in the destination", o[:200]))
        elif okc == "false" and int(rem) + cb_slots(p) > b:
            oracle_fail.append((cfg, l, "no more slots in use or free than there were", o[:200]))
    # --- reading a document when only j pool blocks can be had (Model/CopyBudget.v read_budget): code and document = the model's
    import gen_doc as _gd
    def _tod(v):
        if v is None or v is True or v is False: return v
        if isinstance(v, int): return ("i", v)
        if isinstance(v, float):
            import struct
            return ("D", struct.unpack(">Q", struct.pack(">d", v))[0])
        if isinstance(v, str): return ("s", v.encode())
        if isinstance(v, list): return [_tod(x) for x in v]
        return ("o", [(("s", k.encode()), _tod(x)) for k, x in v.items()])
    for rdefs in ({"ARDUINOJSON_POOL_CAPACITY": 3, "ARDUINOJSON_INITIAL_POOL_COUNT": 2}, {"ARDUINOJSON_POOL_CAPACITY": 5, "ARDUINOJSON_INITIAL_POOL_COUNT": 1}):
        cap = rdefs["ARDUINOJSON_POOL_CAPACITY"]
        implr = vlib.need_harness("doc_h", cfg, rdefs)
        ml, il, meta = [], [], []
        for _ in range(600 if thorough else 90):
            text = cb_value(rnd)
            v = _json.loads(text)
            need = cb_slots(v)
            if need > 60:
                continue
            for fmt_, data in (("J", text.encode()), ("M", _gd.mp_encode(_tod(v), rnd))):
                for j in range(0, need // cap + 2):
                    il.append(f"DSB {fmt_} {j} {hx(data)}")
                    ml.append(f"DSB {fmt_} {j * cap} {hx(data)}")
                    meta.append((v, need, j * cap))
        mo_, mcr = vlib.run_sharded(model, ml, None, 900, ["CFG " + cfg])
        if mcr:
            raise vlib.Broken("model driver crashed: " + mcr[:300])
        io_, icr = vlib.run_sharded(implr, il, None, 900, ["CFG " + cfg])
        if icr:
            k = io_.index("<crash>") if "<crash>" in io_ else 0
            run.violation(f"C05: library crashed while reading with a slot budget ({rdefs}): {icr[:200]}", dict(kind="input", cfg=cfg, defines=rdefs, harness_src="doc_h", lines=[il[k]], observed=icr[-2000:]))
        for l, m, o, (v, need, b) in zip(il, mo_, io_, meta):
            run.count(("dsb", cap, l))
            if o == "<crash>":
                continue
            body = o.split(" cap=")[0]
            if any(t in o for t in ("NOT-FLAGGED", "FLAGGED-THOUGH-OK", "NOT-REUSABLE", "LEAK-OR-MISUSE")):
                oracle_fail.append((cfg, l, f"NoMemory sets overflowed(); the document is reusable after clear(); every block returned [{rdefs}]", o[:200])); continue
            code, d = body.split(" ")[:2]
            p = _plain(_pd(d))
            if code == "Ok" and (not cb_eq(p, v) or b < need):
                oracle_fail.append((cfg, l, f"Ok means the whole document ({need} slots needed, {b} available) [{rdefs}]", o[:200]))
            elif code == "NoMemory" and b >= need:
                oracle_fail.append((cfg, l, f"NoMemory only for lack of slots ({need} needed, {b} available) [{rdefs}]", o[:200]))
            elif code not in ("Ok", "NoMemory"):
                oracle_fail.append((cfg, l, "Ok or NoMemory", o[:200]))
            elif body != m:
                all_mism.append((cfg, (0, l, m, body)))
        run.cov["disagreements_checked"] += len(il)
    run.cov["rule"] = ("[deserialization] %d JSON texts and %d MessagePack inputs (C01 / C09 generators, filters on 30%%) x every single-failure position and every fail-from "
                       "position (%d failing runs, 2 geometries): no crash or sanitizer report; the result is the failure-free one or NoMemory with overflowed() set; "
                       "the document can be traversed, measured and serialized; clear() returns every block; reusable; nothing leaks or is released twice; " % (len(texts), len(mps), ndes_runs))
    run.cov["rule"] += ("for each of %d histories per geometry (45 operations on 2 documents incl. deserializeJson, copies between documents, document copy/swap/shrink) with N "
                       "allocator calls: every single-failure position k and every fail-from-k schedule (quick: at most 40 positions per history) plus random positions; "
                       "%d failing runs; oracles: no crash/sanitizer report; at the first operation that departs from the failure-free run overflowed() is set and the operation "
                       "does not claim success; handles unrelated to its target keep their value; after the history clear() returns every block, the document works again, "
                       "destruction leaks nothing, no block is released twice; distinct = distinct (geometry, history, schedule)" % (nh, total_runs))
    run.assumptions += ["a shrinking reallocate never fails (as the property states)", "level: fault enumeration over generated scenarios; the theorems are about the slot allocator model (PoolProofs)"]
    run.cov["rule"] += "; [copy with a slot budget] nested values x every budget 0..needed+1: result, destination, free slots afterwards = Model/CopyBudget.v; success = complete, failure = truncation, flagged; [reading with a slot budget] the same values as JSON and MessagePack into a document whose allocator grants j pool blocks only (2 pool capacities): code and document = read_budget"
    jsonchecks.finish_standard(run, "C05", ok, info, oracle_fail, all_mism, harness="hist_h")

def replay(rp):
    cfg = rp.get("cfg", "10001")
    h = vlib.need_harness("hist_h", cfg, rp.get("defines"))
    bad = 0
    for l in rp.get("lines", []):
        io, crash = vlib.run_lines(h, ["CFG " + cfg, l])
        if l.split(" ")[0] in ("JF", "MF"):
            h = vlib.need_harness("doc_h", cfg, rp.get("defines"))
            io, crash = vlib.run_lines(h, ["CFG " + cfg, l])
        print("run:", l[:1500])
        print(" impl:", (io[1] if len(io) > 1 else io)[-2500:])
        if crash:
            print(crash[-2500:]); bad = 1
    return bad
