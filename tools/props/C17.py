"""C17 — Unicode escapes decode correctly for every code point; escaping is the inverse."""
import random
import vlib

def hx(b):
    return b.hex() if b else "-"

def jline(text, L=10, flt="-"):
    return f"J {L} {flt} {hx(text)}"

def utf8_oracle(cp):
    return chr(cp).encode("utf-8", "surrogatepass")

def spell(u, rnd):
    s = "%04x" % u
    return "".join(ch.upper() if rnd.random() < 0.5 else ch for ch in s)

def check(run):
    rnd = random.Random(run.seed)
    thorough = run.tier == "thorough"
    ok, info = vlib.proof_stage(run, "C17")
    model = vlib.need_model()
    cfg = "10001"
    impl = vlib.need_harness("text_h", cfg)
    oracle_fail = []   # (line, expected, observed)

    # 1. Utf8::encodeCodepoint on every code point (the only tie for this function)
    step = 1 if thorough else 7
    cps = sorted(set(list(range(0, 0x110000, step)) + [0x7F, 0x80, 0x7FF, 0x800, 0xFFFF, 0x10000, 0x10FFFF]
                     + [rnd.randrange(0x110000) for _ in range(2000)]))
    lines = [f"U8 {cp}" for cp in cps]
    mism, mo, io = vlib.correspond(run, model, impl, lines, cfg, "encodeCodepoint")
    for cp, o in zip(cps, io):
        exp = hx(utf8_oracle(cp))
        if o != exp and o != "<crash>":
            oracle_fail.append((f"U8 {cp}", exp, o))
    all_mism = list(mism)

    # 2. all 65536 \uXXXX code units inside a string, random hex case, random position
    lines, exps = [], []
    for u in range(65536):
        pre = bytes(rnd.choice(b"abcxyz ") for _ in range(rnd.randrange(3)))
        post = bytes(rnd.choice(b"abcxyz ") for _ in range(rnd.randrange(3)))
        lines.append(jline(b'"' + pre + b"\\u" + spell(u, rnd).encode() + post + b'"'))
        if 0xD800 <= u < 0xE000:
            exps.append(None)          # unpaired surrogate: only "never crashes" is required
        else:
            exps.append("Ok %d ok s%s" % (len(pre) + len(post) + 8, hx(pre + utf8_oracle(u) + post)))
    mism, mo, io = vlib.correspond(run, model, impl, lines, cfg, "\\uXXXX code units")
    all_mism += mism
    for l, e, o in zip(lines, exps, io):
        if e is not None and o != e and o != "<crash>":
            oracle_fail.append((l, e, o))

    # 3. surrogate pairs: all 1024x1024 in thorough, a covering sample otherwise
    pairs = []
    if thorough:
        pairs = [(h, l) for h in range(0xD800, 0xDC00) for l in range(0xDC00, 0xE000)]
    else:
        for h in range(0xD800, 0xDC00):
            pairs.append((h, rnd.randrange(0xDC00, 0xE000)))
        for l in range(0xDC00, 0xE000):
            pairs.append((rnd.randrange(0xD800, 0xDC00), l))
        pairs += [(0xD800, 0xDC00), (0xDBFF, 0xDFFF), (0xD800, 0xDFFF), (0xDBFF, 0xDC00)]
        pairs += [(rnd.randrange(0xD800, 0xDC00), rnd.randrange(0xDC00, 0xE000)) for _ in range(6000)]
    lines, exps = [], []
    for h, l in pairs:
        lines.append(jline(b'"\\u' + spell(h, rnd).encode() + b"\\u" + spell(l, rnd).encode() + b'"'))
        cp = 0x10000 + ((h - 0xD800) << 10) + (l - 0xDC00)
        exps.append("Ok 14 ok s" + hx(utf8_oracle(cp)))
    mism, mo, io = vlib.correspond(run, model, impl, lines, cfg, "surrogate pairs")
    all_mism += mism
    for l, e, o in zip(lines, exps, io):
        if o != e and o != "<crash>":
            oracle_fail.append((l, e, o))

    # 4. unpaired / reversed / repeated surrogates and stray escapes: never crash (model agrees)
    lines = []
    for _ in range(3000 if not thorough else 50000):
        n = rnd.randrange(1, 5)
        body = b""
        for _ in range(n):
            k = rnd.random()
            if k < 0.4:
                body += b"\\u" + spell(rnd.randrange(0xD800, 0xE000), rnd).encode()
            elif k < 0.6:
                body += b"\\u" + spell(rnd.randrange(65536), rnd).encode()
            elif k < 0.7:
                body += b"\\u" + bytes(rnd.choice(b"0123456789abcdefABCDEFg:`@/ ") for _ in range(rnd.randrange(5)))
            else:
                body += bytes([rnd.choice(b"ab\\\"/ntu0")])
        lines.append(jline(b'"' + body + b'"'))
    mism, mo, io = vlib.correspond(run, model, impl, lines, cfg, "unpaired surrogates")
    all_mism += mism

    # 5. every byte and every byte pair as string content: writeString, then deserializeJson
    contents = [bytes([a]) for a in range(256)] + [bytes([a, b]) for a in range(256) for b in range(256)]
    contents += [bytes(rnd.randrange(256) for _ in range(rnd.randrange(3, 40))) for _ in range(2000)]
    lines = ["WS " + hx(c) for c in contents]
    mism, mo, io = vlib.correspond(run, model, impl, lines, cfg, "writeString")
    all_mism += mism
    named = set(b'"\\\b\f\n\r\t\0')
    lines2 = []
    for c, o in zip(contents, io):
        if o == "<crash>":
            continue
        txt = bytes.fromhex(o) if o != "-" else b""
        # bytes other than the named ones must pass through unchanged
        inner = txt[1:-1]
        if all(x not in named for x in c) and inner != c:
            oracle_fail.append(("WS " + hx(c), hx(b'"' + c + b'"'), o))
        lines2.append((c, jline(txt)))
    mism, mo, io = vlib.correspond(run, model, impl, [l for _, l in lines2], cfg, "round trip")
    all_mism += mism
    for (c, l), o in zip(lines2, io):
        e = "Ok %d ok s%s" % (len(bytes.fromhex(l.split()[3])), hx(c))
        if o != e and o != "<crash>":
            oracle_fail.append((l, e, o))

    # 5. the same strings side by side in ONE document (values and keys): every string must still come back byte-exact
    #    when another string of the document is its prefix up to a NUL, its prefix, or equal to it
    def esc(bs):
        return b'"' + b"".join((b"\\u%04x" % c) if (c < 0x20 or c in (0x22, 0x5c)) else bytes([c]) for c in bs) + b'"'
    doc_lines, doc_exp = [], []
    for base in range(0, 256, 16):
        strs = []
        for b in range(base, base + 16):
            if b >= 0x80:
                continue           # keep the text valid UTF-8 (raw high bytes are exercised above)
            for sfx in (b"", b"\x00", b"\x00" + bytes([b]), b"\x00\x00", bytes([b]), bytes([b]) + b"\x00z"):
                strs.append(bytes([b]) + sfx)
        strs += [b"", b"\x00", b"\x00\x00", b"ab", b"ab\x00cd", b"ab\x00", b"abc"]
        for order in (strs, strs[::-1]):
            text = b"[" + b",".join(esc(x) for x in order) + b"]"
            doc_lines.append(jline(text)); doc_exp.append("[" + ",".join("s" + hx(x) if x else "s-" for x in order) + "]")
            seen, keys = set(), []
            for x in order:
                if x not in seen:
                    seen.add(x); keys.append(x)
            text = b"{" + b",".join(esc(x) + b":" + esc(x) for x in keys) + b"}"
            doc_lines.append(jline(text)); doc_exp.append("{" + ",".join((hx(x) if x else "-") + ":" + ("s" + hx(x) if x else "s-") for x in keys) + "}")
    mism, mo, io = vlib.correspond(run, model, impl, doc_lines, cfg, "strings side by side")
    all_mism += mism
    for l, e, o in zip(doc_lines, doc_exp, io):
        if o != "<crash>" and (not o.startswith("Ok ") or o.split(" ")[3] != e):
            oracle_fail.append((l[:3000], "Ok ... " + e[:300], o[:400]))

    # 6. several escapes in ONE string: consecutive surrogate pairs, pairs separated by raw characters or by a BMP
    #    escape, the same pair twice; as a value and as a key
    def uesc(cp):
        if cp >= 0x10000:
            v = cp - 0x10000
            return "\\u%04X\\u%04x" % (0xD800 + (v >> 10), 0xDC00 + (v & 0x3FF))
        return "\\u%04x" % cp
    multi_lines, multi_exp = [], []
    astral = [0x10000, 0x10FFFF, 0x1F600, 0x1F601, 0x1D11E, 0x2F800] + [rnd.randrange(0x10000, 0x110000) for _ in range(20)]
    bmp = [0xE9, 0x20AC, 0x7F, 0x800, 0xFFFF, 0xD7FF, 0xE000]
    for _ in range(300 if thorough else 80):
        parts, out = [], b""
        for _k in range(rnd.randrange(2, 5)):
            kind = rnd.random()
            if kind < 0.6:
                cp = rnd.choice(astral); parts.append(uesc(cp)); out += chr(cp).encode("utf-8")
            elif kind < 0.8:
                cp = rnd.choice(bmp); parts.append(uesc(cp)); out += chr(cp).encode("utf-8")
            else:
                ch = rnd.choice("xyz "); parts.append(ch); out += ch.encode()
        body = "".join(parts)
        for text, exp in ((('"%s"' % body), "s" + hx(out)), ('{"%s":1}' % body, "{" + hx(out) + ":i1}"), ('["%s","%s"]' % (body, body), "[s%s,s%s]" % (hx(out), hx(out)))):
            multi_lines.append(jline(text.encode())); multi_exp.append(exp)
    mism, mo, io = vlib.correspond(run, model, impl, multi_lines, cfg, "several escapes in one string")
    all_mism += mism
    for l, e, o in zip(multi_lines, multi_exp, io):
        if o != "<crash>" and (not o.startswith("Ok ") or o.split(" ")[3] != e):
            oracle_fail.append((l[:2000], "Ok ... " + e[:300], o[:400]))

    run.cov["rule"] = ("exhaustive over \\uXXXX code units (65536), single bytes (256), byte pairs (65536); "
                       "code points every %d-th + boundaries; surrogate pairs %s; distinct = distinct case line; "
                       "every case decodes/encodes at least one character (non-trivial)" %
                       (step, "all 1048576" if thorough else "each high and each low at least once + random"))
    run.cov["exhaustive"] = bool(thorough)
    run.sample(dict(case=lines2[300][1], meaning="J <nesting> <filter> <hex of JSON text> -> code reads fault dump"))
    run.sample(dict(case="U8 128512", meaning="Utf8::encodeCodepoint(U+1F600)"))
    run.assumptions += ["unpaired surrogates: only absence of crash and model agreement are required",
                        "ARDUINOJSON_DECODE_UNICODE=1"]

    for l, e, o in oracle_fail[:5]:
        run.violation(f"C17 oracle: expected {e} got {o}",
                      dict(kind="input", cfg=cfg, lines=[l], expected=e, observed=o))
    if not oracle_fail:
        for k, l, a, b in all_mism[:5]:
            run.violation(f"model/implementation disagree on {l}: model {a} impl {b}",
                          dict(kind="input", cfg=cfg, lines=[l], model=a, observed=b,
                               note="correspondence broken; no oracle failure found among the explored cases",
                               failing_input=False))
    if not ok:
        found = bool(oracle_fail)
        for p in info["problems"]:
            if not found:
                run.violation(p, dict(kind="obligation", theorem="Properties_C17 / " + p[:200],
                                      failing_input=False, detail=info["log"][-2000:]))
            else:
                run.notes.append("also: " + p)

def replay(rp):
    return vlib.replay_lines(rp)
