"""C11 — filtering equals projecting the unfiltered result."""
import json, random
import vlib, gen_json, gen_doc, jsonchecks
from gen_json import hx
from gen_doc import parse_dump, dump
from props import C09

def truthy(f):
    if f is None or f is False:
        return False
    if isinstance(f, tuple) and f[0] == "i":
        return f[1] != 0
    if isinstance(f, tuple) and f[0] in "FD":
        x = gen_doc.num_value(f)
        return x != 0
    return True

def is_true(f):
    return f is True

def project(f, v):
    """the projection of value v onto filter f, written from the text of C11"""
    if is_true(f):
        return v
    if isinstance(v, tuple) and v[0] == "o":
        if not (isinstance(f, tuple) and f[0] == "o"):
            return None
        fm = dict(f[1])
        out = []
        for k, x in v[1]:
            if k in fm:
                e = fm[k]
            elif b"*" in fm:
                e = fm[b"*"]
            else:
                continue
            if not truthy(e):
                continue
            out.append((k, project(e, x)))
        return ("o", out)
    if isinstance(v, list):
        if not isinstance(f, list):
            return None
        if not f or not truthy(f[0]):
            return []
        return [project(f[0], x) for x in v]
    return None    # a scalar is kept only by `true`

def ambiguous(f):
    """filters whose meaning the property text does not pin down: numbers equal to 1 (the code treats them as true)"""
    if isinstance(f, list):
        return any(ambiguous(x) for x in f)
    if isinstance(f, tuple) and f[0] == "o":
        return any(ambiguous(x) for _, x in f[1])
    if isinstance(f, tuple) and f[0] in "iFD":
        return gen_doc.num_value(f) == 1
    return False

def check(run):
    rnd = random.Random(run.seed * 160481183 + 11)
    thorough = run.tier == "thorough"
    ok, info = vlib.proof_stage(run, "C11")
    model = vlib.need_model()
    cfg = "10001"
    impl_t = vlib.need_harness("text_h", cfg)
    impl_d = vlib.need_harness("doc_h", cfg)
    oracle_fail, all_mism = [], []
    n = 30000 if thorough else 4000
    # inputs: small universes over keys a,b,* so that filters and inputs meet, plus general documents
    def small_value(d=0):
        k = rnd.random()
        if d > 2 or k < 0.4:
            return rnd.choice(["1", "\"s\"", "true", "null", "2.5", "false", "\"\""])
        if k < 0.65:
            return "[" + ",".join(small_value(d + 1) for _ in range(rnd.randrange(0, 4))) + "]"
        return "{" + ",".join('"%s":%s' % (rnd.choice(["a", "b", "c", "ab", "*", "a\\u0000b", ""]), small_value(d + 1))
                              for _ in range(rnd.randrange(0, 4))) + "}"
    texts = [small_value().encode() for _ in range(n // 2)]
    texts += [text for _, text in jsonchecks.valid_docs(rnd, n // 4, max_depth=3)]
    fl = [gen_json.filters(rnd).encode() for _ in range(len(texts))]
    # a key that occurs twice with values of different kinds, under a filter entry that admits only one of the kinds: the
    # member is what the LAST occurrence projects to (null when its kind is not admitted), never a leftover of the first
    for _ in range(n // 20):
        k = rnd.choice(["a", "b", "ab"])
        vals = [rnd.choice(['{"x":1,"y":2}', '[1,{"x":2}]', '"s"', '5', 'null', '{"x":[3]}', '[]', '{}']) for _ in range(rnd.choice([2, 2, 3]))]
        inner = ",".join('"%s":%s' % (k, v) for v in vals)
        if rnd.random() < 0.5:
            inner = '"z":0,' + inner + ',"c":true'
        text = "{" + inner + "}"
        if rnd.random() < 0.3:
            text = '[%s,{"n":%s}]' % (text, text)
        fentry = rnd.choice(['{"x":true}', '[true]', '[{"x":true}]', 'true', '{"y":true,"x":[true]}'])
        f = rnd.choice(['{"%s":%s}' % (k, fentry), '{"*":%s}' % fentry, '{"%s":%s,"*":true}' % (k, fentry), '[{"%s":%s}]' % (k, fentry),
                        '[{"%s":%s,"n":{"%s":%s}}]' % (k, fentry, k, fentry)])
        texts.append(text.encode())
        fl.append(f.encode())
    # the filter documents as the library sees them (through the unfiltered reader)
    flines = ["J 50 - " + hx(f) for f in fl]
    fmo, _ = vlib.run_sharded(model, flines, None, 600, ["CFG " + cfg])
    ulines = ["J 10 - " + hx(t) for t in texts]
    plines = ["J 10 %s %s" % (hx(f), hx(t)) for f, t in zip(fl, texts)]
    mism, umo, uio = vlib.correspond(run, model, impl_t, ulines, cfg, "unfiltered")
    all_mism += [(cfg, m) for m in mism]
    mism, pmo, pio = vlib.correspond(run, model, impl_t, plines, cfg, "filtered JSON")
    all_mism += [(cfg, m) for m in mism]
    for f, t, fm, u, p, l in zip(fl, texts, fmo, uio, pio, plines):
        if "<crash>" in (u, p):
            continue
        if u.split(" ")[0] != "Ok":
            continue
        if p.split(" ")[0] != "Ok":
            oracle_fail.append((cfg, l, "Ok (the unfiltered run succeeds)", p[:160]))
            continue
        fv = parse_dump(fm.split(" ")[3])
        if ambiguous(fv):
            continue
        want = dump(project(fv, parse_dump(u.split(" ")[3])))
        if p.split(" ")[3] != want:
            oracle_fail.append((cfg, l, "projection " + want[:200], p[:200]))
    # the same (filter, input) pairs through every way of giving the input AND the filter (doc_h JK: 13 input kinds, the
    # filter once more as a JsonDocument built through the API on an allocator that moves its blocks when it shrinks):
    # every kind must give the projection
    kl, kmeta = [], []
    for f, t, fm, u in list(zip(fl, texts, fmo, uio))[: (1500 if thorough else 250)]:
        if "<crash>" in u or u.split(" ")[0] != "Ok" or len(t) > 300:
            continue
        fv = parse_dump(fm.split(" ")[3])
        if ambiguous(fv):
            continue
        kl.append("JK 10 %s %s" % (hx(f), hx(t)))
        kmeta.append("Ok:" + dump(project(fv, parse_dump(u.split(" ")[3]))))
    ko, kcrash = vlib.run_sharded(impl_d, kl, None, 900, ["CFG " + cfg])
    if kcrash:
        k = ko.index("<crash>") if "<crash>" in ko else 0
        run.violation("C11: library crashed while filtering (some input or filter kind): " + kcrash[:200], dict(kind="input", cfg=cfg, harness_src="doc_h", lines=[kl[k]], observed=kcrash[-2500:]))
    for l, want, o in zip(kl, kmeta, ko):
        run.count((cfg, "kinds", l))
        if o == "<crash>":
            continue
        for ent in o.strip().split(" "):
            kname, _, val = ent.partition("=")
            if val and val != want and not val.endswith("!MEASURE") and kname not in ("cstr", "mutcstr", "flash", "variant") :
                oracle_fail.append((cfg, l, f"projection {want[:200]} whichever way the input and the filter are given", f"{kname}: {val[:200]}"))
                break
            if val and val != want and kname in ("cstr", "mutcstr", "flash", "variant") and b"\x00" not in bytes.fromhex(l.split(" ")[3]):
                oracle_fail.append((cfg, l, f"projection {want[:200]} whichever way the input and the filter are given", f"{kname}: {val[:200]}"))
                break
    # MessagePack
    mvals = []
    for _ in range(n // 3):
        v = C09.rand_value(rnd, depth=1)
        mvals.append(C09.encode_tracking(v, rnd, {}))
    mfl = [gen_json.filters(rnd).encode() for _ in mvals]
    mflines = ["J 50 - " + hx(f) for f in mfl]
    mfmo, _ = vlib.run_sharded(model, mflines, None, 600, ["CFG " + cfg])
    ulines = ["M 10 - " + hx(t) for t in mvals]
    plines2 = ["M 10 %s %s" % (hx(f), hx(t)) for f, t in zip(mfl, mvals)]
    mism, umo, uio = vlib.correspond(run, model, impl_d, ulines, cfg, "unfiltered MessagePack")
    all_mism += [(cfg, m) for m in mism]
    mism, pmo, pio = vlib.correspond(run, model, impl_d, plines2, cfg, "filtered MessagePack")
    all_mism += [(cfg, m) for m in mism]
    for fm, u, p, l in zip(mfmo, uio, pio, plines2):
        if "<crash>" in (u, p) or u.split(" ")[0] != "Ok":
            continue
        if p.split(" ")[0] != "Ok":
            oracle_fail.append((cfg, l, "Ok (the unfiltered run succeeds)", p[:160]))
            continue
        fv = parse_dump(fm.split(" ")[3])
        if ambiguous(fv):
            continue
        want = dump(project(fv, parse_dump(u.split(" ")[2])))
        if p.split(" ")[2] != want:
            oracle_fail.append((cfg, l, "projection " + want[:200], p[:200]))
    # the filter `true` is the identity on every input, malformed ones included
    bad = [gen_json.mutate(rnd, t) for t in texts[: n // 3]] + [bytes(rnd.randrange(256) for _ in range(rnd.randrange(12))) for _ in range(500)]
    a = ["J 10 - " + hx(t) for t in bad]
    b = ["J 10 74727565 " + hx(t) for t in bad]
    mism, _, ao = vlib.correspond(run, model, impl_t, a, cfg, "malformed unfiltered")
    all_mism += [(cfg, m) for m in mism]
    mism, _, bo = vlib.correspond(run, model, impl_t, b, cfg, "malformed filter=true")
    all_mism += [(cfg, m) for m in mism]
    for l, x, y in zip(b, ao, bo):
        if x != y and "<crash>" not in (x, y):
            oracle_fail.append((cfg, l, "identical to the unfiltered run: " + x[:150], y[:150]))
    # memory: for accepted inputs the filtered run requests no more memory than the unfiltered one
    ja = ["JA 10 - " + hx(t) for t in texts[:1500]] + ["MA 10 - " + hx(t) for t in mvals[:800]]
    jb = ["JA 10 %s %s" % (hx(f), hx(t)) for f, t in zip(fl[:1500], texts[:1500])] + \
         ["MA 10 %s %s" % (hx(f), hx(t)) for f, t in zip(mfl[:800], mvals[:800])]
    uo, c1 = vlib.run_sharded(impl_d, ja, None, 600, ["CFG " + cfg])
    fo, c2 = vlib.run_sharded(impl_d, jb, None, 600, ["CFG " + cfg])
    for l, x, y in zip(jb, uo, fo):
        run.count((cfg, l))
        if "<crash>" in (x, y):
            continue
        fx = dict(p.split("=") for p in x.split(" ")[2:] if "=" in p)
        fy = dict(p.split("=") for p in y.split(" ")[2:] if "=" in p)
        if "MISUSE" in y or fy.get("leaked") != "0":
            oracle_fail.append((cfg, l, "every block released exactly once", y[:200]))
        if x.split(" ")[0] == "Ok" and (int(fy["req"]) > int(fx["req"]) or int(fy["peak"]) > int(fx["peak"])):
            oracle_fail.append((cfg, l, f"requested <= {fx['req']} and peak <= {fx['peak']} (unfiltered run)", y[:200]))
    for c in (c1, c2):
        if c:
            run.violation("C11: library crashed on an instrumented-allocator run: " + c[:300], dict(kind="input", cfg=cfg, harness_src="doc_h", observed=c[-2000:]))
    run.cov["rule"] = ("pairs (input, filter): small universe over keys a,b,c,ab,*,a\\0b,\"\" with nested objects/arrays, general documents, MessagePack objects with random "
                       "widths and duplicate keys; filters: scalars true/false/null/0/1/2/\"x\", nested, wildcard beside explicit entries, empty containers, shapes "
                       "disagreeing with the input; oracle: projection of the library's own unfiltered result computed by an independent function written from the "
                       "property text; filter true vs no filter on malformed inputs; allocator totals filtered <= unfiltered for accepted inputs; distinct = distinct case line")
    run.sample(dict(case=plines[0][:200], meaning="J <limit> <hex filter JSON> <hex input>"))
    run.assumptions += ["numbers equal to 1 used as filters are treated by the code like true; the property text does not pin this down, such filters are compared with the model only",
                        "the clause 'for any input whatsoever filtering never requests more memory' is checked for inputs the unfiltered run accepts (DESIGN.md §8.4)"]
    jsonchecks.finish_standard(run, "C11", ok, info, oracle_fail, all_mism)

def replay(rp):
    return vlib.replay_lines(rp, rp.get("harness_src", "text_h"))
