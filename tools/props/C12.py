"""C12 — numbers survive text: exact integers, bounded error, never a wrong magnitude."""
import math, random, sys
sys.set_int_max_str_digits(0)
from fractions import Fraction
import vlib, gen_json, gen_doc, jsonchecks
from gen_json import hx

def literals(rnd, n):
    g = gen_json.Gen(rnd)
    out = []
    for _ in range(n):
        k = rnd.random()
        if k < 0.35:
            lit = g.int_literal()
            if rnd.random() < 0.5:
                neg = lit.startswith("-")
                lit = ("-" if neg else "") + "0" * rnd.randrange(0, 40) + lit.lstrip("-")
        else:
            lit = g.float_literal()
        if len(lit) <= 63:
            out.append(lit)
    # hand-picked boundaries: uint64 guards, mantissa_max, float/double decision, exponent limits
    out += ["18446744073709551615", "18446744073709551616", "18446744073709551617", "184467440737095516150", "1844674407370955161",
            "9223372036854775807", "9223372036854775808", "-9223372036854775808", "-9223372036854775809", "4503599627370495", "4503599627370496",
            "8388607", "8388608", "8388607.5", "0.8388608", "10e38", "3.5e38", "8388607e32", "3.4028234e38", "3.4028236e38", "1e38", "1e39", "1e-38", "1e-39", "1e-45", "1e-46",
            "1" + "0" * 45 + "e-300", "1" + "0" * 45 + "e-340", "0e999", "0.0e-999", "-0e999", "1e308", "1e309", "1.7976931348623157e308", "1.7976931348623159e308",
            "4.9e-324", "2.4e-324", "1e-323", "1e-400", "1e400", "-1e400", "123456789012345678901234567890", "0." + "0" * 50 + "1", "1e5000", "1e-5000",
            "1e", "1e+", "1.", ".5", "-.5e-1", "00012", "-00012.50", "1E5", "1e+05", "1e-05", "1.0000001", "1.00000001", "0.30000000000000004", "0.1", "0.2",
            "1.234567", "1.2345678", "12.345678", "16.777215", "16.777216", "-1500000.1", "1.6000001e30", "1.2345678e-20"]
    return out

def check(run):
    rnd = random.Random(run.seed * 217645199 + 12)
    thorough = run.tier == "thorough"
    ok, info = vlib.proof_stage(run, "C12")
    model = vlib.need_model()
    oracle_fail, all_mism = [], []
    known = {k["id"]: k for k in vlib.load_known_findings() if k["prop"] == "C12"}
    for cfg in ("10001",) + (("10000",) if thorough else ()):
        impl_t = vlib.need_harness("text_h", cfg)
        lits = literals(rnd, 80000 if thorough else 12000)
        lines = ["N " + hx(l.encode()) for l in lits]
        mism, mo, io = vlib.correspond(run, model, impl_t, lines, cfg, "parseNumber")
        all_mism += [(cfg, m) for m in mism]
        if cfg == "10001":
            for lit, l, o in zip(lits, lines, io):
                if o in ("<crash>",):
                    continue
                if o == "invalid":
                    if is_json_number(lit):
                        oracle_fail.append((cfg, l, "a number", o))
                    continue
                # leading zeros do not change the value (the property names them): judged as the same literal without them
                import re as _re
                mz = _re.match(r"^(-?)0+(\d.*)$", lit)
                olit = (mz.group(1) + mz.group(2)) if mz else lit
                if not is_json_number(olit):
                    continue     # other lenient spellings: model only
                d = ("i" + o[1:]) if o[0] in "ui" else o
                m = gen_json.check_number(olit, d)
                if m:
                    oracle_fail.append((cfg, l, m, o))
    cfg = "10001"
    # any length through as<T>() on a string
    impl_n = vlib.need_harness("num_h", cfg)
    longs = []
    for _ in range(2500 if thorough else 400):
        k = rnd.random()
        digits = "".join(rnd.choice("0123456789") for _ in range(rnd.choice([1, 5, 20, 64, 100, 400, 1000, 5000])))
        if k < 0.4:
            s = digits.lstrip("0") or "0"
            s = s + rnd.choice(["", ".5", "e-%d" % rnd.randrange(0, 6000), "e%d" % rnd.randrange(0, 400)])
        elif k < 0.8:
            s = "0." + "0" * rnd.choice([0, 5, 100, 320, 1000, 40000]) + (digits.lstrip("0") or "1") + rnd.choice(["", "e%d" % rnd.randrange(0, 1200)])
        else:
            s = rnd.choice(["1", "7", "123456789"]) + "0" * rnd.choice([10, 300, 308, 309, 600, 60000])
        longs.append(rnd.choice(["", "-"]) + s)
    lines = ["AS 0 s" + hx(l.encode()) for l in longs]
    mism, mo, io = vlib.correspond(run, model, impl_n, lines, cfg, "as<double>() on long numeric strings")
    all_mism += [(cfg, m) for m in mism]
    for lit, l, o in zip(longs, lines, io):
        if o == "<crash>":
            continue
        f = dict(p.split("=") for p in o.split(" ") if "=" in p)
        m = check_magnitude(lit, f["f64"])
        if m:
            oracle_fail.append((cfg, l[:200], m, o[-80:]))
    # printing: floats and doubles over all exponents
    impl_d = vlib.need_harness("doc_h", cfg)
    vals = []
    for e in range(-1074, 1024, 1 if thorough else 7):
        for mant in (0, 1, (1 << 52) - 1, rnd.getrandbits(52)):
            x = math.ldexp(1 + mant / (1 << 52), e) if e > -1023 else math.ldexp(max(mant, 1), -1074)
            vals.append(("D", gen_doc.f64_bits(x)))
    for e10 in range(-310, 310):
        vals.append(("D", gen_doc.f64_bits(float("1e%d" % e10))))
        vals.append(("D", gen_doc.f64_bits(float("9.999999999999e%d" % e10))))
    for p in (31, 32, 53, 63, 64):
        for d in (-1, 0, 1):
            vals.append(("D", gen_doc.f64_bits(float(2 ** p + d))))
    n32 = 400000 if thorough else 30000
    vals += [("F", rnd.getrandbits(32)) for _ in range(n32)]
    vals += [("F", b) for b in gen_doc.F32_SPECIAL] + [("D", b) for b in gen_doc.F64_SPECIAL]
    vals = [v for v in vals if not (isinstance(gen_doc.num_value(v), float))]      # finite only
    lines = ["S 0 " + gen_doc.dump(v) for v in vals]
    mism, mo, io = vlib.correspond(run, model, impl_d, lines, cfg, "writeFloat")
    all_mism += [(cfg, m) for m in mism]
    for v, l, o in zip(vals, lines, io):
        if o == "<crash>":
            continue
        text = bytes.fromhex(o.split(" ")[0]).decode()
        x = gen_doc.num_value(v)
        ax = abs(x)
        if ax != 0 and not (Fraction(10) ** -300 <= ax <= Fraction(10) ** 300):
            continue
        try:
            lit = gen_json.lit_fraction(text)
        except Exception:
            oracle_fail.append((cfg, l, "a decimal literal", text))
            continue
        tol = Fraction(1, 10 ** 6) if v[0] == "F" else Fraction(1, 10 ** 9)
        if abs(lit - x) > tol * max(1, ax):
            # known finding: a double that is exactly representable as a float is stored as a float
            # (VariantData::setFloat) and then printed with the 6 decimals of a float
            narrow_exact = v[0] == "D" and gen_doc.bits_f32(gen_doc.f32_bits(float(x))) == float(x) if abs(float(x)) < 3.5e38 else False
            if narrow_exact and abs(lit - x) <= Fraction(1, 10 ** 6) * max(1, ax) and "double-stored-as-float" in known:
                run.known("double-stored-as-float", known["double-stored-as-float"]["text"])
            else:
                oracle_fail.append((cfg, l, f"|printed - x| <= {float(tol)}*max(1,|x|); x = {float(x)!r}", text))
    run.cov["rule"] = ("decimal literals of the number grammar (sign, up to 40 leading zeros, 1-25 integer digits, fractions, exponents -400..400) aimed at the uint64 "
                       "overflow guards, mantissa_max, the float/double decision, FLT_MAX/DBL_MAX, denormals, the 63-character limit; numeric strings of up to 70000 "
                       "characters through as<double>(); printing of doubles over every%s binary exponent and %d random floats; oracle: exact rational arithmetic "
                       "(Python Fraction) against C12's tolerances; parseNumber/writeFloat bit-exact against the SpecFloat model; distinct = distinct case line"
                       % ("" if thorough else " 7th", n32))
    run.sample(dict(case="N " + hx(b"10e38"), meaning="N <hex literal> -> parseNumber result (u/i integer, F/D bit pattern)"))
    jsonchecks.finish_standard(run, "C12", ok, info, oracle_fail, all_mism)

def is_json_number(lit):
    import re
    return re.fullmatch(r"-?(0|[1-9][0-9]*)(\.[0-9]+)?([eE][-+]?[0-9]+)?", lit) is not None

def check_magnitude(lit, d):
    """C12 for arbitrary-length strings: finite and within 1e-6 in range, +-inf above, +-0 below, never a wrong magnitude"""
    return gen_json.check_number(lit, d) if not all(c in "-0123456789" for c in lit) or not (-2 ** 63 <= int(lit) < 2 ** 64) else \
        (None if abs(Fraction(gen_json.float_from_dump(d)) - int(lit)) <= abs(int(lit)) * Fraction(1, 10 ** 6) else f"{lit[:30]} as double -> {d}")

def replay(rp):
    return vlib.replay_lines(rp, rp.get("harness_src", "text_h"))
