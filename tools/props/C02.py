"""C02 — serializeJson emits exactly the document, on every kind of destination."""
import random
import vlib, gen_doc, doccheck
from gen_doc import hx, dump, parse_dump

def check(run):
    rnd = random.Random(run.seed * 104729 + 2)
    thorough = run.tier == "thorough"
    ok, info = vlib.proof_stage(run, "C02")
    model = vlib.need_model()
    cfg = "10001"
    impl = vlib.need_harness("doc_h", cfg)
    n = 40000 if thorough else 4000
    docs = doccheck.gen_docs(rnd, n, raw=True)
    # deep nesting for the pretty printer's 8-bit nesting counter
    for depth in (1, 2, 10, 255, 256, 257, 300):
        v = ("i", 1)
        for _ in range(depth):
            v = [v]
        docs.append(v)
    dumps = [dump(d) for d in docs]
    oracle_fail, all_mism = [], []
    outs = {}
    for fmt in (0, 1):
        lines = [f"S {fmt} {d}" for d in dumps]
        mism, mo, io = vlib.correspond(run, model, impl, lines, cfg, f"serializeJson fmt={fmt}")
        all_mism += mism
        outs[fmt] = io
        for d, l, o in zip(dumps, lines, io):
            if o == "<crash>":
                continue
            parts = o.split(" ")
            if len(parts) > 4:
                oracle_fail.append((l, "all destinations agree; same bytes whichever integer type stores a value", o))
                continue
            text = bytes.fromhex(parts[0]) if parts[0] != "-" else b""
            if not (int(parts[1]) == int(parts[2]) == len(text)):
                oracle_fail.append((l, f"count == measure == length ({len(text)})", o))
                continue
            doc = parse_dump(parts[3])         # the document as the library holds it
            if doccheck.has_raw(doc):
                continue                        # raw values are verbatim: checked through the model only
            if len(text) > 3000 and text.count(b"[") > 250:
                continue                        # beyond Python's recursion limit
            try:
                pv = doccheck.py_json(text)
            except Exception as e:
                oracle_fail.append((l, "independent parser accepts the text: %s" % e, o))
                continue
            m = doccheck.json_value_matches(doc, pv)
            if m:
                oracle_fail.append((l, m, o))
    # pretty and compact differ only in insignificant whitespace
    for d, a, b in zip(dumps, outs[0], outs[1]):
        if "<crash>" in (a, b):
            continue
        ta = bytes.fromhex(a.split(" ")[0]); tb = bytes.fromhex(b.split(" ")[0])
        if gen_doc.strip_json_ws(tb) != gen_doc.strip_json_ws(ta):
            oracle_fail.append((f"S 1 {d}", "pretty == compact modulo whitespace", b[:200]))
    # bounded buffers: every capacity 0..len+2
    blines, expect = [], []
    sample_docs = list(zip(dumps, outs[0], outs[1]))
    rnd.shuffle(sample_docs)
    for d, a, b in sample_docs[: (1500 if thorough else 150)]:
        for fmt, o in ((0, a), (1, b)):
            if o == "<crash>":
                continue
            text = bytes.fromhex(o.split(" ")[0])
            if len(text) > 120:
                continue
            for cap in range(0, len(text) + 3):
                blines.append(f"B {fmt} {cap} {d}")
                st = text[:cap]
                expect.append(f"{hx(st)} {len(st)} {'nul' if len(text) < cap else 'nonul'}")
    mism, mo, io = vlib.correspond(run, model, impl, blines, cfg, "bounded buffer")
    all_mism += mism
    for l, e, o in zip(blines, expect, io):
        if o != e and o != "<crash>":
            oracle_fail.append((l, e, o))
    run.cov["rule"] = ("random documents (all scalar kinds at boundary values, strings with all byte values, raw values, empty and "
                       "nested containers, nesting up to 300) serialized compact and pretty to std::string, ostream, custom writer, "
                       "Print, Arduino String (must agree), measured, and into buffers of every capacity 0..len+2 with guard bytes; "
                       "model vs library byte-exact; Python json as independent parser; distinct = distinct case line")
    run.sample(dict(case=f"S 0 {dumps[0]}", meaning="S <0 compact|1 pretty> <document dump> -> hex text, count, measure, re-dump"))
    run.sample(dict(case=blines[5] if len(blines) > 5 else "", meaning="B <fmt> <capacity> <dump> -> stored bytes, count, NUL flag"))
    run.assumptions += ["control characters other than the named escapes are emitted raw (C17), so the independent parser runs with strict=False",
                        "Print and Arduino String are the mocks of extras/tests/Helpers"]
    for l, e, o in oracle_fail[:5]:
        run.violation(f"C02 oracle: {l[:120]}: expected {str(e)[:200]}; library: {o[:160]}",
                      dict(kind="input", cfg=cfg, harness_src="doc_h", lines=[l], expected=str(e), observed=o))
    if not oracle_fail:
        for k, l, a, b in all_mism[:5]:
            run.violation(f"model/implementation disagree on {l[:100]}: model {a[:120]} impl {b[:120]}",
                          dict(kind="input", cfg=cfg, harness_src="doc_h", lines=[l], model=a, observed=b, failing_input=False))
    if not ok:
        for p in info["problems"]:
            if not oracle_fail:
                run.violation(p, dict(kind="obligation", theorem="Properties_C02: " + p[:200], failing_input=False))

def replay(rp):
    return vlib.replay_lines(rp, "doc_h")
