"""C07 — round trips and format conversions preserve the document."""
import math, random
from fractions import Fraction
import vlib, gen_doc, gen_json, doccheck, jsonchecks
from gen_doc import hx, dump, parse_dump

def equiv_json(a, b, path="$"):
    """document a vs the result b of serializeJson+deserializeJson: structure, order, strings, integers exact;
    floats within C12 (print tolerance then parse tolerance)"""
    if a is None or a is True or a is False:
        return None if b is a else f"{path}: {b!r} for {a!r}"
    if isinstance(a, list):
        if not isinstance(b, list) or len(a) != len(b):
            return f"{path}: array shape"
        for i, (x, y) in enumerate(zip(a, b)):
            m = equiv_json(x, y, f"{path}[{i}]")
            if m:
                return m
        return None
    if a[0] == "o":
        if not (isinstance(b, tuple) and b[0] == "o") or [k for k, _ in a[1]] != [k for k, _ in b[1]]:
            return f"{path}: object keys/order"
        for (k, x), (_, y) in zip(a[1], b[1]):
            m = equiv_json(x, y, path + "." + k.decode("latin1"))
            if m:
                return m
        return None
    if a[0] in "sr":
        return None if a == b else f"{path}: {b!r} for {a!r}"
    if a[0] == "i":
        return None if b == a else f"{path}: integer {a[1]} came back as {b!r}"
    x = gen_doc.num_value(a)
    if isinstance(x, float):          # NaN / inf are written as null
        return None if b is None else f"{path}: non-finite came back as {b!r}"
    if not (isinstance(b, tuple) and b[0] in "iFD"):
        return f"{path}: float came back as {b!r}"
    y = gen_doc.num_value(b)
    ax = abs(x)
    if ax != 0 and not (Fraction(10) ** -300 <= ax <= Fraction(10) ** 300):
        return None          # outside the range C12 speaks about
    if isinstance(y, float):
        return f"{path}: {float(x)!r} came back non-finite"
    ptol = (Fraction(1, 10 ** 6) if a[0] == "F" else Fraction(1, 10 ** 9)) * max(1, ax)
    if a[0] == "D" and abs(float(x)) < 3.4e38 and gen_doc.bits_f32(gen_doc.f32_bits(float(x))) == float(x):
        ptol = Fraction(1, 10 ** 6) * max(1, ax)      # known finding C12/double-stored-as-float
    tol = ptol + Fraction(1, 10 ** 6) * (ax + ptol)
    if abs(y - x) > tol:
        return f"{path}: {float(x)!r} came back as {float(y)!r}"
    return None

def check(run):
    rnd = random.Random(run.seed * 314606869 + 7)
    thorough = run.tier == "thorough"
    ok, info = vlib.proof_stage(run, "C07")
    model = vlib.need_model()
    cfg = "10001"
    implD = vlib.need_harness("doc_h", cfg)
    implT = vlib.need_harness("text_h", cfg)
    oracle_fail, all_mism = [], []
    n = 20000 if thorough else 2500
    docs = doccheck.gen_docs(rnd, n, raw=False, nan=True)
    # documents nested as deep as the deserializer's default limit and beyond (the limit used for reading back is 50)
    for depth in (9, 10, 11, 12, 20, 49):
        for kind in range(3):
            v = ("i", 42)
            for lvl in range(depth):
                arr = kind == 0 or (kind == 2 and lvl % 2 == 0)
                v = [v, None] if arr else ("o", [(b"k", v), (b"z", ("s", b"x"))])
            docs.append(v)
    dumps = [dump(d) for d in docs]
    # --- JSON round trip
    l1 = [f"S 0 {d}" for d in dumps]
    mism, _, o1 = vlib.correspond(run, model, implD, l1, cfg, "serializeJson")
    all_mism += [(cfg, m) for m in mism]
    texts = [bytes.fromhex(o.split(" ")[0]) if o != "<crash>" else b"null" for o in o1]
    held = [parse_dump(o.split(" ")[3]) if o != "<crash>" else None for o in o1]
    l2 = ["J 50 - " + hx(t) for t in texts]
    mism, _, o2 = vlib.correspond(run, model, implT, l2, cfg, "deserializeJson of the output")
    all_mism += [(cfg, m) for m in mism]
    for d, l, o, h in zip(dumps, l2, o2, held):
        if o == "<crash>":
            continue
        p = o.split(" ")
        if p[0] != "Ok":
            oracle_fail.append((cfg, l[:300], "Ok", o[:200])); continue
        m = equiv_json(h, parse_dump(p[3]))
        if m:
            oracle_fail.append((cfg, f"S 0 {d}"[:300], "JSON round trip: " + m, p[3][:200]))
    # the same round trip through a caller buffer of exactly measureJson() / measureMsgPack() bytes, and one byte more
    # (the results must be those of the std::string round trips above: o2 for JSON; compared structurally)
    sub = list(range(0, len(dumps), max(1, len(dumps) // (3000 if thorough else 600))))
    for fmt in (0, 2):
        lb = [f"RTB {fmt} {dumps[i]}" for i in sub]
        ob, crashb = vlib.run_sharded(implD, lb, None, 900, ["CFG " + cfg])
        if crashb:
            k = ob.index("<crash>") if "<crash>" in ob else 0
            run.violation("C07: library crashed in the exact-fit buffer round trip: " + crashb[:200], dict(kind="input", cfg=cfg, harness_src="doc_h", lines=[lb[k][:5000]], observed=crashb[-2500:]))
        for i, l, o in zip(sub, lb, ob):
            run.count((cfg, "exact-fit", fmt, i))
            if o == "<crash>" or o2[i] == "<crash>":
                continue
            parts = o.strip().split(" ")
            ref = o2[i].split(" ")       # code reads fault dump of the std::string round trip
            for k_ in (0, 3):
                code, cnt, dmp = parts[k_], parts[k_ + 1], parts[k_ + 2]
                w, n_ = cnt.split("/")
                if code != "Ok" or w != n_:
                    oracle_fail.append((cfg, l[:300], f"exact-fit buffer ({'+1' if k_ else 'exact'}): Ok, count = measure", " ".join(parts[k_:k_ + 3])[:200])); break
                if fmt == 0 and ref[0] == "Ok" and dmp != ref[3]:
                    oracle_fail.append((cfg, l[:300], "same document as through std::string: " + ref[3][:150], dmp[:200])); break
    # --- MessagePack round trip, fixpoint
    l3 = [f"S 2 {d}" for d in dumps]
    mism, _, o3 = vlib.correspond(run, model, implD, l3, cfg, "serializeMsgPack")
    all_mism += [(cfg, m) for m in mism]
    packs = [bytes.fromhex(o.split(" ")[0]) if o != "<crash>" else b"\xc0" for o in o3]
    l4 = ["MR " + hx(b) for b in packs]
    mism, _, o4 = vlib.correspond(run, model, implD, l4, cfg, "MessagePack round trip + re-serialization")
    all_mism += [(cfg, m) for m in mism]
    l5 = ["M 50 - " + hx(b) for b in packs]
    mism, _, o5 = vlib.correspond(run, model, implD, l5, cfg, "deserializeMsgPack of the output")
    all_mism += [(cfg, m) for m in mism]
    for d, b, a4, a5, h in zip(dumps, packs, o4, o5, held):
        if "<crash>" in (a4, a5):
            continue
        if a4 != "Ok " + hx(b):
            oracle_fail.append((cfg, "MR " + hx(b)[:300], "byte-identical MessagePack after a round trip", a4[:200]))
        p = a5.split(" ")
        if p[0] != "Ok":
            oracle_fail.append((cfg, "M 50 - " + hx(b)[:300], "Ok", a5[:200])); continue
        back = parse_dump(p[2])
        from props import C09
        if not C09.same_value(to_mp(h), to_mp(back)):
            oracle_fail.append((cfg, f"S 2 {d}"[:300], "MessagePack round trip equal in value", p[2][:200]))
    # --- JSON -> document -> MessagePack -> document compares equal to JSON -> document
    vtexts = [t for _, t in jsonchecks.valid_docs(rnd, 4000 if thorough else 800)]
    l6 = ["J 50 - " + hx(t) for t in vtexts]
    mism, _, o6 = vlib.correspond(run, model, implT, l6, cfg, "JSON texts")
    all_mism += [(cfg, m) for m in mism]
    ds = [o.split(" ")[3] for o in o6 if o != "<crash>" and o.startswith("Ok")]
    l7 = [f"S 2 {d}" for d in ds]
    mism, _, o7 = vlib.correspond(run, model, implD, l7, cfg, "to MessagePack")
    all_mism += [(cfg, m) for m in mism]
    l8 = ["M 50 - " + o.split(" ")[0] for o in o7 if o != "<crash>"]
    mism, _, o8 = vlib.correspond(run, model, implD, l8, cfg, "back from MessagePack")
    all_mism += [(cfg, m) for m in mism]
    from props import C09
    for d, o in zip(ds, o8):
        if o == "<crash>":
            continue
        p = o.split(" ")
        if p[0] != "Ok" or not C09.same_value(to_mp(parse_dump(d)), to_mp(parse_dump(p[2]))):
            oracle_fail.append((cfg, f"S 2 {d}"[:300], "JSON -> MessagePack -> document equals JSON -> document (numbers by value)", o[:200]))
    run.cov["rule"] = ("random documents without raw values (every scalar kind at boundary values, strings with all byte values, nesting) through serializeJson->deserializeJson "
                       "(equivalence: structure/order/strings/integers exact, floats within C12), serializeMsgPack->deserializeMsgPack->serializeMsgPack (equal in value, "
                       "byte-identical), and grammar-generated JSON texts through JSON->document->MessagePack->document; every stage model vs library; distinct = distinct case line")
    run.sample(dict(case=l1[0][:200]))
    jsonchecks.finish_standard(run, "C07", ok, info, oracle_fail, all_mism, harness="doc_h")

def to_mp(v):
    """doc vocabulary -> the decode vocabulary of gen_doc (keys as ('s', k))"""
    if isinstance(v, list):
        return [to_mp(x) for x in v]
    if isinstance(v, tuple) and v[0] == "o":
        return ("o", [(("s", k), to_mp(x)) for k, x in v[1]])
    return v

def replay(rp):
    return vlib.replay_lines(rp, rp.get("harness_src", "doc_h"))
