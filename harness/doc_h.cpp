// doc_h.cpp — correspondence harness for serializers and MessagePack. One case per stdin line.
#include <Arduino.h>
#define ARDUINOJSON_ENABLE_PROGMEM 1
#define ARDUINOJSON_ENABLE_ARDUINO_STRING 1
#define ARDUINOJSON_ENABLE_ARDUINO_STREAM 1
#define ARDUINOJSON_ENABLE_ARDUINO_PRINT 1
#include "common.hpp"

struct CustomWriter {
  std::string out;
  size_t write(uint8_t c) { out.push_back(char(c)); return 1; }
  size_t write(const uint8_t* p, size_t n) { out.append((const char*)p, n); return n; }
};
struct PrintMock : Print {
  std::string out;
  size_t write(uint8_t c) override { out.push_back(char(c)); return 1; }
  size_t write(const uint8_t* p, size_t n) override { out.append((const char*)p, n); return n; }
};

// fmt: 0 compact JSON, 1 pretty JSON, 2 MessagePack
static size_t ser_buf(int fmt, JsonVariantConst v, void* p, size_t n) {
  return fmt == 0 ? serializeJson(v, p, n) : fmt == 1 ? serializeJsonPretty(v, p, n) : serializeMsgPack(v, p, n);
}
template <class D> static size_t ser_to(int fmt, JsonVariantConst v, D& d) {
  return fmt == 0 ? serializeJson(v, d) : fmt == 1 ? serializeJsonPretty(v, d) : serializeMsgPack(v, d);
}
static size_t measure(int fmt, JsonVariantConst v) {
  return fmt == 0 ? measureJson(v) : fmt == 1 ? measureJsonPretty(v) : measureMsgPack(v);
}

static std::string handle(const std::vector<std::string>& a) {
  if (a[0] == "CFG") return a[1] == cfgString() ? "cfg" : "cfg-mismatch " + cfgString();
  // S <fmt> <dump> : serialize to every unbounded destination; all must agree; prints hex + count + measure
  if (a[0] == "S" && a.size() == 3) {
    int fmt = std::stoi(a[1]);
    JsonDocument doc;
    DumpParser p(a[2]);
    if (!p.build(doc.to<JsonVariant>())) return "bad-dump";
    JsonVariantConst v = doc.as<JsonVariantConst>();
    std::string s1; size_t n1 = ser_to(fmt, v, s1);
    std::ostringstream os; size_t n2 = ser_to(fmt, v, os);
    CustomWriter cw; size_t n3 = ser_to(fmt, v, cw);
    PrintMock pm; size_t n4 = ser_to(fmt, v, static_cast<Print&>(pm));
    size_t m = measure(fmt, v);
    std::string res = hex(s1) + " " + std::to_string(n1) + " " + std::to_string(m) + " " + dump(v);
    if (os.str() != s1 || n2 != n1) res += " OSTREAM-DIFFERS";
    if (cw.out != s1 || n3 != n1) res += " CUSTOMWRITER-DIFFERS";
    if (pm.out != s1 || n4 != n1) res += " PRINT-DIFFERS";
    if (fmt != 2 && s1.find('\0') == std::string::npos) {   // Arduino String cannot hold NUL
      ::String as; as.limitCapacityTo(size_t(1) << 30); size_t n5 = ser_to(fmt, v, as);
      if (std::string(as.c_str(), as.length()) != s1 || n5 != n1) res += " ARDUINOSTRING-DIFFERS";
    }
    return res;
  }
  // B <fmt> <cap> <dump> : serialize into a caller buffer of `cap` bytes with guard bytes around
  if (a[0] == "B" && a.size() == 4) {
    int fmt = std::stoi(a[1]);
    size_t cap = std::stoul(a[2]);
    JsonDocument doc;
    DumpParser p(a[3]);
    if (!p.build(doc.to<JsonVariant>())) return "bad-dump";
    const size_t G = 16;
    std::vector<unsigned char> mem(cap + 2 * G + 1, 0xA5);
    unsigned char* buf = mem.data() + G;
    size_t n = ser_buf(fmt, doc.as<JsonVariantConst>(), buf, cap);
    bool guards = true;
    for (size_t i = 0; i < G; i++) if (mem[i] != 0xA5 || mem[G + cap + i] != 0xA5) guards = false;
    size_t stored = n < cap ? n : cap;
    bool nul = (n < cap) && buf[n] == 0;
    // bytes after the stored ones (and the optional NUL) inside the buffer must be untouched
    bool tail = true;
    for (size_t i = stored + ((fmt != 2 && n < cap) ? 1 : 0); i < cap; i++) if (buf[i] != 0xA5) tail = false;
    return hex((const char*)buf, stored) + " " + std::to_string(n) + " " + (nul ? "nul" : "nonul") +
           (guards ? "" : " GUARD-OVERWRITTEN") + (tail ? "" : " TAIL-TOUCHED");
  }
  // M <L> <filterhex|-> <hex> : deserializeMsgPack from a counting reader
  if (a[0] == "M" && a.size() == 4) {
    int L = std::stoi(a[1]);
    std::string input = unhex(a[3]);
    JsonDocument doc;
    doc["stale"] = "x";
    CountingReader rd(input);
    DeserializationError err;
    if (a[2] == "-") {
      err = deserializeMsgPack(doc, rd, DeserializationOption::NestingLimit((uint8_t)L));
    } else {
      JsonDocument fdoc;
      std::string ftxt = unhex(a[2]);
      deserializeJson(fdoc, ftxt.c_str(), ftxt.size(), DeserializationOption::NestingLimit(50));
      JsonVariantConst fv = fdoc.as<JsonVariantConst>();
      err = deserializeMsgPack(doc, rd, DeserializationOption::Filter(fv),
                               DeserializationOption::NestingLimit((uint8_t)L));
    }
    // exact-size heap copy through the pointer+size API as a second opinion (ASan redzones)
    JsonDocument doc2;
    char* hp = new char[input.size() ? input.size() : 1];
    memcpy(hp, input.data(), input.size());
    DeserializationError err2 = a[2] == "-"
        ? deserializeMsgPack(doc2, (const char*)hp, input.size(), DeserializationOption::NestingLimit((uint8_t)L))
        : DeserializationError(err);
    delete[] hp;
    std::string r = std::string(codeName(err)) + " " + std::to_string(rd.reads) + " " + dump(doc.as<JsonVariantConst>());
    if (a[2] == "-" && (err2 != err || dump(doc2.as<JsonVariantConst>()) != dump(doc.as<JsonVariantConst>())))
      r += " PTRSIZE-DIFFERS";
    return r;
  }
  // MR <hex> : deserializeMsgPack then serializeMsgPack and serializeJson of the result
  if (a[0] == "MR" && a.size() == 2) {
    std::string input = unhex(a[1]);
    JsonDocument doc;
    DeserializationError err = deserializeMsgPack(doc, input.data(), input.size(), DeserializationOption::NestingLimit(50));
    std::string out;
    serializeMsgPack(doc, out);
    return std::string(codeName(err)) + " " + hex(out);
  }
  return "?";
}

int main() {
  std::ios::sync_with_stdio(false);
  std::string line;
  while (std::getline(std::cin, line)) {
    if (line.empty()) continue;
    std::cout << handle(split(line)) << "\n" << std::flush;
  }
  return 0;
}
