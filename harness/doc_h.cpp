// doc_h.cpp — correspondence harness for serializers and MessagePack. One case per stdin line.
#include <Arduino.h>
#define ARDUINOJSON_ENABLE_PROGMEM 1
#define ARDUINOJSON_ENABLE_ARDUINO_STRING 1
#define ARDUINOJSON_ENABLE_ARDUINO_STREAM 1
#define ARDUINOJSON_ENABLE_ARDUINO_PRINT 1
#include "common.hpp"
#include <functional>
#include "typed_obs.hpp"

struct CustomWriter {
  std::string out;
  size_t write(uint8_t c) { out.push_back(char(c)); return 1; }
  size_t write(const uint8_t* p, size_t n) { out.append((const char*)p, n); return n; }
};
struct PrintMock : Print {
  std::string out;
  size_t write(uint8_t c) override { out.push_back(char(c)); return 1; }
  size_t write(const uint8_t* p, size_t n) override { out.append((const char*)p, n); return n; }
};

// an output stream that cannot seek or tell (a socket, a pipe, a serial port): only overflow/xsputn
struct SinkBuf : std::streambuf {
  std::string out;
  int_type overflow(int_type c) override { if (c != traits_type::eof()) out.push_back(char(c)); return c; }
  std::streamsize xsputn(const char* p, std::streamsize n) override { out.append(p, size_t(n)); return n; }
};

// an Arduino Stream over a byte string (all bytes are "already received": read() never has to wait)
struct ArduinoStreamMock : Stream {
  std::string s; size_t p = 0; bool ended = false, fault = false;
  int read() override { if (ended) fault = true; if (p < s.size()) return (unsigned char)s[p++]; ended = true; return -1; }
  size_t readBytes(char* b, size_t len) override { size_t i = 0; while (i < len && p < s.size()) b[i++] = s[p++]; return i; }
};

// fmt: 0 compact JSON, 1 pretty JSON, 2 MessagePack
static size_t ser_buf(int fmt, JsonVariantConst v, void* p, size_t n) {
  return fmt == 0 ? serializeJson(v, p, n) : fmt == 1 ? serializeJsonPretty(v, p, n) : serializeMsgPack(v, p, n);
}
template <class D> static size_t ser_to(int fmt, JsonVariantConst v, D& d) {
  return fmt == 0 ? serializeJson(v, d) : fmt == 1 ? serializeJsonPretty(v, d) : serializeMsgPack(v, d);
}
// the same through the overloads that take the source as a document / a typed reference
template <class S, class D> static size_t ser_src(int fmt, const S& src, D& d) {
  return fmt == 0 ? serializeJson(src, d) : fmt == 1 ? serializeJsonPretty(src, d) : serializeMsgPack(src, d);
}
static size_t measure(int fmt, JsonVariantConst v) {
  return fmt == 0 ? measureJson(v) : fmt == 1 ? measureJsonPretty(v) : measureMsgPack(v);
}

static std::string handle(const std::vector<std::string>& a) {
  if (a[0] == "CFG") return a[1] == cfgString() ? "cfg" : "cfg-mismatch " + cfgString();
  // S <fmt> <dump> : serialize to every unbounded destination; all must agree; prints hex + count + measure
  if (a[0] == "S" && a.size() == 3) {
    int fmt = std::stoi(a[1]);
    JsonDocument doc;
    DumpParser p(a[2]);
    if (fmt != 2) p.nanVariant = int(a[2].size() % 4);     // JSON text does not carry a NaN's sign or payload (MessagePack does: canonical there)
    if (!p.build(doc.to<JsonVariant>())) return "bad-dump";
    JsonVariantConst v = doc.as<JsonVariantConst>();
    std::string s1; size_t n1 = ser_to(fmt, v, s1);
    std::ostringstream os; size_t n2 = ser_to(fmt, v, os);
    CustomWriter cw; size_t n3 = ser_to(fmt, v, cw);
    PrintMock pm; size_t n4 = ser_to(fmt, v, static_cast<Print&>(pm));
    size_t m = measure(fmt, v);
    std::string res = hex(s1) + " " + std::to_string(n1) + " " + std::to_string(m) + " " + dump(v);
    if (os.str() != s1 || n2 != n1) res += " OSTREAM-DIFFERS";
    { SinkBuf sb; std::ostream ns(&sb); size_t n9 = ser_to(fmt, v, ns);
      if (sb.out != s1 || n9 != n1) res += " NONSEEKABLE-OSTREAM-DIFFERS";
      if (fmt == 0) { SinkBuf sb2; std::ostream ns2(&sb2); ns2 << v; if (sb2.out != s1) res += " OSTREAM-INSERTER-DIFFERS"; } }
    if (cw.out != s1 || n3 != n1) res += " CUSTOMWRITER-DIFFERS";
    if (pm.out != s1 || n4 != n1) res += " PRINT-DIFFERS";
    {
      // the same value serialized through the other entry points (document, typed array / object reference)
      std::string s7; ser_src(fmt, doc, s7);
      if (s7 != s1) res += " DOCUMENT-ENTRY-DIFFERS";
      if (v.is<JsonArrayConst>()) { std::string s8; ser_src(fmt, v.as<JsonArrayConst>(), s8); if (s8 != s1) res += " ARRAYREF-ENTRY-DIFFERS"; }
      if (v.is<JsonObjectConst>()) { std::string s8; ser_src(fmt, v.as<JsonObjectConst>(), s8); if (s8 != s1) res += " OBJECTREF-ENTRY-DIFFERS"; }
    }
    if (a[2].find('i') != std::string::npos) {
      // the same document with its non-negative integers stored through signed types: same bytes
      JsonDocument doc2;
      DumpParser p2(a[2]);
      p2.signedInts = true;
      std::string s6;
      if (p2.build(doc2.to<JsonVariant>())) { ser_to(fmt, doc2.as<JsonVariantConst>(), s6); if (s6 != s1) res += " SIGNED-STORAGE-DIFFERS"; }
    }
    if (fmt != 2 && s1.find('\0') == std::string::npos) {   // Arduino String cannot hold NUL
      ::String as; as.limitCapacityTo(size_t(1) << 30); size_t n5 = ser_to(fmt, v, as);
      if (std::string(as.c_str(), as.length()) != s1 || n5 != n1) res += " ARDUINOSTRING-DIFFERS";
    }
    return res;
  }
  // CPB <b> <hex JSON text> : copy a value inside one document when exactly b more slots can be had (every allocator call fails
  // from then on): prints the copy's result, what the destination holds, and how many slots are still free afterwards
  if (a[0] == "CPB" && a.size() == 3) {
    size_t b = std::stoul(a[1]);
    std::string text = unhex(a[2]);
    SpyAllocator spy;
    std::string out;
    {
      JsonDocument doc(&spy);
      if (deserializeJson(doc["src"], text.data(), text.size(), DeserializationOption::NestingLimit(50))) return "bad-src";
      doc["dst"] = nullptr;
      JsonArray fill = doc["fill"].to<JsonArray>();
      // slots in use: 2 per member of the root (src, dst, fill) + those of the source value (1 per element, 2 per member);
      // nothing was released so far, so the free slots are what is left of the pools (POOL_CAPACITY slots each)
      std::function<size_t(JsonVariantConst)> slotsOf = [&](JsonVariantConst v) -> size_t {
        size_t n = 0;
        if (v.is<JsonArrayConst>()) for (JsonVariantConst e : v.as<JsonArrayConst>()) n += 1 + slotsOf(e);
        else if (v.is<JsonObjectConst>()) for (JsonPairConst kv : v.as<JsonObjectConst>()) n += 2 + slotsOf(kv.value());
        else if (const detail::VariantData* d = detail::VariantAttorney::getData(v)) {
          using detail::VariantType;       // a double or a 64-bit integer keeps its bytes in an extension slot
#if ARDUINOJSON_USE_DOUBLE
          if (d->type() == VariantType::Double) n += 1;
#endif
#if ARDUINOJSON_USE_LONG_LONG
          if (d->type() == VariantType::Int64 || d->type() == VariantType::Uint64) n += 1;
#endif
        }
        return n;
      };
      size_t used = 6 + slotsOf(doc["src"]);
      size_t C = ARDUINOJSON_POOL_CAPACITY;
      size_t F = (used + C - 1) / C * C - used;
      if (b > F) return "budget-too-large " + std::to_string(F);
      for (size_t i = 0; i < F - b; i++) if (!fill.add(0)) return "setup-failed";
      if (doc.overflowed()) return "setup-overflowed";
      spy.fail_from = (long)spy.calls;                    // from here on no further pool (and no string) can be allocated
      bool ok = doc["dst"].set(doc["src"]);
      out = std::string(ok ? "true " : "false ") + dump(doc["dst"]);
      size_t R = 0;
      while (fill.add(0)) R++;
      out += " " + std::to_string(R);
      if (!ok && !doc.overflowed()) out += " NOT-FLAGGED";
    }
    if (!spy.live.empty() || spy.misuse) out += " LEAK-OR-MISUSE";
    return out;
  }
  // DSB <J|M> <j> <hex input> : deserialize into a fresh document whose allocator grants j pool blocks and refuses the later ones
  // (strings and the pool table are granted): the slot budget is j * POOL_CAPACITY; prints code and document
  if (a[0] == "DSB" && a.size() == 4) {
    std::string input = unhex(a[3]);
    SpyAllocator spy;
    spy.sizeFail = detail::ResourceManager::slotSize * size_t(ARDUINOJSON_POOL_CAPACITY);
    spy.sizeFailAfter = std::stol(a[2]);
    std::string out;
    {
      JsonDocument doc(&spy);
      auto NL = DeserializationOption::NestingLimit(50);
      DeserializationError err = a[1] == "J" ? deserializeJson(doc, input.data(), input.size(), NL) : deserializeMsgPack(doc, input.data(), input.size(), NL);
      out = std::string(codeName(err)) + " " + dump(doc.as<JsonVariantConst>());
      if (err == DeserializationError::NoMemory && !doc.overflowed()) out += " NOT-FLAGGED";
      if (err == DeserializationError::Ok && doc.overflowed()) out += " FLAGGED-THOUGH-OK";
      std::string js; serializeJson(doc, js);                       // the partial document is a well-formed value
      doc.clear();
      spy.sizeFail = 0;
      doc["reuse"] = 1;
      if (doc["reuse"] != 1 || doc.overflowed()) out += " NOT-REUSABLE";
    }
    if (!spy.live.empty() || spy.misuse) out += " LEAK-OR-MISUSE";
    return out + " cap=" + std::to_string(ARDUINOJSON_POOL_CAPACITY);
  }
  // BIG <shape> <n> : a collection with n children built in linear time (maps through deserializeMsgPack, which does
  // not search for duplicate keys), serialized in both formats; prints for each: first 8 bytes, length, FNV-1a 64
  if (a[0] == "BIG" && a.size() == 3) {
    size_t n = std::stoul(a[2]);
    JsonDocument doc;
    if (a[1] == "arr-nil") { JsonArray ar = doc.to<JsonArray>(); for (size_t i = 0; i < n; i++) ar.add(nullptr); }
    else if (a[1] == "arr-int") { JsonArray ar = doc.to<JsonArray>(); for (size_t i = 0; i < n; i++) ar.add(int(i % 7)); }
    else if (a[1] == "map-int") {
      std::string in;
      if (n < 16) in += char(0x80 | n);
      else if (n < 65536) { in += char(0xDE); in += char(n >> 8); in += char(n & 255); }
      else { in += char(0xDF); in += char(n >> 24); in += char((n >> 16) & 255); in += char((n >> 8) & 255); in += char(n & 255); }
      for (size_t i = 0; i < n; i++) {
        std::string k = "k" + std::to_string(i);
        in += char(0xA0 | k.size()); in += k; in += char(i % 7);
      }
      auto err = deserializeMsgPack(doc, in.data(), in.size());
      if (err) return std::string("build-failed ") + err.c_str();
    } else return "bad-shape";
    if (doc.overflowed()) return "overflowed";
    JsonVariantConst v = doc.as<JsonVariantConst>();
    std::string res;
    for (int fmt : {2, 0}) {
      std::string s1; size_t n1 = ser_to(fmt, v, s1);
      size_t m = measure(fmt, v);
      unsigned long long h = 14695981039346656037ull;
      for (unsigned char c : s1) { h ^= c; h *= 1099511628211ull; }
      res += hex(s1.substr(0, 8)) + " " + std::to_string(s1.size()) + " " + std::to_string(h) + " ";
      if (n1 != s1.size() || m != n1) res += "COUNT-DIFFERS ";
    }
    res += "size=" + std::to_string(v.size());
    return res;
  }
  // B <fmt> <cap> <dump> : serialize into a caller buffer of `cap` bytes with guard bytes around
  if (a[0] == "B" && a.size() == 4) {
    int fmt = std::stoi(a[1]);
    size_t cap = std::stoul(a[2]);
    JsonDocument doc;
    DumpParser p(a[3]);
    if (!p.build(doc.to<JsonVariant>())) return "bad-dump";
    const size_t G = 16;
    std::vector<unsigned char> mem(cap + 2 * G + 1, 0xA5);
    unsigned char* buf = mem.data() + G;
    size_t n = ser_buf(fmt, doc.as<JsonVariantConst>(), buf, cap);
    bool guards = true;
    for (size_t i = 0; i < G; i++) if (mem[i] != 0xA5 || mem[G + cap + i] != 0xA5) guards = false;
    size_t stored = n < cap ? n : cap;
    bool nul = (n < cap) && buf[n] == 0;
    // bytes after the stored ones (and the optional NUL) inside the buffer must be untouched
    bool tail = true;
    for (size_t i = stored + ((fmt != 2 && n < cap) ? 1 : 0); i < cap; i++) if (buf[i] != 0xA5) tail = false;
    return hex((const char*)buf, stored) + " " + std::to_string(n) + " " + (nul ? "nul" : "nonul") +
           (guards ? "" : " GUARD-OVERWRITTEN") + (tail ? "" : " TAIL-TOUCHED");
  }
  // M <L> <filterhex|-> <hex> : deserializeMsgPack from a counting reader
  if (a[0] == "M" && a.size() == 4) {
    int L = std::stoi(a[1]);
    std::string input = unhex(a[3]);
    JsonDocument doc;
    doc["stale"] = "x";
    CountingReader rd(input, false);
    DeserializationError err;
    if (a[2] == "-") {
      err = deserializeMsgPack(doc, rd, DeserializationOption::NestingLimit((uint8_t)L));
    } else {
      JsonDocument fdoc;
      std::string ftxt = unhex(a[2]);
      deserializeJson(fdoc, ftxt.c_str(), ftxt.size(), DeserializationOption::NestingLimit(50));
      JsonVariantConst fv = fdoc.as<JsonVariantConst>();
      // the two options in either order (chosen from the input's length): the order means nothing
      err = (input.size() & 1) ? deserializeMsgPack(doc, rd, DeserializationOption::NestingLimit((uint8_t)L), DeserializationOption::Filter(fv))
                               : deserializeMsgPack(doc, rd, DeserializationOption::Filter(fv), DeserializationOption::NestingLimit((uint8_t)L));
    }
    // exact-size heap copy through the pointer+size API as a second opinion (ASan redzones)
    JsonDocument doc2;
    char* hp = new char[input.size() ? input.size() : 1];
    memcpy(hp, input.data(), input.size());
    DeserializationError err2 = a[2] == "-"
        ? deserializeMsgPack(doc2, (const char*)hp, input.size(), DeserializationOption::NestingLimit((uint8_t)L))
        : DeserializationError(err);
    delete[] hp;
    std::string r = std::string(codeName(err)) + " " + std::to_string(rd.reads) + " " + dumpTyped(doc);
    if (a[2] == "-" && (err2 != err || dump(doc2.as<JsonVariantConst>()) != dump(doc.as<JsonVariantConst>())))
      r += " PTRSIZE-DIFFERS";
    return r;
  }
  // JK / MK <L> <filterhex|-> <hex> : the same bytes through every input kind; prints kind=code:dump ...
  if ((a[0] == "JK" || a[0] == "MK") && a.size() == 4) {
    bool json = a[0] == "JK";
    int L = std::stoi(a[1]);
    std::string input = unhex(a[3]);
    JsonDocument fdoc;
    bool filtered = a[2] != "-";
    if (filtered) {
      std::string ftxt = unhex(a[2]);
      deserializeJson(fdoc, ftxt.c_str(), ftxt.size(), DeserializationOption::NestingLimit(50));
    }
    JsonVariantConst fv = fdoc.as<JsonVariantConst>();
    auto NL = DeserializationOption::NestingLimit((uint8_t)L);
    auto FL = DeserializationOption::Filter(fv);
    std::string res;
    auto report = [&](const char* kind, DeserializationError err, JsonDocument& doc) {
      // the result must be a well-formed value: traverse, serialize, clear and reuse it
      std::string d1 = dump(doc.as<JsonVariantConst>());
      std::string js; serializeJson(doc, js);
      size_t m = measureJson(doc);
      if (m != js.size()) d1 += "!MEASURE";
      doc.clear();
      doc["reuse"] = 1;
      if (doc["reuse"].as<int>() != 1) d1 += "!REUSE";
      res += std::string(kind) + "=" + codeName(err) + ":" + d1 + " ";
    };
    int runNo = 0;
#define RUN(kind, ...)                                                                    \
    {                                                                                     \
      JsonDocument doc;                                                                   \
      doc["stale"] = "x";                                                                 \
      bool nlFirst = (runNo++ & 1) != 0;      /* the two options in either order */          \
      DeserializationError err = json ? (filtered ? (nlFirst ? deserializeJson(doc, __VA_ARGS__, NL, FL) : deserializeJson(doc, __VA_ARGS__, FL, NL)) : deserializeJson(doc, __VA_ARGS__, NL)) \
                                      : (filtered ? (nlFirst ? deserializeMsgPack(doc, __VA_ARGS__, NL, FL) : deserializeMsgPack(doc, __VA_ARGS__, FL, NL)) : deserializeMsgPack(doc, __VA_ARGS__, NL)); \
      report(kind, err, doc);                                                             \
    }
    size_t n = input.size();
    // exactly sized heap blocks so that ASan sees any access outside the input
    char* exact = new char[n ? n : 1];
    memcpy(exact, input.data(), n);
    RUN("ptrsize", (const char*)exact, n)
    {
      // the destination is a MEMBER of a document that holds other values, and an ELEMENT of a document that suffered an
      // allocation failure earlier (overflowed() still set) but has memory again: same code, same value, rest untouched
      JsonDocument host;
      host["before"] = "kept"; host["m"]["old"] = 1; host["after"][0] = 2;
      DeserializationError e1 = json ? (filtered ? deserializeJson(host["m"], (const char*)exact, n, NL, FL) : deserializeJson(host["m"], (const char*)exact, n, NL))
                                     : (filtered ? deserializeMsgPack(host["m"], (const char*)exact, n, NL, FL) : deserializeMsgPack(host["m"], (const char*)exact, n, NL));
      // (reported from the value in place: copying it would merge repeated keys)
      auto reportValue = [&](const char* kind, DeserializationError err, JsonVariantConst v) {
        std::string d1 = dump(v);
        std::string js; serializeJson(v, js);
        if (measureJson(v) != js.size()) d1 += "!MEASURE";
        res += std::string(kind) + "=" + codeName(err) + ":" + d1 + " ";
      };
      bool kept = host["before"] == "kept" && host["after"][0] == 2 && host.size() == 3;
      reportValue(kept ? "member" : "member!SIBLINGS-CHANGED", e1, host["m"]);
      SpyAllocator spy; spy.fail_from = 0;
      JsonDocument host2(&spy);
      host2.add(std::string("this allocation fails"));
      bool flagged = host2.overflowed();
      spy.fail_from = -1;
      host2.add(1);
      JsonVariant el = host2.add<JsonVariant>();
      DeserializationError e2 = json ? (filtered ? deserializeJson(el, (const char*)exact, n, FL, NL) : deserializeJson(el, (const char*)exact, n, NL))
                                     : (filtered ? deserializeMsgPack(el, (const char*)exact, n, FL, NL) : deserializeMsgPack(el, (const char*)exact, n, NL));
      reportValue(flagged ? "elementAfterOverflow" : "elementAfterOverflow!NOT-FLAGGED", e2, el);
    }
    if (filtered) {
      // the filter given as a (non-const) JsonDocument that was built through the API, has spare capacity and lives on
      // an allocator that MOVES blocks when they shrink: with ARDUINOJSON_AUTO_SHRINK the Filter constructor shrinks it
      SpyAllocator moving;
      {
        JsonDocument fdoc2(&moving);
        fdoc2.set(fv);
        fdoc2["\x01spare"][0] = 1; fdoc2["\x01spare"][1] = 2;
        fdoc2.remove("\x01spare");
        if (!fv.is<JsonObjectConst>()) fdoc2.set(fv);
        JsonDocument doc;
        doc["stale"] = "x";
        DeserializationError err = json ? deserializeJson(doc, (const char*)exact, n, DeserializationOption::Filter(fdoc2), NL)
                                        : deserializeMsgPack(doc, (const char*)exact, n, DeserializationOption::Filter(fdoc2), NL);
        report("filterDocument", err, doc);
      }
      if (moving.misuse || !moving.live.empty()) res += "filterDocument=ALLOCATOR-MISUSE ";
    }
    RUN("ucharptrsize", (const unsigned char*)exact, n)
    RUN("string", input)
    { std::string_view sv(exact, n); RUN("string_view", sv) }
    { std::istringstream is(input); RUN("istream", is) }
    { ChunkedBuf cb(input, 1); std::istream is(&cb); RUN("istreamBlocks1", is) }
    { ChunkedBuf cb(input, 3); std::istream is(&cb); RUN("istreamBlocks3", is) }
    { CountingReader rd(input, json); RUN("custom", rd); if (rd.fault) res += "custom=FAULT "; }
    { ::String as; as.limitCapacityTo(size_t(1) << 30);
      if (input.find('\0') == std::string::npos) { as = input.c_str(); RUN("arduinoString", as) } }
    { ArduinoStreamMock sm; sm.s = input; RUN("arduinoStream", sm) }
    { // sized flash pointer (mock: address shifted by 42)
      const __FlashStringHelper* fp = reinterpret_cast<const __FlashStringHelper*>(convertPtrToFlash(exact));
      RUN("flashsize", fp, n) }
    if (!json && res.rfind("ptrsize=Ok:", 0) == 0) {
      // pointers without a size: legal for a complete message only (the reader has no end to respect) — it must read exactly the message
      RUN("unboundedPtr", (const char*)exact)
      { const __FlashStringHelper* fp = reinterpret_cast<const __FlashStringHelper*>(convertPtrToFlash(exact)); RUN("unboundedFlash", fp) }
    }
    if (json) {
      // zero-terminated kinds see the bytes up to the first NUL; block = content + terminator exactly
      size_t z = input.find('\0');
      size_t len = z == std::string::npos ? n : z;
      char* zt = new char[len + 1];
      memcpy(zt, input.data(), len);
      zt[len] = 0;
      RUN("cstr", (const char*)zt)
      RUN("mutcstr", (char*)zt)
      { const __FlashStringHelper* fz = reinterpret_cast<const __FlashStringHelper*>(convertPtrToFlash(zt)); RUN("flash", fz) }
      { JsonDocument holder; holder.set(std::string(zt, len)); JsonVariantConst hv = holder.as<JsonVariantConst>();
        if (hv.as<JsonString>().size() == len && !holder.overflowed()) RUN("variant", hv) }   // (a text longer than the string-length limit cannot be held by a variant)
      delete[] zt;
    }
    delete[] exact;
#undef RUN
    return res;
  }
  // JS / MS <hex> : successive calls on one stream; prints code@position:dump for each call, both for an
  // std::istream (tellg) and for a counting custom reader (must agree)
  if ((a[0] == "JS" || a[0] == "MS") && a.size() == 2) {
    bool json = a[0] == "JS";
    std::string input = unhex(a[1]);
    std::string res;
    std::istringstream is(input);
    CountingReader rd(input, json);
    ChunkedBuf cb(input, 2 + input.size() % 3);
    std::istream cis(&cb);
    ArduinoStreamMock sm; sm.s = input;
    for (int k = 0; k < 40; k++) {
      JsonDocument d1, d2, d3, d4;
      DeserializationError e3 = json ? deserializeJson(d3, cis) : deserializeMsgPack(d3, cis);
      DeserializationError e4 = json ? deserializeJson(d4, sm) : deserializeMsgPack(d4, sm);
      DeserializationError e1 = json ? deserializeJson(d1, is) : deserializeMsgPack(d1, is);
      DeserializationError e2 = json ? deserializeJson(d2, rd) : deserializeMsgPack(d2, rd);
      long pos1 = is.eof() ? (long)input.size() : (long)is.tellg();
      if (is.eof()) is.clear(is.rdstate() & ~std::ios::failbit & ~std::ios::eofbit), is.seekg(0, std::ios::end);
      res += std::string(codeName(e2)) + "@" + std::to_string(rd.pos) + ":" + dump(d2.as<JsonVariantConst>()) + " ";
      if (e1 != e2 || dump(d1.as<JsonVariantConst>()) != dump(d2.as<JsonVariantConst>()) || pos1 != (long)rd.pos)
        res += "ISTREAM-DIFFERS(" + std::string(codeName(e1)) + "@" + std::to_string(pos1) + ") ";
      if (e3 != e2 || dump(d3.as<JsonVariantConst>()) != dump(d2.as<JsonVariantConst>()) || (!e2 && cb.consumed() != rd.pos))
        res += "BLOCK-ISTREAM-DIFFERS(" + std::string(codeName(e3)) + "@" + std::to_string(cb.consumed()) + ") ";
      if (e4 != e2 || dump(d4.as<JsonVariantConst>()) != dump(d2.as<JsonVariantConst>()) || (!e2 && sm.p != rd.pos))
        res += "ARDUINO-STREAM-DIFFERS(" + std::string(codeName(e4)) + "@" + std::to_string(sm.p) + ") ";
      if (e2) break;
    }
    return res;
  }
  // JA / MA <L> <filterhex|-> <hex> : deserialize on an instrumented allocator; prints code, document,
  // bytes requested, peak live bytes, number of allocator calls, live blocks after destruction
  if ((a[0] == "JA" || a[0] == "MA") && a.size() == 4) {
    bool json = a[0] == "JA";
    int L = std::stoi(a[1]);
    std::string input = unhex(a[3]);
    JsonDocument fdoc;
    bool filtered = a[2] != "-";
    if (filtered) {
      std::string ftxt = unhex(a[2]);
      deserializeJson(fdoc, ftxt.c_str(), ftxt.size(), DeserializationOption::NestingLimit(50));
    }
    JsonVariantConst fv = fdoc.as<JsonVariantConst>();
    auto NL = DeserializationOption::NestingLimit((uint8_t)L);
    auto FL = DeserializationOption::Filter(fv);
    SpyAllocator spy;
    std::string r;
    {
      JsonDocument doc(&spy);
      bool nlFirst = (input.size() & 1) != 0;    // the two options in either order
      DeserializationError err = json ? (filtered ? (nlFirst ? deserializeJson(doc, input.data(), input.size(), NL, FL) : deserializeJson(doc, input.data(), input.size(), FL, NL)) : deserializeJson(doc, input.data(), input.size(), NL))
                                      : (filtered ? (nlFirst ? deserializeMsgPack(doc, input.data(), input.size(), NL, FL) : deserializeMsgPack(doc, input.data(), input.size(), FL, NL)) : deserializeMsgPack(doc, input.data(), input.size(), NL));
      r = std::string(codeName(err)) + " " + dump(doc.as<JsonVariantConst>()) + " req=" + std::to_string(spy.requested) +
          " peak=" + std::to_string(spy.peak) + " calls=" + std::to_string(spy.calls);
    }
    r += " leaked=" + std::to_string(spy.live.size()) + (spy.misuse ? " MISUSE" : "");
    return r;
  }
  // JF / MF <L> <filterhex|-> <failspec> <hex> : deserialize while the allocator fails (k = only call k, k+ = from call k on);
  // prints code, document, overflowed; then the document is traversed and serialized, cleared (every block must come
  // back), reused with a working allocator, destroyed (nothing may leak, no block released twice)
  if ((a[0] == "JF" || a[0] == "MF") && a.size() == 5) {
    bool json = a[0] == "JF";
    int L = std::stoi(a[1]);
    std::string input = unhex(a[4]);
    JsonDocument fdoc;
    bool filtered = a[2] != "-";
    if (filtered) {
      std::string ftxt = unhex(a[2]);
      deserializeJson(fdoc, ftxt.c_str(), ftxt.size(), DeserializationOption::NestingLimit(50));
    }
    JsonVariantConst fv = fdoc.as<JsonVariantConst>();
    auto NL = DeserializationOption::NestingLimit((uint8_t)L);
    auto FL = DeserializationOption::Filter(fv);
    SpyAllocator spy;
    const std::string& fs = a[3];
    if (fs != "-") {
      if (fs.back() == '+') spy.fail_from = std::stol(fs.substr(0, fs.size() - 1));
      else { size_t k = std::stoul(fs); spy.fail.assign(k + 1, false); spy.fail[k] = true; }
    }
    std::string r;
    {
      JsonDocument doc(&spy);
      doc["old"] = std::string("content that must disappear");     // dirty destination
      bool nlFirst = (input.size() & 1) != 0;    // the two options in either order
      DeserializationError err = json ? (filtered ? (nlFirst ? deserializeJson(doc, input.data(), input.size(), NL, FL) : deserializeJson(doc, input.data(), input.size(), FL, NL)) : deserializeJson(doc, input.data(), input.size(), NL))
                                      : (filtered ? (nlFirst ? deserializeMsgPack(doc, input.data(), input.size(), NL, FL) : deserializeMsgPack(doc, input.data(), input.size(), FL, NL)) : deserializeMsgPack(doc, input.data(), input.size(), NL));
      size_t callsAfter = spy.calls;
      r = std::string(codeName(err)) + " " + dump(doc.as<JsonVariantConst>()) + " ov=" + (doc.overflowed() ? "1" : "0") + " calls=" + std::to_string(callsAfter);
      // the document is a well-formed tree: traverse, measure, serialize in both formats
      std::string js, mp;
      size_t n1 = serializeJson(doc, js), n2 = serializeMsgPack(doc, mp);
      if (n1 != measureJson(doc) || n2 != measureMsgPack(doc)) r += " MEASURE-DIFFERS";
      (void)doc.nesting(); (void)doc.size();
      if (spy.calls != callsAfter) r += " READONLY-ALLOCATES";
      doc.clear();
      r += " afterclear=" + std::to_string(spy.live.size());
      spy.fail.clear(); spy.fail_from = -1;
      doc["k"] = std::string("v");
      if (doc["k"] != "v" || doc.overflowed()) r += " NOT-REUSABLE";
    }
    r += " leaked=" + std::to_string(spy.live.size()) + (spy.misuse ? " MISUSE" : "");
    return r;
  }
  // RX <hex> : a raw value holding these bytes (serialized(...)), read through the typed MessagePack accessors
  if (a[0] == "RX" && a.size() == 2) {
    std::string raw = unhex(a[1]);
    JsonDocument doc;
    {
      // exactly sized source block so that ASan sees any read past the raw bytes
      char* exact = new char[raw.size() ? raw.size() : 1];
      memcpy(exact, raw.data(), raw.size());
      doc.set(serialized(std::string(exact, raw.size())));
      delete[] exact;
    }
    MsgPackBinary b = doc.as<MsgPackBinary>();
    MsgPackExtension e = doc.as<MsgPackExtension>();
    std::string r = "bin=" + (b.data() ? "s" + hex((const char*)b.data(), b.size()) : std::string("-"));
    r += " ext=" + (e.data() ? std::to_string((unsigned)(unsigned char)e.type()) + ":s" + hex((const char*)e.data(), e.size()) : std::string("-"));
    if (doc.is<MsgPackBinary>() != (b.data() != nullptr) || doc.is<MsgPackExtension>() != (e.data() != nullptr)) r += " IS-DIFFERS";
    return r;
  }
  // TB <hexpayload> / TX <type> <hexpayload> : bin / ext value built through the typed API; prints the stored value,
  // its MessagePack serialization and the payload read back
  if ((a[0] == "TB" && a.size() == 2) || (a[0] == "TX" && a.size() == 3)) {
    bool ext = a[0] == "TX";
    std::string pl = unhex(a.back());
    JsonDocument doc;
    char* exact = new char[pl.size() ? pl.size() : 1];
    memcpy(exact, pl.data(), pl.size());
    bool ok = ext ? doc.set(MsgPackExtension((int8_t)std::stoi(a[1]), exact, pl.size())) : doc.set(MsgPackBinary(exact, pl.size()));
    delete[] exact;
    (void)ok;
    std::string out; size_t n = serializeMsgPack(doc, out);
    std::string r = dump(doc.as<JsonVariantConst>()) + " " + hex(out) + " " + std::to_string(n) + " " + std::to_string(measureMsgPack(doc));
    if (ext) { MsgPackExtension e = doc.as<MsgPackExtension>();
               r += " back=" + (e.data() ? std::to_string((unsigned)(unsigned char)e.type()) + ":s" + hex((const char*)e.data(), e.size()) : std::string("-")); }
    else { MsgPackBinary b = doc.as<MsgPackBinary>(); r += " back=" + (b.data() ? "s" + hex((const char*)b.data(), b.size()) : std::string("-")); }
    return r;
  }
  // STK <J|M> <L> <filterhex|-> <hex> : stack bytes consumed by one deserializer call (custom reader probing the
  // stack pointer at every read), with the result code
  if (a[0] == "STK" && a.size() == 5) {
    bool json = a[1] == "J";
    int L = std::stoi(a[2]);
    std::string input = unhex(a[4]);
    JsonDocument fdoc;
    bool filtered = a[3] != "-";
    if (filtered) { std::string ftxt = unhex(a[3]); deserializeJson(fdoc, ftxt.c_str(), ftxt.size(), DeserializationOption::NestingLimit(50)); }
    JsonVariantConst fv = fdoc.as<JsonVariantConst>();
    auto NL = DeserializationOption::NestingLimit((uint8_t)L);
    auto FL = DeserializationOption::Filter(fv);
    JsonDocument doc;
    StackProbeReader rd(input);
    volatile char base = 0;
    uintptr_t top = reinterpret_cast<uintptr_t>(&base);
    bool nlFirst = (input.size() & 1) != 0;    // the two options in either order
    DeserializationError err = json ? (filtered ? (nlFirst ? deserializeJson(doc, rd, NL, FL) : deserializeJson(doc, rd, FL, NL)) : deserializeJson(doc, rd, NL))
                                    : (filtered ? (nlFirst ? deserializeMsgPack(doc, rd, NL, FL) : deserializeMsgPack(doc, rd, FL, NL)) : deserializeMsgPack(doc, rd, NL));
    size_t used = rd.lowest == ~uintptr_t(0) ? 0 : (top > rd.lowest ? size_t(top - rd.lowest) : 0);
    return std::string(codeName(err)) + " stack=" + std::to_string(used) + " nesting=" + std::to_string(doc.nesting());
  }
  // RTB <fmt 0|2> <dump> : the common idiom  n = measure(doc); buf = malloc(n); serialize(doc, buf, n); deserialize(doc2, buf, n)
  // with an exactly sized heap block (and once more with n+1 bytes)
  if (a[0] == "RTB" && a.size() == 3) {
    int fmt = std::stoi(a[1]);
    JsonDocument doc;
    DumpParser p(a[2]);
    if (!p.build(doc.to<JsonVariant>())) return "bad-dump";
    size_t n = measure(fmt, doc.as<JsonVariantConst>());
    std::string r;
    for (size_t extra = 0; extra < 2; extra++) {
      char* buf = new char[n + extra ? n + extra : 1];
      size_t w = ser_buf(fmt, doc.as<JsonVariantConst>(), buf, n + extra);
      JsonDocument back;
      auto deep = DeserializationOption::NestingLimit(60);   // the documents of this case may be nested deeper than the default limit
      DeserializationError e = fmt == 2 ? deserializeMsgPack(back, (const char*)buf, n, deep) : deserializeJson(back, (const char*)buf, n, deep);
      r += std::string(codeName(e)) + " " + std::to_string(w) + "/" + std::to_string(n) + " " + dump(back.as<JsonVariantConst>()) + " ";
      delete[] buf;
    }
    return r;
  }
  // MR <hex> : deserializeMsgPack then serializeMsgPack and serializeJson of the result
  if (a[0] == "MR" && a.size() == 2) {
    std::string input = unhex(a[1]);
    JsonDocument doc;
    DeserializationError err = deserializeMsgPack(doc, input.data(), input.size(), DeserializationOption::NestingLimit(50));
    std::string out;
    serializeMsgPack(doc, out);
    return std::string(codeName(err)) + " " + hex(out);
  }
  return "?";
}

int main() {
  std::ios::sync_with_stdio(false);
  std::string line;
  while (std::getline(std::cin, line)) {
    watchdog(900);   // a corrupted structure may make the library loop: report instead of hanging the check
    if (line.empty()) continue;
    std::cout << handle(split(line)) << "\n" << std::flush;
  }
  return 0;
}
