// conc_h.cpp — C20: the same per-thread histories run sequentially and then concurrently (one thread per history,
// own documents, shared default allocator, one document shared read-only), under ThreadSanitizer.
#define HIST_NO_MAIN
#include "hist_h.cpp"
#include <thread>
#include <atomic>

int main() {
  std::ios::sync_with_stdio(false);
  std::string line;
  while (std::getline(std::cin, line)) {
    watchdog(600);   // a corrupted structure may make the library loop: report instead of hanging the check
    if (line.empty()) continue;
    std::vector<std::string> a0 = split(line);
    if (a0[0] == "CFG") { std::cout << "cfg\n" << std::flush; continue; }
    if (a0[0] != "CRUN") { std::cout << "?\n" << std::flush; continue; }
    // CRUN <rounds> <ndocs> <hist> ### <hist> ### ...
    int rounds = std::stoi(a0[1]);
    size_t nd = std::stoul(a0[2]);
    size_t p = line.find(' ');
    for (int k = 0; k < 2; k++) p = line.find(' ', p + 1);
    std::string rest = line.substr(p + 1);
    std::vector<std::string> hists;
    size_t pos = 0;
    while (pos < rest.size()) {
      size_t e = rest.find(" ### ", pos);
      hists.push_back(rest.substr(pos, e == std::string::npos ? std::string::npos : e - pos));
      pos = e == std::string::npos ? rest.size() : e + 5;
    }
    JsonDocument sharedDoc;
    deserializeJson(sharedDoc, "{\"filter\":{\"a\":[{\"b\":true}],\"c\":true},\"data\":[1,2.5,\"shared string\",{\"k\":[null,true]}],\"n\":18446744073709551615}");
    const JsonDocument& shared = sharedDoc;
    std::vector<std::string> seq(hists.size());
    for (size_t i = 0; i < hists.size(); i++) seq[i] = runHistory(nd, (int)(i % 7), "-", hists[i], true, &shared, 0);
    int diffs = 0;
    std::string firstDiff;
    for (int r = 0; r < rounds; r++) {
      std::vector<std::string> got(hists.size());
      std::vector<std::thread> ths;
      for (size_t i = 0; i < hists.size(); i++)
        ths.emplace_back([&, i] { got[i] = runHistory(nd, (int)(i % 7), "-", hists[i], true, &shared, (unsigned)(r * 131 + i + 1)); });
      for (auto& t : ths) t.join();
      for (size_t i = 0; i < hists.size(); i++)
        if (got[i] != seq[i]) { diffs++; if (firstDiff.empty()) firstDiff = "round " + std::to_string(r) + " thread " + std::to_string(i); }
    }
    std::cout << (diffs ? "DIFF " + std::to_string(diffs) + " " + firstDiff : "SAME threads=" + std::to_string(hists.size()) + " rounds=" + std::to_string(rounds)) << "\n" << std::flush;
  }
  return 0;
}
