// text_h.cpp — correspondence harness for the text layer: deserializeJson, parseNumber,
// Utf8::encodeCodepoint, TextFormatter::writeString.  One case per stdin line.
#include "common.hpp"
#include "typed_obs.hpp"

struct VecBuilder {
  std::string out;
  void append(char c) { out.push_back(c); }
};
struct StrWriter {
  std::string* out;
  size_t write(uint8_t c) { out->push_back(char(c)); return 1; }
  size_t write(const uint8_t* p, size_t n) { out->append((const char*)p, n); return n; }
};

static std::string dumpNumber(const detail::Number& n) {
  using detail::NumberType;
  switch (n.type()) {
    case NumberType::Invalid: return "invalid";
    case NumberType::Float: return dumpF32(n.asFloat());
    case NumberType::SignedInteger: return "i" + std::to_string((long long)n.asSignedInteger());
    case NumberType::UnsignedInteger: return "u" + std::to_string((unsigned long long)n.asUnsignedInteger());
#if ARDUINOJSON_USE_DOUBLE
    case NumberType::Double: return dumpF64(n.asDouble());
#endif
  }
  return "?";
}

static std::string handle(const std::vector<std::string>& a) {
  if (a[0] == "CFG") return a[1] == cfgString() ? "cfg" : "cfg-mismatch " + cfgString();
  if (a[0] == "J" && a.size() == 4) {
    int L = std::stoi(a[1]);
    std::string input = unhex(a[3]);
    JsonDocument doc;
    doc["stale"] = "x";   // a dirty destination: deserialization must replace it entirely
    CountingReader rd(input);
    DeserializationError err;
    if (a[2] == "-") {
      err = deserializeJson(doc, rd, DeserializationOption::NestingLimit((uint8_t)L));
    } else {
      JsonDocument fdoc;
      std::string ftxt = unhex(a[2]);
      deserializeJson(fdoc, ftxt.c_str(), ftxt.size(), DeserializationOption::NestingLimit(50));
      JsonVariantConst fv = fdoc.as<JsonVariantConst>();
      // the two options in either order (chosen from the input's length): the order means nothing
      err = (input.size() & 1) ? deserializeJson(doc, rd, DeserializationOption::NestingLimit((uint8_t)L), DeserializationOption::Filter(fv))
                               : deserializeJson(doc, rd, DeserializationOption::Filter(fv), DeserializationOption::NestingLimit((uint8_t)L));
    }
    std::string out = std::string(codeName(err)) + " " + std::to_string(rd.reads) + " " +
                      (rd.fault ? "FAULT" : "ok") + " " + dumpTyped(doc);
    if (a[2] == "-") {
      // the same input into a nested value of a long-lived document that once ran out of memory (overflowed() still set)
      // and has memory again: same verdict, same value
      SpyAllocator spy; spy.fail_from = 0;
      JsonDocument host(&spy);
      host.add(std::string("this allocation fails"));
      spy.fail_from = -1;
      host.add(1);
      JsonVariant el = host.add<JsonVariant>();
      DeserializationError e2 = deserializeJson(el, input.data(), input.size(), DeserializationOption::NestingLimit((uint8_t)L));
      if (e2 != err || dump(el) != dump(doc.as<JsonVariantConst>())) out += std::string("!NESTED-DESTINATION-DIFFERS(") + codeName(e2) + ")";
    }
    return out;
  }
  if (a[0] == "N" && a.size() == 2) {
    std::string s = unhex(a[1]);
    // exact-size heap copy so that ASan sees any read past the terminator
    char* p = new char[s.size() + 1];
    memcpy(p, s.data(), s.size());
    p[s.size()] = 0;
    std::string r = dumpNumber(detail::parseNumber(p));
    delete[] p;
    return r;
  }
  if (a[0] == "U8" && a.size() == 2) {
    VecBuilder b;
    detail::Utf8::encodeCodepoint((uint32_t)std::stoul(a[1]), b);
    return hex(b.out);
  }
  if (a[0] == "WS" && a.size() == 2) {
    std::string s = unhex(a[1]), out;
    detail::TextFormatter<StrWriter> tf(StrWriter{&out});
    tf.writeString(s.data(), s.size());
    return hex(out);
  }
  return "?";
}

int main() {
  std::ios::sync_with_stdio(false);
  std::string line;
  while (std::getline(std::cin, line)) {
    watchdog(300);   // a corrupted structure may make the library loop: report instead of hanging the check
    if (line.empty()) continue;
    std::cout << handle(split(line)) << "\n" << std::flush;
  }
  return 0;
}
