// pool_h.cpp — drives the slot allocator (ResourceManager::allocVariant/freeVariant/shrinkToFit/clear)
// directly, with per-call allocator failures, and prints the slot ids it hands out.
#include "common.hpp"

static std::string handle(const std::vector<std::string>& a) {
  if (a[0] == "CFG") return "cfg";
  if (a[0] == "GEOM") {
    return std::to_string(8 * ARDUINOJSON_SLOT_ID_SIZE) + " " + std::to_string(ARDUINOJSON_POOL_CAPACITY) + " " +
           std::to_string(ARDUINOJSON_INITIAL_POOL_COUNT);
  }
  // PRUN <ops...> : a<mask> alloc (mask bit k set => the k-th allocator call of this op fails), f<k> free k-th live,
  // s shrinkToFit, c clear
  if (a[0] == "PRUN") {
    SpyAllocator spy;
    std::string out;
    {
      detail::ResourceManager rm(&spy);
      std::vector<detail::Slot<detail::VariantData>> live;
      for (size_t i = 1; i < a.size(); i++) {
        const std::string& op = a[i];
        if (op[0] == 'a') {
          int mask = std::stoi(op.substr(1));
          spy.fail.assign(spy.calls + 2, false);
          spy.fail[spy.calls] = mask & 1;
          spy.fail[spy.calls + 1] = mask & 2;
          auto slot = rm.allocVariant();
          spy.fail.clear();
          if (slot) { live.push_back(slot); out += std::to_string(slot.id()) + " "; }
          else out += "x ";
        } else if (op[0] == 'f') {
          if (live.empty()) { out += "- "; continue; }
          size_t k = std::stoul(op.substr(1)) % live.size();
          out += std::to_string(live[k].id()) + " ";
          rm.freeVariant(live[k]);
          live.erase(live.begin() + k);
        } else if (op[0] == 's') {
          // slots of the last pool may move: refresh the pointers through their ids
          rm.shrinkToFit();
          for (auto& s : live) s = detail::Slot<detail::VariantData>(rm.getVariant(s.id()), s.id());
          out += "- ";
        } else if (op[0] == 'c') {
          rm.clear(); live.clear(); out += "- ";
        }
      }
      out += std::string("ov=") + (rm.overflowed() ? "1" : "0");
    }
    out += " leaked=" + std::to_string(spy.live.size()) + (spy.misuse ? " MISUSE" : "");
    return out;
  }
  return "?";
}

int main() {
  std::ios::sync_with_stdio(false);
  std::string line;
  while (std::getline(std::cin, line)) {
    if (line.empty()) continue;
    std::cout << handle(split(line)) << "\n" << std::flush;
  }
  return 0;
}
