// pool_h.cpp — drives the slot allocator (ResourceManager::allocVariant/freeVariant/shrinkToFit/clear)
// directly, with per-call allocator failures, and prints the slot ids it hands out.
#include "common.hpp"

static std::string handle(const std::vector<std::string>& a) {
  if (a[0] == "CFG") return "cfg";
  if (a[0] == "GEOM") {
    return std::to_string(8 * ARDUINOJSON_SLOT_ID_SIZE) + " " + std::to_string(ARDUINOJSON_POOL_CAPACITY) + " " +
           std::to_string(ARDUINOJSON_INITIAL_POOL_COUNT);
  }
  // PRUN <ops...> : a<mask> alloc (mask bit k set => the k-th allocator call of this op fails), f<k> free k-th live,
  // s shrinkToFit, c clear
  if (a[0] == "PRUN") {
    SpyAllocator spy;
    std::string out;
    {
      detail::ResourceManager rm(&spy);
      std::vector<detail::Slot<detail::VariantData>> live;
      for (size_t i = 1; i < a.size(); i++) {
        const std::string& op = a[i];
        if (op[0] == 'a') {
          int mask = std::stoi(op.substr(1));
          spy.fail.assign(spy.calls + 2, false);
          spy.fail[spy.calls] = mask & 1;
          spy.fail[spy.calls + 1] = mask & 2;
          auto slot = rm.allocVariant();
          spy.fail.clear();
          if (slot) { live.push_back(slot); out += std::to_string(slot.id()) + " "; }
          else out += "x ";
        } else if (op[0] == 'f') {
          if (live.empty()) { out += "- "; continue; }
          size_t k = std::stoul(op.substr(1)) % live.size();
          out += std::to_string(live[k].id()) + " ";
          rm.freeVariant(live[k]);
          live.erase(live.begin() + k);
        } else if (op[0] == 's') {
          // slots of the last pool may move: refresh the pointers through their ids
          rm.shrinkToFit();
          for (auto& s : live) s = detail::Slot<detail::VariantData>(rm.getVariant(s.id()), s.id());
          out += "- ";
        } else if (op[0] == 'c') {
          rm.clear(); live.clear(); out += "- ";
        }
      }
      out += std::string("ov=") + (rm.overflowed() ? "1" : "0");
    }
    out += " leaked=" + std::to_string(spy.live.size()) + (spy.misuse ? " MISUSE" : "");
    return out;
  }
  // ARUN <ops...> : one array or one object (root of a JsonDocument) seen as its chain of slot ids.
  //   a<mask> array.add();  g<k>:<mask> array[k] (getOrAddElement);  r<k> array.remove(k);
  //   o<mask> object[fresh key];  p<k> object.remove(k-th key);  c clear();  s shrinkToFit()
  //   mask bit j set => the j-th allocator call made by this op fails.
  // after every op: <slot id | x>/<allocator calls>/<chain of slot ids>
  // SBG : geometry of string nodes: offsetof(StringNode, data) and StringNode::maxLength
  if (a[0] == "SBG") return std::to_string(detail::sizeofString(0) - 1) + " " + std::to_string(detail::StringNode::maxLength);
  // SB <hdr> <maxlen> <answers 0/1... or -> <op>... : one StringBuilder reused for every string (as a deserializer does), on an
  // instrumented allocator whose k-th allocate/reallocate fails when answers[k] == '0'; op = s<hex> store | d<hex> dereference
  if (a[0] == "SB" && a.size() >= 4) {
    SpyAllocator spy;
    if (a[3] != "-") { spy.fail.assign(a[3].size(), false); for (size_t i = 0; i < a[3].size(); i++) spy.fail[i] = a[3][i] == '0'; }
    std::string out;
    {
      detail::ResourceManager rm(&spy);
      {
        detail::StringBuilder sb(&rm);
        for (size_t i = 4; i < a.size(); i++) {
          const std::string& op = a[i];
          if (op.empty()) continue;
          std::string body = unhex(op.substr(1));
          size_t logStart = spy.log.size();
          std::string res;
          if (op[0] == 's') {
            sb.startString();
            for (char ch : body) sb.append(ch);
            if (!sb.isValid()) res = "NoMemory";
            else {
              detail::StringNode* node = sb.save();
              res = std::to_string((size_t)node->length) + ":" + std::to_string((size_t)node->references) + ":" + hex(node->data, node->length);
              if (node->data[node->length] != 0) res += "!UNTERMINATED";
            }
          } else {
            detail::StringNode* node = rm.getString(detail::adaptString(body.data(), body.size()));
            if (node) rm.dereferenceString(node->data);
            res = "-";
          }
          std::string evs;
          for (size_t k = logStart; k < spy.log.size(); k++) {
            const SpyAllocator::Call& cl = spy.log[k];
            if (!evs.empty()) evs += ",";
            if (cl.kind == 'a') evs += "a" + std::to_string(cl.a) + (cl.ok ? "+" : "-");
            else if (cl.kind == 'r') evs += "r" + std::to_string(cl.a) + ">" + std::to_string(cl.b) + (cl.ok ? "+" : "-");
            else evs += "f" + std::to_string(cl.a);
          }
          out += res + "/" + evs + " ";
        }
        size_t pooled = 0;
        // (the pool has no public size in nodes: count through its byte size is not exact; count by lookups is not possible: use the ledger)
        pooled = spy.live.size();
        out += "live=" + std::to_string(pooled) + (sb.isValid() ? " scratch=yes" : " scratch=-");
      }
      rm.clear();
    }
    out += " leaked=" + std::to_string(spy.live.size()) + (spy.misuse ? " MISUSE" : "");
    return out;
  }
  // SBF ... : the same through StringBuffer (reserve(n), fill, save()), the MessagePack reader's path
  if (a[0] == "SBF" && a.size() >= 4) {
    SpyAllocator spy;
    if (a[3] != "-") { spy.fail.assign(a[3].size(), false); for (size_t i = 0; i < a[3].size(); i++) spy.fail[i] = a[3][i] == '0'; }
    std::string out;
    {
      detail::ResourceManager rm(&spy);
      {
        detail::StringBuffer sb(&rm);
        for (size_t i = 4; i < a.size(); i++) {
          const std::string& op = a[i];
          if (op.empty()) continue;
          std::string body = unhex(op.substr(1));
          size_t logStart = spy.log.size();
          std::string res;
          if (op[0] == 's') {
            char* p = sb.reserve(body.size());
            if (!p) res = "NoMemory";
            else {
              memcpy(p, body.data(), body.size());
              detail::StringNode* node = sb.save();
              res = std::to_string((size_t)node->length) + ":" + std::to_string((size_t)node->references) + ":" + hex(node->data, node->length);
              if (node->data[node->length] != 0) res += "!UNTERMINATED";
            }
          } else {
            detail::StringNode* node = rm.getString(detail::adaptString(body.data(), body.size()));
            if (node) rm.dereferenceString(node->data);
            res = "-";
          }
          std::string evs;
          for (size_t k = logStart; k < spy.log.size(); k++) {
            const SpyAllocator::Call& cl = spy.log[k];
            if (!evs.empty()) evs += ",";
            if (cl.kind == 'a') evs += "a" + std::to_string(cl.a) + (cl.ok ? "+" : "-");
            else if (cl.kind == 'r') evs += "r" + std::to_string(cl.a) + ">" + std::to_string(cl.b) + (cl.ok ? "+" : "-");
            else evs += "f" + std::to_string(cl.a);
          }
          out += res + "/" + evs + " ";
        }
        out += "live=" + std::to_string(spy.live.size());
      }
      rm.clear();
    }
    out += " leaked=" + std::to_string(spy.live.size()) + (spy.misuse ? " MISUSE" : "");
    return out;
  }
  if (a[0] == "ARUN") {
    SpyAllocator spy;
    std::string out;
    {
      JsonDocument doc(&spy);
      bool isObj = false;
      for (size_t i = 1; i < a.size(); i++) if (a[i][0] == 'o' || a[i][0] == 'p') isObj = true;
      if (isObj) doc.to<JsonObject>(); else doc.to<JsonArray>();
      auto* rm = detail::VariantAttorney::getResourceManager(doc);
      auto* root = detail::VariantAttorney::getData(doc);
      auto chain = [&]() {
        std::vector<unsigned long> ids;
        auto* c = root->asCollection();
        if (!c) return ids;
        auto id = c->head();
        while (id != detail::NULL_SLOT && ids.size() < 100000) { ids.push_back(id); id = rm->getVariant(id)->next(); }
        return ids;
      };
      int fresh = 0;
      for (size_t i = 1; i < a.size(); i++) {
        const std::string& op = a[i];
        std::string res = "x";
        size_t calls0 = spy.calls;
        bool counts = false;
        auto setmask = [&](int mask) {
          spy.fail.assign(spy.calls + 8, false);
          for (int j = 0; j < 8; j++) spy.fail[spy.calls + j] = (mask >> j) & 1;
        };
        if (op[0] == 'a') {
          setmask(std::stoi(op.substr(1))); counts = true;
          JsonVariant v = doc.add<JsonVariant>();
          spy.fail.clear();
          if (!v.isUnbound()) res = std::to_string(chain().back());
        } else if (op[0] == 'g') {
          size_t colon = op.find(':');
          size_t k = std::stoul(op.substr(1, colon - 1));
          setmask(std::stoi(op.substr(colon + 1))); counts = true;
          JsonVariant v = doc[k].to<JsonVariant>();
          spy.fail.clear();
          auto ids = chain();
          if (!v.isUnbound() && k < ids.size()) res = std::to_string(ids[k]);
        } else if (op[0] == 'r') {
          size_t k = std::stoul(op.substr(1));
          auto ids = chain();
          if (k < ids.size()) res = std::to_string(ids[k]);
          doc.remove(k);
        } else if (op[0] == 'o') {
          setmask(std::stoi(op.substr(1))); counts = true;
          std::string key = "k" + std::to_string(fresh++);
          JsonVariant v = doc[key].to<JsonVariant>();
          spy.fail.clear();
          if (!v.isUnbound()) res = std::to_string(chain().back());
        } else if (op[0] == 'p') {
          size_t k = std::stoul(op.substr(1));
          auto ids = chain();
          if (2 * k < ids.size()) {
            res = std::to_string(ids[2 * k]);
            std::string key = rm->getVariant(ids[2 * k])->asString().c_str();
            doc.remove(key);
          }
        } else if (op[0] == 's') {
          doc.shrinkToFit();
        } else if (op[0] == 'c') {
          if (isObj) doc.as<JsonObject>().clear(); else doc.as<JsonArray>().clear();
        }
        out += res + "/" + std::to_string(counts ? spy.calls - calls0 : 0) + "/";
        auto ids = chain();
        for (size_t j = 0; j < ids.size(); j++) out += (j ? "," : "") + std::to_string(ids[j]);
        out += " ";
      }
      out += std::string("ov=") + (doc.overflowed() ? "1" : "0");
    }
    out += " leaked=" + std::to_string(spy.live.size()) + (spy.misuse ? " MISUSE" : "");
    return out;
  }
  return "?";
}

int main() {
  std::ios::sync_with_stdio(false);
  std::string line;
  while (std::getline(std::cin, line)) {
    watchdog(60);   // a corrupted structure may make the library loop: report instead of hanging the check
    if (line.empty()) continue;
    std::cout << handle(split(line)) << "\n" << std::flush;
  }
  return 0;
}
