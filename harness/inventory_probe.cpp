// inventory_probe.cpp — instantiates the library broadly (default configuration, no test mocks) so that every
// object with static storage duration it defines shows up in the object file's symbol table (tools/translate.py).
#include <ArduinoJson.h>
#include <sstream>
#include <string>
using namespace ArduinoJson;

int use_all(const char* text, std::istream& is, std::ostream& os) {
  JsonDocument doc, filter, other;
  filter["a"] = true;
  int n = 0;
  n += deserializeJson(doc, text) ? 1 : 0;
  n += deserializeJson(doc, std::string(text), DeserializationOption::Filter(filter), DeserializationOption::NestingLimit(5)) ? 1 : 0;
  n += deserializeJson(doc, is) ? 1 : 0;
  n += deserializeJson(doc, text, 10) ? 1 : 0;
  n += deserializeMsgPack(doc, text, 10) ? 1 : 0;
  n += deserializeMsgPack(doc, is, DeserializationOption::Filter(filter)) ? 1 : 0;
  std::string s;
  char buf[64];
  n += (int)serializeJson(doc, s) + (int)serializeJsonPretty(doc, os) + (int)serializeMsgPack(doc, buf, sizeof buf);
  n += (int)serializeJson(doc, buf, sizeof buf) + (int)serializeJsonPretty(doc, s) + (int)serializeMsgPack(doc, s);
  n += (int)measureJson(doc) + (int)measureJsonPretty(doc) + (int)measureMsgPack(doc);
  JsonVariant v = doc["k"].to<JsonVariant>();
  v.set(1); v.set(1.5); v.set(1.5f); v.set("x"); v.set(std::string("y")); v.set(true); v.set(nullptr);
  v.set(serialized("1")); v.set((long long)1); v.set((unsigned long long)1); v.set((short)1); v.set((unsigned char)1);
  JsonArray a = doc["a"].to<JsonArray>();
  a.add(1); a.add("s"); a.add(2.5); a.add<JsonObject>()["x"] = 1; a.remove(0);
  JsonObject o = doc["o"].to<JsonObject>();
  o["k"] = a; o.remove("k"); o[std::string("z")] = v;
  other.set(doc); other = doc; swap(other, doc); other.shrinkToFit(); other.clear();
  n += v.as<int>() + (int)v.as<double>() + (int)v.as<float>() + v.as<bool>() + (int)v.as<long long>() + (int)v.as<unsigned long long>() +
       v.as<signed char>() + v.as<unsigned short>() + (v.as<const char*>() ? 1 : 0) + (int)v.as<std::string>().size() + (int)v.as<JsonString>().size();
  n += v.is<int>() + v.is<double>() + v.is<const char*>() + v.is<JsonArray>() + v.is<JsonObject>() + v.is<bool>();
  n += (v == a[0]) + (v < a[0]) + (v == 1) + (v == "x") + (v > 1.5) + (doc["a"] == doc["o"]) + (a == other["a"].as<JsonArray>()) + (o == other["o"].as<JsonObject>());
  int arr[3] = {1, 2, 3};
  copyArray(arr, a); copyArray(a, arr);
  char cs[8]; copyArray(JsonVariantConst(a[0]), cs);
  n += (int)doc.nesting() + (int)doc.size() + doc.overflowed() + (int)v.nesting() + (int)a.size() + (int)o.size();
  for (JsonPair kv : o) n += (int)kv.key().size();
  for (JsonVariant e : a) n += e.isNull();
  DeserializationError e = deserializeJson(doc, "[");
  os << e << e.c_str() << doc;
  return n;
}
int main() { std::istringstream is("{}"); std::ostringstream os; return use_all("{\"a\":[1,2.5,\"x\"]}", is, os) == 12345; }
