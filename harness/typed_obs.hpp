// typed_obs.hpp — the read-only observables of the TYPED references (JsonObject / JsonObjectConst / JsonArray / JsonArrayConst /
// JsonPair / JsonString / const JsonDocument) and of operator| and the less used is<T>/as<T> targets, cross-checked against what
// the canonical dump (made through JsonVariantConst) shows.  Returns "" or the name of the first observable that disagrees.
#pragma once
#include "common.hpp"
#include <sstream>
#include <string_view>

static inline std::string plainDump(JsonVariantConst v) { size_t n; return dumpN(v, n, false); }

static inline std::string typedObs(JsonVariant v, const JsonDocument* asDoc) {
  if (v.isUnbound()) return "";
  JsonVariantConst cv = v;
  const std::string base = plainDump(cv);
  // ---- scalars: operator| and the rarely used targets
  {
    int dflt = 7;
    if ((cv | dflt) != (cv.is<int>() ? cv.as<int>() : 7)) return "or-int";
    const char* s = cv | "dflt";
    if (cv.is<const char*>()) { if (!s || strcmp(s, cv.as<const char*>()) != 0) return "or-cstr"; }
    else if (!s || strcmp(s, "dflt") != 0) return "or-cstr-default";
    JsonDocument dd; dd.set(42);
    JsonVariantConst picked = cv | dd.as<JsonVariantConst>();
    // (v | default) keeps v when v converts to true — the library's rule: false, 0 and null give way to the default
    if (plainDump(picked) != (cv.as<bool>() ? base : std::string("i42"))) return "or-variant";
    if (cv.is<std::nullptr_t>() != cv.isNull()) return "is-nullptr";
    if (cv.as<std::nullptr_t>() != nullptr) return "as-nullptr";
    if (!v.is<JsonVariant>() || !cv.is<JsonVariantConst>() || !v.is<JsonVariantConst>()) return "is-variant";
    { JsonVariant none; JsonVariantConst nonec; if (none.is<JsonVariant>() || nonec.is<JsonVariantConst>() || !none.isNull() || none.size() || none.nesting()) return "unbound-variant"; }
    if (cv.is<bool>() != (base == "t" || base == "f")) return "is-bool";
    JsonString js = cv.as<JsonString>();
    bool isStr = base[0] == 's';
    if (js.isNull() == isStr) return "jsonstring-null";
    if (cv.is<std::string_view>() != isStr || cv.is<JsonString>() != isStr) return "is-string-view";
    if (isStr) {
      std::string bytes(js.c_str(), js.size());
      std::string_view sv = cv.as<std::string_view>();
      if (std::string(sv) != bytes) return "as-string-view";
      if (!(js == js) || js != JsonString(bytes.c_str(), bytes.size()) ) return "jsonstring-eq";
      std::ostringstream os; os << js;
      if (os.str() != bytes) return "jsonstring-ostream";
      if (cv.size() != 0 || cv.nesting() != 0) return "scalar-size";
    }
  }
  JsonObject o = v.as<JsonObject>();
  JsonArray a = v.as<JsonArray>();
  if (base[0] != '{' && (!o.isNull() || o || o.size() != 0 || o.begin() != o.end() || cv.as<JsonObjectConst>().size() != 0)) return "object-of-non-object";
  if (base[0] != '[' && (!a.isNull() || a || a.size() != 0 || a.begin() != a.end() || cv.as<JsonArrayConst>().size() != 0)) return "array-of-non-array";
  { JsonObject none; JsonArray nona; JsonObjectConst nonc; JsonArrayConst nonac;
    if (!none.isNull() || none || none.size() || none.nesting() || !nona.isNull() || nona || nona.size() || nona.nesting() ||
        !nonc.isNull() || nonc.size() || !nonac.isNull() || nonac.size()) return "default-constructed-reference"; }
  if (base[0] == '{') {
    JsonObjectConst oc = o;
    JsonObjectConst oc2 = cv.as<JsonObjectConst>();
    if (o.isNull() || !o || oc.isNull() || !oc || oc2.isNull()) return "object-null";
    if (o.size() != cv.size() || oc.size() != cv.size() || oc2.size() != cv.size()) return "object-size";
    if (o.nesting() != cv.nesting() || oc.nesting() != cv.nesting()) return "object-nesting";
    { JsonVariant b1 = o; JsonVariantConst b2 = o; JsonVariantConst b3 = oc;
      if (plainDump(b1) != base || plainDump(b2) != base || plainDump(b3) != base) return "object-to-variant"; }
    std::vector<std::pair<std::string, std::string>> mem, mem2;
    for (JsonPairConst kv : oc) mem.emplace_back(std::string(kv.key().c_str(), kv.key().size()), plainDump(kv.value()));
    for (JsonPair kv : o) mem2.emplace_back(std::string(kv.key().c_str(), kv.key().size()), plainDump(kv.value()));
    { std::vector<std::pair<std::string, std::string>> mem3, mem4;      // the iterators' operator-> and explicit ++ / != loops
      for (JsonObject::iterator it = o.begin(); it != o.end(); ++it) mem3.emplace_back(std::string(it->key().c_str(), it->key().size()), plainDump(it->value()));
      for (JsonObjectConst::iterator it = oc.begin(); it != oc.end(); ++it) mem4.emplace_back(std::string(it->key().c_str(), it->key().size()), plainDump(it->value()));
      if (mem3 != mem2 || mem4 != mem) return "object-iterator-arrow"; }
    if (mem != mem2) return "jsonpair-iteration";
    if (mem.size() != cv.size()) return "object-iteration-count";
    if (mem.size() <= 8) {
      for (size_t i = 0; i < mem.size(); i++) {
        const std::string& k = mem[i].first;
        size_t first = i;
        for (size_t j = 0; j < i; j++) if (mem[j].first == k) { first = j; break; }
        const std::string& E = mem[first].second;
        JsonDocument kd; kd.set(k);
        JsonVariantConst kvar = kd.as<JsonVariantConst>();
        JsonVariant kvarM = kd.as<JsonVariant>();
        if (!o.containsKey(k) || !oc.containsKey(k) || !v.containsKey(k) || !cv.containsKey(k)) return "containsKey";
        if (!o.containsKey(kvar) || !oc.containsKey(kvar) || !v.containsKey(kvarM) || !cv.containsKey(kvar)) return "containsKey-variant";
        if (plainDump(oc[k]) != E || plainDump(cv[k]) != E) return "const-subscript";
        // a proxy answers size() / nesting() / isNull() like the value it designates
        if (v[k].size() != cv[k].size() || v[k].nesting() != cv[k].nesting() || v[k].isNull() != cv[k].isNull() || o[k].size() != cv[k].size()) return "member-proxy-observers";
        if (plainDump(oc[kvar]) != E || plainDump(cv[kvar]) != E || plainDump(JsonVariantConst(o[kvar])) != E || plainDump(v[kvarM]) != E) return "subscript-variant-key";
        if (k.find('\0') == std::string::npos) {
          std::vector<char> buf(k.begin(), k.end()); buf.push_back(0);
          char* p = buf.data(); const char* cp = buf.data();
          if (!o.containsKey(p) || !oc.containsKey(cp) || !v.containsKey(p) || !cv.containsKey(cp)) return "containsKey-charptr";
          if (plainDump(oc[p]) != E || plainDump(cv[cp]) != E) return "const-subscript-charptr";
          if (asDoc && (!asDoc->containsKey(p) || plainDump((*asDoc)[p]) != E || plainDump((*asDoc)[cp]) != E)) return "document-charptr";
        }
        if (asDoc) {
          if (!asDoc->containsKey(k) || !asDoc->containsKey(kvar)) return "document-containsKey";
          if (plainDump((*asDoc)[k]) != E || plainDump((*asDoc)[kvar]) != E) return "document-const-subscript";
        }
      }
      std::string absent("\x01" "absent-key\x02");
      JsonDocument kd; kd.set(absent);
      if (o.containsKey(absent) || oc.containsKey(absent) || cv.containsKey(absent) || o.containsKey(kd.as<JsonVariantConst>())) return "containsKey-absent";
      if (!oc[absent].isUnbound() || !cv[kd.as<JsonVariantConst>()].isUnbound()) return "subscript-absent";
      if (asDoc && (asDoc->containsKey(absent) || !(*asDoc)[absent].isUnbound())) return "document-absent";
      // an index used on an object designates nothing
      JsonDocument id; id.set(0);
      if (!cv[id.as<JsonVariantConst>()].isUnbound() || !cv[size_t(0)].isUnbound()) return "object-indexed";
    }
    if (asDoc && (asDoc->isNull() || asDoc->size() != cv.size() || asDoc->nesting() != cv.nesting())) return "document-observers";
  }
  if (base[0] == '[') {
    JsonArrayConst ac = a;
    JsonArrayConst ac2 = cv.as<JsonArrayConst>();
    if (a.isNull() || !a || ac.isNull() || !ac || ac2.isNull()) return "array-null";
    if (a.size() != cv.size() || ac.size() != cv.size() || ac2.size() != cv.size()) return "array-size";
    if (a.nesting() != cv.nesting() || ac.nesting() != cv.nesting()) return "array-nesting";
    { JsonVariant b1 = a; JsonVariantConst b2 = a; JsonVariantConst b3 = ac;
      if (plainDump(b1) != base || plainDump(b2) != base || plainDump(b3) != base) return "array-to-variant"; }
    std::vector<std::string> el, el2;
    for (JsonVariantConst e : ac) el.push_back(plainDump(e));
    for (JsonVariant e : a) el2.push_back(plainDump(e));
    { std::vector<std::string> el3, el4;
      for (JsonArray::iterator it = a.begin(); it != a.end(); ++it) el3.push_back(plainDump(JsonVariant(*it)) + (it->isNull() ? "N" : "V"));
      for (JsonArrayConst::iterator it = ac.begin(); it != ac.end(); ++it) el4.push_back(plainDump(*it) + (it->isNull() ? "N" : "V"));
      if (el3 != el4 || el3.size() != el2.size()) return "array-iterator-arrow";
      for (size_t i = 0; i < el3.size(); i++) if (el3[i].substr(0, el3[i].size() - 1) != el2[i]) return "array-iterator-deref"; }
    if (el != el2) return "array-iteration";
    if (el.size() != cv.size()) return "array-iteration-count";
    if (el.size() <= 8) {
      for (size_t i = 0; i < el.size(); i++) {
        JsonDocument id; id.set(i);
        JsonVariantConst ivar = id.as<JsonVariantConst>();
        if (plainDump(ac[i]) != el[i] || plainDump(cv[i]) != el[i]) return "const-index";
        if (v[i].size() != cv[i].size() || v[i].nesting() != cv[i].nesting() || v[i].isNull() != cv[i].isNull() || a[i].size() != cv[i].size()) return "element-proxy-observers";
        if (plainDump(ac[ivar]) != el[i] || plainDump(cv[ivar]) != el[i] || plainDump(JsonVariantConst(a[ivar])) != el[i] || plainDump(v[id.as<JsonVariant>()]) != el[i]) return "index-variant";
        if (asDoc && (plainDump((*asDoc)[i]) != el[i] || plainDump((*asDoc)[ivar]) != el[i])) return "document-const-index";
      }
      JsonDocument id; id.set(el.size());
      if (!ac[el.size()].isUnbound() || !ac[id.as<JsonVariantConst>()].isUnbound() || !cv[id.as<JsonVariantConst>()].isUnbound()) return "index-past-end";
      JsonDocument kd; kd.set("k");
      if (!cv[kd.as<JsonVariantConst>()].isUnbound() || cv.containsKey("k") || !JsonVariantConst(a[kd.as<JsonVariantConst>()]).isUnbound()) return "array-keyed";
    }
    if (asDoc && (asDoc->isNull() || asDoc->size() != cv.size() || asDoc->nesting() != cv.nesting())) return "document-observers";
  }
  if (asDoc && base == "n" && (!asDoc->isNull() || asDoc->size() != 0 || asDoc->nesting() != 0)) return "document-null-observers";
  return "";
}

// the canonical dump of a whole document, with the typed observers checked on its root and on the root's children
static inline std::string dumpTyped(JsonDocument& doc) {
  std::string d = dump(doc.as<JsonVariantConst>());
  std::string t = typedObs(doc.as<JsonVariant>(), &doc);
  if (t.empty()) {
    JsonVariant root = doc.as<JsonVariant>();
    size_t n = 0;
    if (root.is<JsonArray>()) { for (JsonVariant e : root.as<JsonArray>()) { if (n++ >= 4 || !t.empty()) break; t = typedObs(e, nullptr); } }
    else if (root.is<JsonObject>()) { for (JsonPair kv : root.as<JsonObject>()) { if (n++ >= 4 || !t.empty()) break; t = typedObs(kv.value(), nullptr); } }
  }
  return t.empty() ? d : d + "!TYPED:" + t;
}
