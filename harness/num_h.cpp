// num_h.cpp — correspondence harness for typed extraction (as<T>/is<T>) and comparison operators.
#ifndef VERIF_INVENTORY_BUILD
#include <Arduino.h>   // (the inventory of static objects is taken without the test mock of PROGMEM, whose macro defines writable pointers)
#define ARDUINOJSON_ENABLE_PROGMEM 1
#endif
#include "common.hpp"
#include <string_view>
#include <deque>

template <class T> static std::string showInt(JsonVariantConst v) {
  return std::to_string((long long)v.as<T>());
}
template <> std::string showInt<unsigned long long>(JsonVariantConst v) {
  return std::to_string(v.as<unsigned long long>());
}

static std::string bits12(JsonVariantConst a, JsonVariantConst b) {
  std::string s;
  s += (a == b) ? '1' : '0'; s += (a != b) ? '1' : '0'; s += (a < b) ? '1' : '0';
  s += (a <= b) ? '1' : '0'; s += (a > b) ? '1' : '0'; s += (a >= b) ? '1' : '0';
  s += (b == a) ? '1' : '0'; s += (b != a) ? '1' : '0'; s += (b < a) ? '1' : '0';
  s += (b <= a) ? '1' : '0'; s += (b > a) ? '1' : '0'; s += (b >= a) ? '1' : '0';
  return s;
}
template <class T> static std::string bits12s(JsonVariantConst a, T b) {
  std::string s;
  s += (a == b) ? '1' : '0'; s += (a != b) ? '1' : '0'; s += (a < b) ? '1' : '0';
  s += (a <= b) ? '1' : '0'; s += (a > b) ? '1' : '0'; s += (a >= b) ? '1' : '0';
  s += (b == a) ? '1' : '0'; s += (b != a) ? '1' : '0'; s += (b < a) ? '1' : '0';
  s += (b <= a) ? '1' : '0'; s += (b > a) ? '1' : '0'; s += (b >= a) ? '1' : '0';
  return s;
}

static std::string handle(const std::vector<std::string>& a) {
  if (a[0] == "CFG") return a[1] == cfgString() ? "cfg" : "cfg-mismatch " + cfgString();
  // AS <kind> <dump> : typed extraction of one value; kind 0 = copied strings, 1 = linked strings
  if (a[0] == "AS" && a.size() == 3) {
    std::deque<std::string> pool;
    // the extraction of one stored value; signedInts: a non-negative integer is stored through a signed type
    auto extract = [&](bool signedInts, std::string& r) -> bool {
      JsonDocument doc;
      DumpParser p(a[2]);
      p.signedInts = signedInts;
      if (!p.build(doc.to<JsonVariant>(), &pool, std::stoi(a[1]))) return false;
      JsonVariantConst v = doc.as<JsonVariantConst>();
      r += "i8=" + showInt<signed char>(v) + " u8=" + showInt<unsigned char>(v);
      r += " i16=" + showInt<short>(v) + " u16=" + showInt<unsigned short>(v);
      r += " i32=" + showInt<int>(v) + " u32=" + showInt<unsigned int>(v);
      r += " i64=" + showInt<long long>(v) + " u64=" + showInt<unsigned long long>(v);
      // long / unsigned long are 64-bit here: must agree with long long
      if (v.as<long>() != v.as<long long>() || v.as<unsigned long>() != v.as<unsigned long long>()) r += " LONG-DIFFERS";
      r += " f32=" + dumpF32(v.as<float>()) + " f64=" + dumpF64(v.as<double>());
      std::string is;
      is += v.is<signed char>() ? '1' : '0'; is += v.is<unsigned char>() ? '1' : '0';
      is += v.is<short>() ? '1' : '0'; is += v.is<unsigned short>() ? '1' : '0';
      is += v.is<int>() ? '1' : '0'; is += v.is<unsigned int>() ? '1' : '0';
      is += v.is<long long>() ? '1' : '0'; is += v.is<unsigned long long>() ? '1' : '0';
      is += v.is<float>() ? '1' : '0'; is += v.is<double>() ? '1' : '0';
      r += " is=" + is;
      // operator| must return the value when is<T>() and the default otherwise
      if ((v | (int)-7) != (v.is<int>() ? v.as<int>() : -7)) r += " OR-DIFFERS";
      // an enumeration converts like int (Converter<T, is_enum>): as<E>() is as<int>() cast, is<E>() is is<int>()
      { enum Color { Red = 0, Blue = 2 };
        if ((int)v.as<Color>() != v.as<int>() || v.is<Color>() != v.is<int>()) r += " ENUM-DIFFERS";
        JsonDocument ed; ed.set(Blue);
        if (!ed.is<int>() || ed.as<int>() != 2 || ed.as<Color>() != Blue) r += " ENUM-SET-DIFFERS"; }
      // as<bool>() of a stored integer is "non-zero"; as<int>() of a stored boolean is 0 / 1
      if (a[2][0] == 'i' && v.as<bool>() != (a[2] != "i0" && a[2] != "i-0")) r += " BOOL-OF-INT-DIFFERS";
      if ((a[2] == "t" || a[2] == "f") && (v.as<int>() != (a[2] == "t" ? 1 : 0) || !v.is<bool>() || v.is<int>())) r += " INT-OF-BOOL-DIFFERS";
      if (a[2][0] == 'D' || a[2][0] == 'F') { double dv = v.as<double>(); if (dv == dv && v.as<bool>() != (dv != 0)) r += " BOOL-OF-FLOAT-DIFFERS"; }
      return true;
    };
    std::string r;
    if (!extract(false, r)) return "bad-dump";
    if (a[2][0] == 'i' && a[2][1] != '-') {
      std::string r2;
      extract(true, r2);
      if (r2 != r) r += " STORAGE-DIFFERS:" + r2;
    }
    return r;
  }
  // CA1 <type i32|u8|i64> <len> <dump> : copyArray(array, T* dst, len) into the middle of a guarded block
  if (a[0] == "CA1" && a.size() == 4) {
    JsonDocument doc;
    DumpParser p(a[3]);
    if (!p.build(doc.to<JsonVariant>())) return "bad-dump";
    size_t len = std::stoul(a[2]);
    const size_t G = 8;
    auto run1 = [&](auto sample) -> std::string {
      using T = decltype(sample);
      std::vector<T> mem(len + 2 * G, (T)0x5A);
      size_t n = copyArray(doc.as<JsonArrayConst>(), mem.data() + G, len);
      std::string r = std::to_string(n) + " [";
      for (size_t i = 0; i < len; i++) r += (i ? "," : "") + std::to_string((long long)mem[G + i]);
      r += "]";
      for (size_t i = 0; i < G; i++) if (mem[i] != (T)0x5A || mem[G + len + i] != (T)0x5A) { r += " GUARD-OVERWRITTEN"; break; }
      return r;
    };
    if (a[1] == "i32") return run1((int)0);
    if (a[1] == "u8") return run1((unsigned char)0);
    if (a[1] == "i64") return run1((long long)0);
    return "bad-type";
  }
  // CA2 <shape 3x2|2x4|1x1|4x3> <dump> : copyArray(array, int (&dst)[N1][N2]) inside a guarded struct
  if (a[0] == "CA2" && a.size() == 3) {
    JsonDocument doc;
    DumpParser p(a[2]);
    if (!p.build(doc.to<JsonVariant>())) return "bad-dump";
    auto run2 = [&](auto& blk, size_t n1, size_t n2) -> std::string {
      for (auto& g : blk.before) g = 0x5A5A5A5A;
      for (auto& g : blk.after) g = 0x5A5A5A5A;
      for (size_t i = 0; i < n1; i++) for (size_t j = 0; j < n2; j++) blk.dst[i][j] = 90;
      size_t n = copyArray(doc.as<JsonArrayConst>(), blk.dst);
      std::string r = std::to_string(n) + " [";
      for (size_t i = 0; i < n1; i++) {
        r += (i ? ",[" : "[");
        for (size_t j = 0; j < n2; j++) r += (j ? "," : "") + std::to_string(blk.dst[i][j]);
        r += "]";
      }
      r += "]";
      for (auto g : blk.before) if (g != 0x5A5A5A5A) return r + " GUARD-OVERWRITTEN";
      for (auto g : blk.after) if (g != 0x5A5A5A5A) return r + " GUARD-OVERWRITTEN";
      return r;
    };
    if (a[1] == "3x2") { struct { int before[8]; int dst[3][2]; int after[8]; } b; return run2(b, 3, 2); }
    if (a[1] == "2x4") { struct { int before[8]; int dst[2][4]; int after[8]; } b; return run2(b, 2, 4); }
    if (a[1] == "1x1") { struct { int before[8]; int dst[1][1]; int after[8]; } b; return run2(b, 1, 1); }
    if (a[1] == "4x3") { struct { int before[8]; int dst[4][3]; int after[8]; } b; return run2(b, 4, 3); }
    return "bad-shape";
  }
  // CAS <N 1|2|4|8|16> <dump> : copyArray(variant, char (&dst)[N]) inside a guarded struct; prints the N bytes as hex
  if (a[0] == "CAS" && a.size() == 3) {
    JsonDocument doc;
    DumpParser p(a[2]);
    if (!p.build(doc.to<JsonVariant>())) return "bad-dump";
    auto runs = [&](auto& blk, size_t n) -> std::string {
      memset(&blk, 0x5A, sizeof blk);
      size_t c = copyArray(doc.as<JsonVariantConst>(), blk.dst);
      std::string r = std::to_string(c) + " " + hex(blk.dst, n);
      for (char g : blk.before) if (g != 0x5A) return r + " GUARD-OVERWRITTEN";
      for (char g : blk.after) if (g != 0x5A) return r + " GUARD-OVERWRITTEN";
      return r;
    };
    if (a[1] == "1") { struct { char before[16]; char dst[1]; char after[16]; } b; return runs(b, 1); }
    if (a[1] == "2") { struct { char before[16]; char dst[2]; char after[16]; } b; return runs(b, 2); }
    if (a[1] == "4") { struct { char before[16]; char dst[4]; char after[16]; } b; return runs(b, 4); }
    if (a[1] == "8") { struct { char before[16]; char dst[8]; char after[16]; } b; return runs(b, 8); }
    if (a[1] == "16") { struct { char before[16]; char dst[16]; char after[16]; } b; return runs(b, 16); }
    return "bad-size";
  }
  // CAD <dump of an array of integers> : the other direction, copyArray(C array -> document / JsonArray / member): the
  // document must then hold exactly those numbers (1-D from int[N], from pointer + length, 2-D from int[2][3], char[] as a string)
  if (a[0] == "CAD" && a.size() == 2) {
    JsonDocument src;
    DumpParser p(a[1]);
    if (!p.build(src.to<JsonVariant>())) return "bad-dump";
    std::vector<long long> vals;
    for (JsonVariantConst e : src.as<JsonArrayConst>()) vals.push_back(e.as<long long>());
    std::string r;
    { JsonDocument d; d["stale"] = 1; bool ok = copyArray(vals.data(), vals.size(), d);               // pointer + length -> document
      r += std::string(ok ? "true " : "false ") + dump(d.as<JsonVariantConst>()); }
    { JsonDocument d; JsonArray arr = d["m"].to<JsonArray>(); arr.add(0); bool ok = copyArray(vals.data(), vals.size(), arr);   // appends to a JsonArray
      r += std::string(ok ? " true " : " false ") + dump(d.as<JsonVariantConst>()); }
    { long long fixed[3] = {vals.size() > 0 ? vals[0] : 0, vals.size() > 1 ? vals[1] : 0, vals.size() > 2 ? vals[2] : 0};
      JsonDocument d; bool ok = copyArray(fixed, d);                                                  // T(&)[N] -> document
      r += std::string(ok ? " true " : " false ") + dump(d.as<JsonVariantConst>());
      JsonDocument d3; bool ok3 = copyArray(fixed, d3["k"]);                                          // T(&)[N] -> member proxy
      r += std::string(ok3 ? " true " : " false ") + dump(d3.as<JsonVariantConst>());
      long long grid[2][3] = {{fixed[0], fixed[1], fixed[2]}, {fixed[2], fixed[1], fixed[0]}};
      JsonDocument d2; bool ok2 = copyArray(grid, d2);                                               // T(&)[N1][N2] -> document
      r += std::string(ok2 ? " true " : " false ") + dump(d2.as<JsonVariantConst>()); }
    { char text[8] = "abc"; JsonDocument d; bool ok = copyArray(text, d[0]);                          // char[] is a string, not an array
      r += std::string(ok ? " true " : " false ") + dump(d.as<JsonVariantConst>()); }
    return r;
  }
  // CMP <dump a> <dump b>
  if (a[0] == "CMP" && a.size() == 3) {
    JsonDocument da, db;
    std::deque<std::string> pool;
    DumpParser pa(a[1]), pb(a[2]);
    bool unboundA = a[1] == "U", unboundB = a[2] == "U";
    if (!unboundA && !pa.build(da.to<JsonVariant>(), &pool, 0)) return "bad-dump";
    if (!unboundB && !pb.build(db.to<JsonVariant>(), &pool, 1)) return "bad-dump";
    JsonVariantConst va = unboundA ? JsonVariantConst() : da.as<JsonVariantConst>();
    JsonVariantConst vb = unboundB ? JsonVariantConst() : db.as<JsonVariantConst>();
    std::string r = bits12(va, vb);
    // the left operand against ITSELF (the very same stored value: JsonArrayConst::operator== has a same-pointer
    // shortcut the two-document comparison never takes): the six answers must still obey the coherence laws
    {
      std::string q = bits12(va, va);
      bool eq = q[0] == '1', ne = q[1] == '1', lt = q[2] == '1', le = q[3] == '1', gt = q[4] == '1', ge = q[5] == '1';
      bool coherent = ne == !eq && le == (lt || eq) && ge == (gt || eq) && (int)lt + (int)eq + (int)gt <= 1 &&
                      q.substr(0, 6) == q.substr(6, 6) && !lt && !gt;
      if (!coherent) r += " SELF-INCOHERENT:" + q;
    }
    // the same right operand as a C++ scalar / string: must give the same answers
    const detail::VariantData* d = detail::VariantAttorney::getData(vb);
    if (d) {
      using detail::VariantType;
      std::string s;
      switch (d->type()) {
        case VariantType::Boolean: s = bits12s(va, vb.as<bool>()); break;
        case VariantType::Int32: case VariantType::Int64: s = bits12s(va, vb.as<long long>()); break;
        case VariantType::Uint32: case VariantType::Uint64: s = bits12s(va, vb.as<unsigned long long>()); break;
        case VariantType::Float: s = bits12s(va, vb.as<float>()); break;
#if ARDUINOJSON_USE_DOUBLE
        case VariantType::Double: s = bits12s(va, vb.as<double>()); break;
#endif
        case VariantType::LinkedString: case VariantType::OwnedString: {
          JsonString js = vb.as<JsonString>();
          std::string str(js.c_str(), js.size());
          s = bits12s(va, str);
          if (str.find('\0') == std::string::npos) {
            std::string s2 = bits12s(va, str.c_str());
            if (s2 != s) r += " CSTR-DIFFERS:" + s2;
#if ARDUINOJSON_ENABLE_PROGMEM
            std::string s3 = bits12s(va, reinterpret_cast<const __FlashStringHelper*>(convertPtrToFlash(str.c_str())));
            if (s3 != s) r += " FLASH-DIFFERS:" + s3;
#endif
          }
          { std::string s4 = bits12s(va, std::string_view(str));      // sized kinds carry an embedded NUL
            std::string s5 = bits12s(va, JsonString(str.c_str(), str.size()));
            if (s4 != s) r += " STRINGVIEW-DIFFERS:" + s4; else if (s5 != s) r += " JSONSTRING-DIFFERS:" + s5; }
          break;
        }
        default: break;
      }
      if (!s.empty() && s != r.substr(0, 12)) r += " SCALAR-DIFFERS:" + s;
      // the same right operand as a NARROWER C++ integer type when its value fits: int, short, signed char and their
      // unsigned counterparts (operands of different width and signedness take other overloads of arithmeticCompare)
      bool isSigned = d->type() == VariantType::Int32 || d->type() == VariantType::Int64;
      bool isUnsigned = d->type() == VariantType::Uint32 || d->type() == VariantType::Uint64;
      // (a boolean left operand is left out: booleans against numbers are not constrained by the property, and the
      // library answers true == (unsigned char)2 because both are one-byte unsigned types)
      const detail::VariantData* da_ = detail::VariantAttorney::getData(va);
      bool leftBool = da_ && da_->type() == VariantType::Boolean;
      if ((isSigned || isUnsigned) && !leftBool) {
        long long sv = isSigned ? vb.as<long long>() : 0;
        unsigned long long uv = isUnsigned ? vb.as<unsigned long long>() : 0;
        bool nonneg = isUnsigned || sv >= 0;
        unsigned long long mag = isUnsigned ? uv : (unsigned long long)sv;   // valid when nonneg
        std::string t;
        auto chk = [&](const std::string& got, const char* what) { if (t.empty() && got != r.substr(0, 12)) t = std::string(" NARROW-SCALAR-DIFFERS(") + what + "):" + got; };
        if (isSigned && sv >= -2147483647LL - 1 && sv <= 2147483647LL) chk(bits12s(va, (int)sv), "int");
        if (isSigned && sv >= -32768 && sv <= 32767) chk(bits12s(va, (short)sv), "short");
        if (isSigned && sv >= -128 && sv <= 127) chk(bits12s(va, (signed char)sv), "signed char");
        if (nonneg && mag <= 2147483647ULL) chk(bits12s(va, (int)mag), "int");
        if (nonneg && mag <= 4294967295ULL) chk(bits12s(va, (unsigned int)mag), "unsigned");
        if (nonneg && mag <= 65535ULL) chk(bits12s(va, (unsigned short)mag), "unsigned short");
        if (nonneg && mag <= 255ULL) chk(bits12s(va, (unsigned char)mag), "unsigned char");
        r += t;
      }
    }
    // typed references: two arrays / two objects compared through JsonArrayConst / JsonObjectConst give the variants' answer
    if (!unboundA && !unboundB) {
      if (va.is<JsonArrayConst>() && vb.is<JsonArrayConst>()) {
        JsonArrayConst x = va.as<JsonArrayConst>(), y = vb.as<JsonArrayConst>();
        if ((x == y) != (r[0] == '1') || (y == x) != (r[6] == '1')) r += " TYPED-REF-DIFFERS(array)";
      }
      if (va.is<JsonObjectConst>() && vb.is<JsonObjectConst>()) {
        JsonObjectConst x = va.as<JsonObjectConst>(), y = vb.as<JsonObjectConst>();
        if ((x == y) != (r[0] == '1') || (y == x) != (r[6] == '1')) r += " TYPED-REF-DIFFERS(object)";
      }
      if ((da == db) != (r[0] == '1') || (da != db) != (r[1] == '1')) r += " TYPED-REF-DIFFERS(document)";
    }
    // two strings of which one is a prefix of the other, living in ONE buffer (a view of the beginning of a linked
    // string; a string linked to the bytes of an owned one that holds a NUL): same answers as in separate buffers
    if (!unboundA && !unboundB && va.is<JsonString>() && vb.is<JsonString>()) {
      JsonString ja = va.as<JsonString>(), jb = vb.as<JsonString>();
      std::string A(ja.c_str(), ja.size()), B(jb.c_str(), jb.size());
      bool aLong = A.size() >= B.size();
      const std::string& L = aLong ? A : B;
      const std::string& S = aLong ? B : A;
      if (L.compare(0, S.size(), S) == 0) {
        std::string expect = aLong ? r.substr(0, 12) : r.substr(6, 6) + r.substr(0, 6);   // L against S
        std::vector<char> buf(L.begin(), L.end()); buf.push_back(0);
        std::string t;
        if (L.find('\0') == std::string::npos) {
          JsonDocument dl; dl.set(static_cast<const char*>(buf.data()));
          std::string g1 = bits12s(dl.as<JsonVariantConst>(), std::string_view(buf.data(), S.size()));
          std::string g2 = bits12s(dl.as<JsonVariantConst>(), JsonString(buf.data(), S.size()));
          if (g1 != expect) t = " SHARED-BUFFER-DIFFERS(view):" + g1;
          else if (g2 != expect) t = " SHARED-BUFFER-DIFFERS(JsonString):" + g2;
        } else if (L.find('\0') == S.size()) {
          JsonDocument dl, ds; dl.set(L);
          ds.set(dl.as<const char*>());                      // linked to the owned bytes, ends at the first NUL
          std::string g3 = bits12(dl.as<JsonVariantConst>(), ds.as<JsonVariantConst>());
          if (ds.as<JsonString>().size() != S.size()) t = " SHARED-BUFFER-SETUP";
          else if (g3 != expect) t = " SHARED-BUFFER-DIFFERS(variants):" + g3;
        }
        r += t;
      }
    }
    // a null C string as the right operand is a null: it must give the same answers as a null variant
    if (!unboundB && a[2] == "n") {
      std::string sn = bits12s(va, (const char*)nullptr);
      if (sn != r.substr(0, 12)) r += " NULL-CSTR-DIFFERS:" + sn;
    }
    // the same operands with their non-negative integers stored through signed types (Int32/Int64 instead of
    // Uint32/Uint64): a value-level comparison cannot depend on it
    if (a[1].find('i') != std::string::npos || a[2].find('i') != std::string::npos) {
      for (int combo = 1; combo < 4; combo++) {
        JsonDocument ea, eb;
        DumpParser qa(a[1]), qb(a[2]);
        qa.signedInts = combo & 1; qb.signedInts = combo & 2;
        if (!unboundA && !qa.build(ea.to<JsonVariant>(), &pool, 0)) return "bad-dump";
        if (!unboundB && !qb.build(eb.to<JsonVariant>(), &pool, 1)) return "bad-dump";
        JsonVariantConst wa = unboundA ? JsonVariantConst() : ea.as<JsonVariantConst>();
        JsonVariantConst wb = unboundB ? JsonVariantConst() : eb.as<JsonVariantConst>();
        std::string r2 = bits12(wa, wb);
        if (r2 != r.substr(0, 12)) { r += " STORAGE-DIFFERS(" + std::to_string(combo) + "):" + r2; break; }
        const detail::VariantData* d2 = detail::VariantAttorney::getData(wb);
        if (d2 && (d2->type() == detail::VariantType::Int32 || d2->type() == detail::VariantType::Int64)) {
          std::string s2 = bits12s(wa, wb.as<long long>());
          if (s2 != r.substr(0, 12)) { r += " SIGNED-SCALAR-DIFFERS(" + std::to_string(combo) + "):" + s2; break; }
        }
      }
    }
    return r;
  }
  // CMPM <hex msgpack a> <hex msgpack b> : operands obtained through deserializeMsgPack (the only way to get
  // an object with a repeated key)
  if (a[0] == "CMPM" && a.size() == 3) {
    JsonDocument da, db;
    std::string ia = unhex(a[1]), ib = unhex(a[2]);
    if (deserializeMsgPack(da, ia.data(), ia.size()) || deserializeMsgPack(db, ib.data(), ib.size())) return "bad-input";
    return bits12(da.as<JsonVariantConst>(), db.as<JsonVariantConst>());
  }
  return "?";
}

int main() {
  std::ios::sync_with_stdio(false);
  std::string line;
  while (std::getline(std::cin, line)) {
    watchdog(300);   // a corrupted structure may make the library loop: report instead of hanging the check
    if (line.empty()) continue;
    std::cout << handle(split(line)) << "\n" << std::flush;
  }
  return 0;
}
