// common.hpp — helpers shared by the correspondence harnesses (hex, canonical dump).
// Built against /repo/src as it is in the working tree.
#pragma once
#include <ArduinoJson.h>
#include <cstdio>
#include <cstring>
#include <cstdint>
#include <iostream>
#include <sstream>
#include <string>
#include <vector>
#include <deque>
#include <algorithm>
#include <streambuf>
#include <istream>
#include <csignal>
#include <unistd.h>

// per-line watchdog: if one case line runs longer than `secs`, the process reports it and exits (the driver then records
// the line as a crash with this message)
static void watchdog_fired(int) { const char m[] = "WATCHDOG: this case did not finish (endless loop?)\n"; (void)!write(2, m, sizeof m - 1); _exit(97); }
static inline void watchdog(unsigned secs) { signal(SIGALRM, watchdog_fired); alarm(secs); }


using namespace ArduinoJson;

// custom reader that records how deep the stack is whenever the library asks it for input (the lowest address of one
// of its own locals): the stack consumed by a deserializer call = address of a local of the caller - that lowest address
struct StackProbeReader {
  const std::string& s; size_t p = 0; uintptr_t lowest = ~uintptr_t(0);
  explicit StackProbeReader(const std::string& str) : s(str) {}
  void probe() { volatile char here = 0; uintptr_t a = reinterpret_cast<uintptr_t>(&here); if (a < lowest) lowest = a; }
  int read() { probe(); return p < s.size() ? (unsigned char)s[p++] : -1; }
  size_t readBytes(char* b, size_t n) { probe(); size_t i = 0; while (i < n && p < s.size()) b[i++] = s[p++]; return i; }
};

// a std::streambuf that hands out its data in blocks of `chunk` bytes (like a socket or a decompressor would): the get
// area never holds more than one block, so every block boundary goes through underflow()
struct ChunkedBuf : std::streambuf {
  std::string data; size_t next = 0, chunk; size_t base = 0;   // base = offset of the current get area in data
  ChunkedBuf(const std::string& d, size_t c) : data(d), chunk(c ? c : 1) {}
  int_type underflow() override {
    if (gptr() && gptr() < egptr()) return traits_type::to_int_type(*gptr());
    if (next >= data.size()) return traits_type::eof();
    size_t n = std::min(chunk, data.size() - next);
    base = next;
    char* p = &data[next];
    setg(p, p, p + n);
    next += n;
    return traits_type::to_int_type(*gptr());
  }
  size_t consumed() const { return gptr() ? base + size_t(gptr() - eback()) : 0; }
};

static inline std::string unhex(const std::string& h) {
  std::string out;
  if (h == "-") return out;
  for (size_t i = 0; i + 1 < h.size(); i += 2)
    out.push_back(char(std::stoi(h.substr(i, 2), nullptr, 16)));
  return out;
}
static inline std::string hex(const char* p, size_t n) {
  if (n == 0) return "-";
  static const char* d = "0123456789abcdef";
  std::string out;
  for (size_t i = 0; i < n; i++) {
    unsigned char c = (unsigned char)p[i];
    out.push_back(d[c >> 4]);
    out.push_back(d[c & 15]);
  }
  return out;
}
static inline std::string hex(const std::string& s) { return hex(s.data(), s.size()); }

static inline std::vector<std::string> split(const std::string& s) {
  std::vector<std::string> v;
  std::istringstream is(s);
  std::string t;
  while (is >> t) v.push_back(t);
  return v;
}

// the name of an error code; the error object's other observers (c_str, f_str, comparisons with codes and with other
// errors in both orders, conversion to bool, operator<<) are cross-checked on the way: "BadErrorObject" otherwise
static inline const char* codeNameRaw(DeserializationError::Code c) {
  switch (c) {
    case DeserializationError::Ok: return "Ok";
    case DeserializationError::EmptyInput: return "EmptyInput";
    case DeserializationError::IncompleteInput: return "IncompleteInput";
    case DeserializationError::InvalidInput: return "InvalidInput";
    case DeserializationError::NoMemory: return "NoMemory";
    case DeserializationError::TooDeep: return "TooDeep";
  }
  return "BadCode";
}
static inline bool errorObjectCoherent(DeserializationError e) {
  const char* name = codeNameRaw(e.code());
  if (strcmp(e.c_str(), name) != 0) return false;
  std::ostringstream os1, os2; os1 << e; os2 << e.code();
  if (os1.str() != name || os2.str() != name) return false;
  if (bool(e) != (e.code() != DeserializationError::Ok)) return false;
#if ARDUINOJSON_ENABLE_PROGMEM
  { const char* fs = reinterpret_cast<const char*>(convertFlashToPtr(e.f_str()));      // the flash copy of the message (test mock: shifted address)
    if (strcmp(fs, name) != 0) return false; }
#endif
  static const DeserializationError::Code all[] = {DeserializationError::Ok, DeserializationError::EmptyInput, DeserializationError::IncompleteInput,
                                                   DeserializationError::InvalidInput, DeserializationError::NoMemory, DeserializationError::TooDeep};
  for (DeserializationError::Code c : all) {
    bool same = c == e.code();
    DeserializationError other(c);
    if ((e == c) != same || (c == e) != same || (e != c) == same || (c != e) == same) return false;
    if ((e == other) != same || (other == e) != same || (e != other) == same) return false;
  }
  return true;
}
static inline const char* codeName(DeserializationError e) {
  if (!errorObjectCoherent(e)) return "BadErrorObject";
  switch (e.code()) {
    case DeserializationError::Ok: return "Ok";
    case DeserializationError::EmptyInput: return "EmptyInput";
    case DeserializationError::IncompleteInput: return "IncompleteInput";
    case DeserializationError::InvalidInput: return "InvalidInput";
    case DeserializationError::NoMemory: return "NoMemory";
    case DeserializationError::TooDeep: return "TooDeep";
  }
  return "BadCode";
}

static inline std::string dumpF32(float f) {
  if (f != f) return "Fnan";
  uint32_t b; memcpy(&b, &f, 4);
  char buf[16]; snprintf(buf, sizeof buf, "F%08x", b); return buf;
}
static inline std::string dumpF64(double f) {
  if (f != f) return "Dnan";
  uint64_t b; memcpy(&b, &f, 8);
  char buf[24]; snprintf(buf, sizeof buf, "D%016llx", (unsigned long long)b); return buf;
}

// canonical dump, using the storage tag to tell float from double (the only thing that the
// public API does not expose); everything else goes through the public API
static inline std::string strip_obs(const std::string& d) {   // a child's dump without any "!OBS:..." marker
  std::string r; size_t i = 0;
  while (i < d.size()) { if (d.compare(i, 5, "!OBS:") == 0) { i += 5; while (i < d.size() && (isalnum((unsigned char)d[i]) || d[i] == '-')) i++; } else r += d[i++]; }
  return r;
}

// While dumping, the other read-only observables of the public API are cross-checked against what iteration shows
// (size(), nesting(), index and key lookup, is<>()); a disagreement is appended to the dump as "!OBS:<what>" and so
// surfaces as a difference from the model.
static inline std::string dumpN(JsonVariantConst v, size_t& nest, bool observe = true) {
  nest = 0;
  const detail::VariantData* d = detail::VariantAttorney::getData(v);
  if (!d) return "n";
  using detail::VariantType;
  switch (d->type()) {
    case VariantType::Null: return v.isNull() ? "n" : "n!OBS:isNull";
    case VariantType::Boolean: return v.as<bool>() ? "t" : "f";
    case VariantType::Float: return dumpF32(v.as<float>());
#if ARDUINOJSON_USE_DOUBLE
    case VariantType::Double: return dumpF64(v.as<double>());
#endif
    case VariantType::Uint32:
#if ARDUINOJSON_USE_LONG_LONG
    case VariantType::Uint64:
#endif
      return "i" + std::to_string(v.as<unsigned long long>());
    case VariantType::Int32:
#if ARDUINOJSON_USE_LONG_LONG
    case VariantType::Int64:
#endif
      return "i" + std::to_string(v.as<long long>());
    case VariantType::LinkedString:
    case VariantType::OwnedString: {
      JsonString s = v.as<JsonString>();
      std::string out = "s" + hex(s.c_str(), s.size());
      if (observe) {
        // the other string accessors agree: std::string carries every byte, const char* stops at the first NUL
        std::string bytes(s.c_str(), s.size());
        const char* p = v.as<const char*>();
        if (v.as<std::string>() != bytes) out += "!OBS:stdstring";
        else if (!p || std::string(p) != std::string(bytes.c_str())) out += "!OBS:cstr";
        else if (!v.is<const char*>() || !v.is<std::string>() || v.is<int>() || v.isNull()) out += "!OBS:is";
      }
      return out;
    }
    case VariantType::RawString: {
      JsonString s = d->asRawString();
      return "r" + hex(s.c_str(), s.size());
    }
    case VariantType::Array: {
      std::string out = "[";
      std::vector<std::string> kids;
      size_t deepest = 0;
      for (JsonVariantConst e : v.as<JsonArrayConst>()) {
        size_t n1; kids.push_back(dumpN(e, n1, observe));
        if (n1 > deepest) deepest = n1;
      }
      for (size_t i = 0; i < kids.size(); i++) out += (i ? "," : "") + kids[i];
      out += "]";
      nest = deepest + 1;
      std::string obs;
      if (!observe) return out;
      if (v.size() != kids.size() || v.as<JsonArrayConst>().size() != kids.size()) obs = "size";
      else if (v.nesting() != nest) obs = "nesting";
      else if (!v.is<JsonArrayConst>() || v.is<JsonObjectConst>() || v.isNull()) obs = "is";
      else if (kids.size() <= 10) {
        size_t dummy;
        for (size_t i = 0; i < kids.size() && obs.empty(); i++) if (dumpN(v[i], dummy, false) != strip_obs(kids[i])) obs = "index" + std::to_string(i);
        if (obs.empty() && !v[kids.size()].isUnbound()) obs = "index-past-end";
      }
      return obs.empty() ? out : out + "!OBS:" + obs;
    }
    case VariantType::Object: {
      std::string out = "{";
      std::vector<std::pair<std::string, std::string>> kids;
      size_t deepest = 0;
      for (JsonPairConst kv : v.as<JsonObjectConst>()) {
        size_t n1; std::string dv = dumpN(kv.value(), n1, observe);
        if (n1 > deepest) deepest = n1;
        kids.emplace_back(std::string(kv.key().c_str(), kv.key().size()), dv);
      }
      for (size_t i = 0; i < kids.size(); i++) out += (i ? "," : "") + hex(kids[i].first) + ":" + kids[i].second;
      out += "}";
      nest = deepest + 1;
      std::string obs;
      if (!observe) return out;
      if (v.size() != kids.size() || v.as<JsonObjectConst>().size() != kids.size()) obs = "size";
      else if (v.nesting() != nest) obs = "nesting";
      else if (!v.is<JsonObjectConst>() || v.is<JsonArrayConst>() || v.isNull()) obs = "is";
      else if (kids.size() <= 10) {
        size_t dummy;
        for (size_t i = 0; i < kids.size() && obs.empty(); i++) {
          // key lookup returns the first member holding that key
          size_t first = i;
          for (size_t j = 0; j < i; j++) if (kids[j].first == kids[i].first) { first = j; break; }
          if (dumpN(v[kids[i].first], dummy, false) != strip_obs(kids[first].second)) obs = "key" + std::to_string(i);
        }
        if (obs.empty() && !v[std::string("\x01no-such-key\x02")].isUnbound()) obs = "absent-key";
      }
      return obs.empty() ? out : out + "!OBS:" + obs;
    }
  }
  return "?";
}
static inline std::string dump(JsonVariantConst v) { size_t n; return dumpN(v, n); }

static inline std::string cfgString() {
  std::string s;
  s += ARDUINOJSON_DECODE_UNICODE ? '1' : '0';
  s += ARDUINOJSON_ENABLE_COMMENTS ? '1' : '0';
  s += ARDUINOJSON_ENABLE_NAN ? '1' : '0';
  s += ARDUINOJSON_ENABLE_INFINITY ? '1' : '0';
  s += ARDUINOJSON_USE_DOUBLE ? '1' : '0';
  return s;
}

// reader that counts the bytes it hands out and notices a read after the end of input
struct CountingReader {
  const std::string* s;
  size_t pos = 0;
  size_t reads = 0;
  bool ended = false;
  bool fault = false;
  bool nul_is_end = true;   // JSON: the latch treats NUL as the end of input; MessagePack: NUL is data
  explicit CountingReader(const std::string& str, bool nulEnds = true) : s(&str), nul_is_end(nulEnds) {}
  int read() {
    if (ended) fault = true;
    if (pos < s->size()) {
      reads++;
      int c = (unsigned char)(*s)[pos++];
      if (c == 0 && nul_is_end) ended = true;   // Latch treats NUL as the end
      return c;
    }
    ended = true;
    return -1;
  }
  size_t readBytes(char* buffer, size_t length) {
    size_t i = 0;
    while (i < length && pos < s->size()) { buffer[i++] = (*s)[pos++]; reads++; }
    if (i < length) { if (ended) fault = true; ended = true; }
    return i;
  }
};

// ---- building a document from a canonical dump (inverse of dump()) through the public API ----
struct DumpParser {
  int nanVariant = 0;       // which NaN bit pattern "Fnan"/"Dnan" stand for (0 = the canonical quiet NaN)
  const std::string& d;
  size_t i = 0;
  explicit DumpParser(const std::string& s) : d(s) {}
  // integers >= 0 are stored as unsigned by default; with signedInts those that fit are stored through a signed type
  // (the variant then holds Int32/Int64 instead of Uint32/Uint64: same value, different storage)
  bool signedInts = false;
  std::string token() {
    size_t j = i;
    while (j < d.size() && d[j] != ',' && d[j] != ']' && d[j] != '}' && d[j] != ':') j++;
    std::string t = d.substr(i, j - i);
    i = j;
    return t;
  }
  // string source kind used for values/keys: 0 = std::string (copied), 1 = const char* (linked, kept alive
  // in `pool`), ... (C14 uses more kinds through its own code)
  bool build(JsonVariant v, std::deque<std::string>* pool = nullptr, int kind = 0) {
    if (i >= d.size()) return false;
    char c = d[i];
    if (c == '[') {
      i++;
      JsonArray a = v.to<JsonArray>();
      if (d[i] == ']') { i++; return true; }
      for (;;) {
        JsonVariant e = a.add<JsonVariant>();
        if (!build(e, pool, kind)) return false;
        if (d[i] == ',') { i++; continue; }
        if (d[i] == ']') { i++; return true; }
        return false;
      }
    }
    if (c == '{') {
      i++;
      JsonObject o = v.to<JsonObject>();
      if (d[i] == '}') { i++; return true; }
      for (;;) {
        std::string k = unhex(token());
        if (d[i] != ':') return false;
        i++;
        JsonVariant slot;
        if (kind == 1 && pool && k.find('\0') == std::string::npos) {
          pool->push_back(k);
          slot = o[pool->back().c_str()].to<JsonVariant>();
        } else {
          slot = o[k].to<JsonVariant>();
        }
        if (!build(slot, pool, kind)) return false;
        if (d[i] == ',') { i++; continue; }
        if (d[i] == '}') { i++; return true; }
        return false;
      }
    }
    std::string t = token();
    if (t == "n") { v.set(nullptr); return true; }
    if (t == "t") { v.set(true); return true; }
    if (t == "f") { v.set(false); return true; }
    if (t[0] == 'i') {
      if (t[1] == '-') v.set((long long)std::stoll(t.substr(1)));
      else {
        unsigned long long u = std::stoull(t.substr(1));
        if (signedInts && u <= 9223372036854775807ull) v.set((long long)u);
        else v.set(u);
      }
      return true;
    }
    if (t[0] == 'F') {
      static const uint32_t fnans[4] = {0x7fc00000u, 0xffc00000u, 0x7fc00001u, 0xffe00000u};   // a NaN is a NaN whatever its sign and payload
      uint32_t b = t == "Fnan" ? fnans[nanVariant & 3] : (uint32_t)std::stoul(t.substr(1), nullptr, 16);
      float f; memcpy(&f, &b, 4); v.set(f); return true;
    }
    if (t[0] == 'D') {
      static const uint64_t dnans[4] = {0x7ff8000000000000ull, 0xfff8000000000000ull, 0x7ff8000000000001ull, 0xfffc000000000000ull};
      uint64_t b = t == "Dnan" ? dnans[nanVariant & 3] : (uint64_t)std::stoull(t.substr(1), nullptr, 16);
      double f; memcpy(&f, &b, 8); v.set(f); return true;
    }
    if (t[0] == 's') {
      std::string s = unhex(t.substr(1));
      if (kind == 1 && pool && s.find('\0') == std::string::npos) {
        pool->push_back(s);
        v.set(pool->back().c_str());
      } else {
        v.set(s);
      }
      return true;
    }
    if (t[0] == 'r') { v.set(serialized(unhex(t.substr(1)))); return true; }
    return false;
  }
};

// ---- instrumented allocator: call log, ledger of live blocks, failure schedule ----
#include <map>
struct SpyAllocator : ArduinoJson::Allocator {
  struct Call { char kind; size_t a, b; bool ok; };   // 'a' size; 'r' old,new; 'd' size
  std::vector<Call> log;
  std::map<void*, size_t> live;
  size_t requested = 0;     // sum of sizes asked through allocate / growing reallocate
  size_t live_bytes = 0, peak = 0;
  size_t calls = 0;         // allocate + reallocate calls (the ones that may fail)
  std::vector<bool> fail;   // fail[k] => k-th (0-based) failable call returns null
  long fail_from = -1;      // >= 0: every failable call with index >= fail_from fails
  bool misuse = false;      // deallocate/reallocate of a block that is not live IN THIS allocator
  // several allocators (one per document) may share one failure schedule and call counter: `master` holds them, each
  // allocator keeps its own ledger of live blocks, so a block released through another document's allocator is misuse
  SpyAllocator* master = nullptr;
  bool shouldFail(bool growing) {
    if (master) return master->shouldFail(growing);
    size_t k = calls++;
    if (!growing) return false;   // a shrinking reallocate never fails
    if (fail_from >= 0 && (long)k >= fail_from) return true;
    return k < fail.size() && fail[k];
  }
  // failure by size: the first `sizeFailAfter` allocations of exactly `sizeFail` bytes succeed, the later ones fail
  // (used to refuse pool blocks — whose size is known — while strings and the pool table can still be had)
  size_t sizeFail = 0; long sizeFailAfter = 0, sizeSeen = 0;
  void* allocate(size_t n) override {
    bool f = shouldFail(true);
    if (sizeFail && n == sizeFail && sizeSeen++ >= sizeFailAfter) f = true;
    requested += n;
    if (master) master->log.push_back({'a', n, 0, !f});
    if (f) { log.push_back({'a', n, 0, false}); return nullptr; }
    void* p = malloc(n ? n : 1);
    live[p] = n; live_bytes += n; if (live_bytes > peak) peak = live_bytes;
    log.push_back({'a', n, 0, true});
    return p;
  }
  void deallocate(void* p) override {
    if (master) master->log.push_back({'d', 0, 0, true});
    if (!p) { log.push_back({'d', 0, 0, true}); return; }
    auto it = live.find(p);
    if (it == live.end()) { misuse = true; log.push_back({'d', 0, 0, false}); return; }
    live_bytes -= it->second;
    log.push_back({'d', it->second, 0, true});
    live.erase(it);
    free(p);
  }
  void* reallocate(void* p, size_t n) override {
    size_t old = 0;
    if (p) {
      auto it = live.find(p);
      if (it == live.end()) { misuse = true; log.push_back({'r', 0, n, false}); return nullptr; }
      old = it->second;
    }
    bool f = shouldFail(n > old);
    if (master) master->log.push_back({'r', old, n, !f});
    if (n > old) requested += n - old;
    if (f) { log.push_back({'r', old, n, false}); return nullptr; }
    // always move the block so that stale pointers are caught by ASan
    void* q = malloc(n ? n : 1);
    if (p) { memcpy(q, p, old < n ? old : n); live.erase(p); free(p); live_bytes -= old; }
    live[q] = n; live_bytes += n; if (live_bytes > peak) peak = live_bytes;
    log.push_back({'r', old, n, true});
    return q;
  }
  std::string logString() const {
    std::string s;
    for (auto& c : log) {
      s += c.kind;
      s += std::to_string(c.a);
      if (c.kind == 'r') s += ">" + std::to_string(c.b);
      if (!c.ok) s += "!";
      s += ",";
    }
    return s;
  }
  ~SpyAllocator() { for (auto& kv : live) free(kv.first); }
};
