// hist_h.cpp — runs an API history (operations on several documents through a table of JsonVariant
// handles) on the real library, on an instrumented allocator, with a chosen string source kind.
#include <Arduino.h>
#define ARDUINOJSON_ENABLE_PROGMEM 1
#define ARDUINOJSON_ENABLE_ARDUINO_STRING 1
#define ARDUINOJSON_ENABLE_ARDUINO_STREAM 1
#define ARDUINOJSON_ENABLE_ARDUINO_PRINT 1
#include "common.hpp"
#include "typed_obs.hpp"
#include <deque>
#include <memory>
#include <thread>

struct Ctx {
  SpyAllocator spy;                                   // the failure schedule, the call counter and the combined call log
  std::deque<SpyAllocator> spies;                     // one ledger per document (each document gets its own allocator)
  size_t liveBlocks() const { size_t n = spy.live.size(); for (auto& s : spies) n += s.live.size(); return n; }
  bool misuse() const { bool m = spy.misuse; for (auto& s : spies) m = m || s.misuse; return m; }
  std::vector<std::unique_ptr<JsonDocument>> docs;
  std::vector<JsonVariant> handles;
  std::deque<std::string> pool;     // storage kept alive for linked strings
  size_t opcount = 0;               // selects among equivalent API entry points
  size_t curAlias = 0;              // the counter value of the operation being executed
  bool creatingKey = false;         // the current operation may create the member it names
  std::deque<std::vector<char>> pool2;
  int kind = 0;
  bool failing = false;             // an allocator failure schedule is in force: use the API forms that return a status
};

// the buffer a linked string lives in: one per distinct text (like string literals), kept alive for the whole history
static const char* linkedBuf(Ctx& c, const std::string& s) {
  for (const std::string& e : c.pool) if (e == s) return e.c_str();
  c.pool.push_back(s);
  return c.pool.back().c_str();
}
// kind 7 = mixed: every operation takes its string operands through a kind chosen from the operation counter
static int effKind(const Ctx& c) { if (c.kind != 7) return c.kind; int k = int(c.curAlias % 8); return k == 7 ? 8 : k; }
// kind 8: a Printable whose printTo() writes the text in two pieces (one byte, then a block)
struct PrintableText : Printable {
  std::string s;
  size_t printTo(Print& p) const override {
    size_t n = 0;
    if (!s.empty()) n += p.write((uint8_t)s[0]);
    if (s.size() > 1) n += p.write((const uint8_t*)s.data() + 1, s.size() - 1);
    return n;
  }
};
// a string holding a NUL can only be given through a kind that carries its length
static int kindFor(const Ctx& c, bool hasNul) { int k = effKind(c); return (hasNul && k != 3 && k != 6 && k != 8) ? 0 : k; }
// store string s (value) into variant v using the configured source kind; returns set()'s result
template <class V> static bool setString(Ctx& c, V&& v, const std::string& s) {
  bool hasNul = s.find('\0') != std::string::npos;
  if (c.kind == 7 && !hasNul) {
    // mixed mode: first store the SAME text through the opposite storage (linked <-> copied), then through the kind
    // under test: the second call must fully replace the first one's storage
    if (effKind(c) == 1) { std::string tmp = s; v.set(tmp); }
    else { v.set(linkedBuf(c, s)); }
  }
  switch (kindFor(c, hasNul)) {
    case 8: { PrintableText pt; pt.s = s; bool r = v.set(pt); pt.s.assign(pt.s.size(), 'Z'); return r; }
    case 1: return v.set(linkedBuf(c, s));                  // const char*: linked
    case 2: { std::vector<char> buf(s.begin(), s.end()); buf.push_back(0); bool r = v.set(buf.data());   // char*: copied
              std::fill(buf.begin(), buf.end(), 'Z'); return r; }
    case 3: { std::string tmp = s + "~not-terminated";      // sized kinds: the bytes right after the string are not a terminator
              bool r = v.set(JsonString(tmp.c_str(), s.size(), JsonString::Copied)); tmp.assign(tmp.size(), 'Z'); return r; }
    case 4: { ::String as(s.c_str()); return v.set(as); }
    case 5: { c.pool.push_back(s); const __FlashStringHelper* f = reinterpret_cast<const __FlashStringHelper*>(convertPtrToFlash(c.pool.back().c_str())); return v.set(f); }
    case 6: { std::string tmp = s + "~not-terminated"; std::string_view sv(tmp.data(), s.size()); bool r = v.set(sv); tmp.assign(tmp.size(), 'Z'); return r; }
    default: { std::string tmp = s; bool r = v.set(tmp); tmp.assign(tmp.size(), 'Z'); return r; }
  }
}
// a sized key may point INTO a longer buffer that was earlier given to the document as a linked string (same address,
// shorter length): the key is still just its own bytes
static const char* aliasPrefix(Ctx& c, const std::string& k) {
  if (k.empty()) return nullptr;
  for (const std::string& e : c.pool)
    if (e.size() > k.size() && e.compare(0, k.size(), k) == 0) return e.c_str();
  return nullptr;
}
template <class F> static auto withKey(Ctx& c, const std::string& k, F f) {
  bool hasNul = k.find('\0') != std::string::npos;
  if (c.kind == 7 && !hasNul && c.creatingKey && (c.curAlias % 3) != 0) return f(linkedBuf(c, k));   // members are mostly created with linked keys
  if (c.kind == 7 && !hasNul) {
    // mixed mode: whenever a longer linked buffer starts with this key, give the key as a sized view INTO that buffer
    if (const char* a = aliasPrefix(c, k)) {
      if (c.curAlias & 1) return f(JsonString(a, k.size(), JsonString::Copied));
      return f(std::string_view(a, k.size()));
    }
  }
  switch (kindFor(c, hasNul)) {
    case 5: { c.pool.push_back(k); return f(reinterpret_cast<const __FlashStringHelper*>(convertPtrToFlash(c.pool.back().c_str()))); }
    case 1: return f(linkedBuf(c, k));
    case 2: { c.pool2.emplace_back(k.begin(), k.end()); c.pool2.back().push_back(0); std::vector<char> tmp = c.pool2.back();
              auto r = f((char*)tmp.data()); return r; }
    case 3: { if (const char* a = aliasPrefix(c, k)) return f(JsonString(a, k.size(), JsonString::Copied));
              std::string tmp = k + "~not-terminated"; return f(JsonString(tmp.c_str(), k.size(), JsonString::Copied)); }
    case 4: { ::String as(k.c_str()); return f(as); }
    case 6: { if (const char* a = aliasPrefix(c, k)) return f(std::string_view(a, k.size()));
              std::string tmp = k + "~not-terminated"; std::string_view sv(tmp.data(), k.size()); return f(sv); }
    default: { std::string tmp = k; return f(tmp); }
  }
}

template <class V> static bool setScalar(Ctx& c, V&& v, const std::string& d) {
  if (d == "n") return v.set(nullptr);
  if (d == "t") return v.set(true);
  if (d == "f") return v.set(false);
  if (d[0] == 'i') return d[1] == '-' ? v.set((long long)std::stoll(d.substr(1))) : v.set((unsigned long long)std::stoull(d.substr(1)));
  if (d[0] == 'F') { uint32_t b = d == "Fnan" ? 0x7fc00000u : (uint32_t)std::stoul(d.substr(1), nullptr, 16); float f; memcpy(&f, &b, 4); return v.set(f); }
  if (d[0] == 'D') { uint64_t b = d == "Dnan" ? 0x7ff8000000000000ull : (uint64_t)std::stoull(d.substr(1), nullptr, 16); double f; memcpy(&f, &b, 8); return v.set(f); }
  if (d[0] == 's') return setString(c, v, unhex(d.substr(1)));
  if (d[0] == 'r') {
    // a raw value through the different overloads of serialized()
    std::string raw = unhex(d.substr(1));
    std::vector<char> buf(raw.begin(), raw.end()); buf.push_back(0);
    bool r;
    // a raw value that is a MessagePack bin 8 / fixext 2 object is given through the typed API half of the time
    if (raw.size() >= 2 && (unsigned char)raw[0] == 0xc4 && (size_t)(unsigned char)raw[1] == raw.size() - 2 && (c.curAlias & 1)) {
      bool r2 = v.set(MsgPackBinary(raw.data() + 2, raw.size() - 2));
      return r2;
    }
    if (raw.size() == 4 && (unsigned char)raw[0] == 0xd5 && (c.curAlias & 1)) {
      bool r2 = v.set(MsgPackExtension((int8_t)raw[1], raw.data() + 2, 2));
      return r2;
    }
    switch (c.curAlias % 3) {
      case 1: r = v.set(serialized(buf.data(), raw.size())); break;                                   // char* + size
      case 2: if (raw.find('\0') == std::string::npos) { r = v.set(serialized((const char*)buf.data())); break; }   // zero-terminated
              // fall through
      default: r = v.set(serialized(raw));
    }
    std::fill(buf.begin(), buf.end(), 'Z');
    return r;
  }
  return false;
}


// a chain of proxies r[p1][p2]...[pn] written or read in ONE expression (no intermediate JsonVariant): the nested proxy types
// MemberProxy<ElementProxy<MemberProxy<...>>> resolve and create their targets lazily through their upstream
template <int Depth, class P>
static bool chainSet(Ctx& c, P p, const std::vector<std::string>& path, size_t i, const std::string& x) {
  if (i == path.size()) return setScalar(c, p, x);
  if constexpr (Depth >= 4) { return false; }
  else {
    if (path[i][0] == 'k') { std::string k = unhex(path[i].substr(1)); return chainSet<Depth + 1>(c, p[k], path, i + 1, x); }
    return chainSet<Depth + 1>(c, p[(size_t)std::stoul(path[i].substr(1))], path, i + 1, x);
  }
}
template <int Depth, class P>
static JsonVariant chainGet(P p, const std::vector<std::string>& path, size_t i) {
  if (i == path.size()) return JsonVariant(p);
  if constexpr (Depth >= 4) { return JsonVariant(); }
  else {
    if (path[i][0] == 'k') { std::string k = unhex(path[i].substr(1)); return chainGet<Depth + 1>(p[k], path, i + 1); }
    return chainGet<Depth + 1>(p[(size_t)std::stoul(path[i].substr(1))], path, i + 1);
  }
}
static std::vector<std::string> splitPath(const std::string& s) {
  std::vector<std::string> out; size_t a = 0;
  while (a <= s.size()) { size_t b = s.find('/', a); if (b == std::string::npos) b = s.size(); out.push_back(s.substr(a, b - a)); a = b + 1; }
  return out;
}

static std::string runOp(Ctx& c, const std::vector<std::string>& a) {
  auto H = [&](const std::string& s) -> JsonVariant& {
    size_t i = std::stoul(s);
    if (c.handles.size() <= i) c.handles.resize(i + 1);
    return c.handles[i];
  };
  auto bindRes = [&](const std::string& s, JsonVariant v) { H(s) = v; return std::string(v.isUnbound() ? "unbound" : "bound"); };
  const std::string& op = a[0];
  size_t alias = c.opcount++;   // selects among equivalent API entry points (see rmidx / rmkey / getelem / getmember)
  c.curAlias = alias;
  c.creatingKey = (op == "makemember" || op == "setmember" || op == "chainset");
  // a handle that is the root of a document is reached through the JsonDocument's own member functions half of the time
  // (JsonDocument repeats the JsonVariant interface with its own overloads and proxy types)
  size_t h1 = (a.size() > 1 && !a[1].empty() && isdigit((unsigned char)a[1][0])) ? std::stoul(a[1]) : size_t(-1);
  bool viaDoc = h1 < c.docs.size() && ((alias >> 1) & 1);
  auto target = [&](auto f) { if (viaDoc) return f(*c.docs[h1]); JsonVariant v = H(a[1]); return f(v); };
  // JsonString::isLinked() reports the storage on purpose: a value set from a const char* is linked, from any other
  // kind it is a copy; an assignment keeps the source's storage
  auto linkOk = [&](JsonVariantConst v, const std::string& d) -> bool {
    if (d[0] != 's' || !v.is<JsonString>()) return true;
    bool hasNul = unhex(d.substr(1)).find('\0') != std::string::npos;
    bool wantLinked = !hasNul && effKind(c) == 1;
    return v.as<JsonString>().isLinked() == wantLinked;
  };
  if (op == "chainset" || op == "chainget") {
    std::vector<std::string> path = splitPath(a[2]);
    size_t h = std::stoul(a[1]);
    bool fromDoc = h < c.docs.size() && (alias & 1);      // start from the JsonDocument itself or from a JsonVariant
    JsonDocument& d0 = *c.docs[fromDoc ? h : 0];
    bool firstKey = path[0][0] == 'k';
    std::string k0 = firstKey ? unhex(path[0].substr(1)) : std::string();
    size_t i0 = firstKey ? 0 : std::stoul(path[0].substr(1));
    if (op == "chainset") {
      // the first proxy refers to the document itself; its key comes as const char* (linked), char* (copied) or std::string
      bool hasNul0 = k0.find('\0') != std::string::npos;
      int kk0 = hasNul0 ? 0 : effKind(c);
      std::vector<char> kbuf(k0.begin(), k0.end()); kbuf.push_back(0);
      bool r = !fromDoc ? chainSet<0>(c, H(a[1]), path, 0, a[3])
               : !firstKey ? chainSet<1>(c, d0[i0], path, 1, a[3])
               : kk0 == 1 ? chainSet<1>(c, d0[linkedBuf(c, k0)], path, 1, a[3])
               : kk0 == 2 ? chainSet<1>(c, d0[(char*)kbuf.data()], path, 1, a[3])
                          : chainSet<1>(c, d0[k0], path, 1, a[3]);
      std::fill(kbuf.begin(), kbuf.end(), 'Z');
      return r ? "true" : "false";
    }
    JsonVariant v = !fromDoc ? chainGet<0>(H(a[1]), path, 0) : firstKey ? chainGet<1>(d0[k0], path, 1) : chainGet<1>(d0[i0], path, 1);
    return bindRes(a[3], v);
  }
  // dst[p1] = src[p2]: a proxy assigned from another proxy (Model/Chain.v proxy_assign)
  if (op == "passign") {
    JsonVariant dsth = H(a[1]), srch = H(a[3]);
    bool dKey = a[2][0] == 'k', sKey = a[4][0] == 'k';
    std::string dk = dKey ? unhex(a[2].substr(1)) : std::string(), sk = sKey ? unhex(a[4].substr(1)) : std::string();
    size_t di = dKey ? 0 : std::stoul(a[2].substr(1)), si = sKey ? 0 : std::stoul(a[4].substr(1));
    // dst[p1].set(src[p2]) or dst[p1] = src[p2]; the assignment operator has no status to return (a failure shows in
    // overflowed() only), so under a failure schedule the form that reports is used
    bool viaSet = (alias & 1) != 0 || c.failing;
    bool r = true;
    if (dKey && sKey) { if (viaSet) r = dsth[dk].set(srch[sk]); else dsth[dk] = srch[sk]; }
    else if (dKey && !sKey) { if (viaSet) r = dsth[dk].set(srch[si]); else dsth[dk] = srch[si]; }
    else if (!dKey && sKey) { if (viaSet) r = dsth[di].set(srch[sk]); else dsth[di] = srch[sk]; }
    else { if (viaSet) r = dsth[di].set(srch[si]); else dsth[di] = srch[si]; }
    return r ? "true" : "false";
  }
  if (op == "set") { bool r = target([&](auto& t) { return setScalar(c, t, a[2]); }); return r ? (linkOk(H(a[1]), a[2]) ? "true" : "true!LINK") : "false"; }
  // to<JsonArray>() on a value that already is an array empties it: the same as JsonArray::clear() (likewise for objects)
  if (op == "toarr") { if (!viaDoc && H(a[1]).is<JsonArray>() && (alias & 4)) { H(a[1]).as<JsonArray>().clear(); return "-"; }
                       target([&](auto& t) { t.template to<JsonArray>(); return 0; }); return "-"; }
  if (op == "toobj") { if (!viaDoc && H(a[1]).is<JsonObject>() && (alias & 4)) { H(a[1]).as<JsonObject>().clear(); return "-"; }
                       target([&](auto& t) { t.template to<JsonObject>(); return 0; }); return "-"; }
  // add<JsonArray>() / add<JsonObject>() / createNestedArray() / createNestedObject(): add<JsonVariant>().to<T>() (Model/Chain.v add_typed)
  if (op == "addarr" || op == "addobj") {
    bool arr = op == "addarr";
    JsonVariant h = H(a[1]);
    JsonVariant made;
    int way = int((alias >> 2) % 3);
    if (!viaDoc && h.is<JsonArray>() && way == 2) {
      JsonArray t = h.as<JsonArray>();
      if (alias & 32) { if (arr) { JsonArray x = t.createNestedArray(); made = x; } else { JsonObject x = t.createNestedObject(); made = x; } }
      else { if (arr) { JsonArray x = t.add<JsonArray>(); made = x; } else { JsonObject x = t.add<JsonObject>(); made = x; } }
    } else {
      made = target([&](auto& t) -> JsonVariant {
        if (way == 1) { if (arr) { JsonArray x = t.createNestedArray(); return x; } JsonObject x = t.createNestedObject(); return x; }
        if (arr) { JsonArray x = t.template add<JsonArray>(); return x; } JsonObject x = t.template add<JsonObject>(); return x; });
    }
    return bindRes(a[2], made);
  }
  // r[k].to<JsonArray>() / createNestedArray(k) / createNestedObject(k)  (Model/Chain.v nest_typed)
  if (op == "nestarr" || op == "nestobj") {
    bool arr = op == "nestarr";
    std::string k = unhex(a[2]);
    JsonVariant h = H(a[1]);
    c.creatingKey = true;
    int way = int((alias >> 2) % 3);
    JsonVariant made = withKey(c, k, [&](auto kk) -> JsonVariant {
      if (!viaDoc && h.is<JsonObject>() && way == 2) {
        JsonObject t = h.as<JsonObject>();
        if (alias & 32) { if (arr) { JsonArray x = t.createNestedArray(kk); return x; } JsonObject x = t.createNestedObject(kk); return x; }
        if (arr) { JsonArray x = t[kk].template to<JsonArray>(); return x; } JsonObject x = t[kk].template to<JsonObject>(); return x;
      }
      return target([&](auto& t) -> JsonVariant {
        if (way == 1) { if (arr) { JsonArray x = t.createNestedArray(kk); return x; } JsonObject x = t.createNestedObject(kk); return x; }
        if (arr) { JsonArray x = t[kk].template to<JsonArray>(); return x; } JsonObject x = t[kk].template to<JsonObject>(); return x; });
    });
    return bindRes(a[3], made);
  }
  if (op == "clear") { H(a[1]).clear(); return "-"; }
  if (op == "addnew") {
    if (!viaDoc && H(a[1]).is<JsonArray>() && (alias & 4)) return bindRes(a[2], H(a[1]).as<JsonArray>().add<JsonVariant>());   // through the typed reference
    return bindRes(a[2], target([&](auto& t) { return t.template add<JsonVariant>(); }));
  }
  if (op == "addval") {
    // add(value): through a temporary document for non-string scalars is not the same API; call add() directly
    const std::string& d = a[2];
    auto body = [&](auto& r) -> bool {
    bool ok;
    if (d == "n") ok = r.add(nullptr);
    else if (d == "t") ok = r.add(true);
    else if (d == "f") ok = r.add(false);
    else if (d[0] == 'i') ok = d[1] == '-' ? r.add((long long)std::stoll(d.substr(1))) : r.add((unsigned long long)std::stoull(d.substr(1)));
    else if (d[0] == 'F') { uint32_t b = (uint32_t)std::stoul(d.substr(1), nullptr, 16); float f; memcpy(&f, &b, 4); ok = r.add(f); }
    else if (d[0] == 'D') { uint64_t b = (uint64_t)std::stoull(d.substr(1), nullptr, 16); double f; memcpy(&f, &b, 8); ok = r.add(f); }
    else if (d[0] == 's') { std::string s = unhex(d.substr(1)); ok = withKey(c, s, [&](auto k) { return r.add(k); }); }
    else { ok = r.add(serialized(unhex(d.substr(1)))); }
    return ok; };
    bool ok;
    if (!viaDoc && H(a[1]).is<JsonArray>() && (alias & 4)) { JsonArray arr = H(a[1]).as<JsonArray>(); ok = body(arr); }   // JsonArray::add(value)
    else ok = target(body);
    return ok ? "true" : "false";
  }
  if (op == "getelem") {
    JsonVariant h = H(a[1]);
    size_t idx = std::stoul(a[2]);
    if (viaDoc) return bindRes(a[3], JsonVariant((*c.docs[h1])[idx]));
    if (h.is<JsonArray>() && (alias & 1)) return bindRes(a[3], JsonVariant(h.as<JsonArray>()[idx]));
    return bindRes(a[3], JsonVariant(h[idx]));
  }
  if (op == "makeelem") {
    if (!viaDoc && H(a[1]).is<JsonArray>() && (alias & 4)) return bindRes(a[3], H(a[1]).as<JsonArray>()[(size_t)std::stoul(a[2])].to<JsonVariant>());
    return bindRes(a[3], target([&](auto& t) { return t[(size_t)std::stoul(a[2])].template to<JsonVariant>(); }));
  }
  if (op == "setelem") {   // r[i] = x
    size_t idx = std::stoul(a[2]);
    bool r = (!viaDoc && H(a[1]).is<JsonArray>() && (alias & 4)) ? setScalar(c, H(a[1]).as<JsonArray>()[idx], a[3])
                                                               : target([&](auto& t) { return setScalar(c, t[idx], a[3]); });
    return r ? (linkOk(JsonVariantConst(H(a[1]))[idx], a[3]) ? "true" : "true!LINK") : "false";
  }
  if (op == "getmember") {
    std::string k = unhex(a[2]);
    JsonVariant h = H(a[1]);
    if (viaDoc) return bindRes(a[3], withKey(c, k, [&](auto kk) { return JsonVariant((*c.docs[h1])[kk]); }));
    if (h.is<JsonObject>() && (alias & 1)) return bindRes(a[3], withKey(c, k, [&](auto kk) { return JsonVariant(h.as<JsonObject>()[kk]); }));
    return bindRes(a[3], withKey(c, k, [&](auto kk) { return JsonVariant(h[kk]); }));
  }
  if (op == "makemember") { std::string k = unhex(a[2]); if (!viaDoc && H(a[1]).is<JsonObject>() && (alias & 4)) return bindRes(a[3], withKey(c, k, [&](auto kk) { return H(a[1]).as<JsonObject>()[kk].template to<JsonVariant>(); }));
    return bindRes(a[3], withKey(c, k, [&](auto kk) { return target([&](auto& t) { return t[kk].template to<JsonVariant>(); }); })); }
  if (op == "setmember") {   // r[k] = x
    std::string k = unhex(a[2]);
    bool r = (!viaDoc && H(a[1]).is<JsonObject>() && (alias & 4))
                 ? withKey(c, k, [&](auto kk) { return setScalar(c, H(a[1]).as<JsonObject>()[kk], a[3]); })
                 : withKey(c, k, [&](auto kk) { return target([&](auto& t) { return setScalar(c, t[kk], a[3]); }); });
    return r ? (linkOk(JsonVariantConst(H(a[1]))[k], a[3]) ? "true" : "true!LINK") : "false";
  }
  // the same operation is reached through different entry points of the API (variant, typed reference, iterator),
  // chosen from the operation counter: the tree model does not distinguish them, the results must not either
  if (op == "rmidx") {
    size_t idx = std::stoul(a[2]);
    JsonVariant h = H(a[1]);
    JsonDocument idxDoc; idxDoc.set(idx);
    if ((alias & 12) == 12) {     // the index given as a variant
      if (viaDoc) c.docs[h1]->remove(idxDoc.as<JsonVariantConst>());
      else if (h.is<JsonArray>() && (alias & 1)) h.as<JsonArray>().remove(idxDoc.as<JsonVariantConst>());
      else h.remove(idxDoc.as<JsonVariantConst>());
    }
    else if (viaDoc) c.docs[h1]->remove(idx);
    else if (h.is<JsonArray>() && alias % 3 == 1) h.as<JsonArray>().remove(idx);
    else if (h.is<JsonArray>() && alias % 3 == 2) {
      JsonArray arr = h.as<JsonArray>();
      JsonArray::iterator it = arr.begin();
      for (size_t i = 0; i < idx && it != arr.end(); i++) ++it;
      if (it != arr.end()) arr.remove(it);
    } else h.remove(idx);
    return "-";
  }
  if (op == "rmkey") {
    std::string k = unhex(a[2]);
    JsonVariant h = H(a[1]);
    JsonDocument keyDoc; keyDoc.set(k);
    if ((alias & 12) == 12) {     // the key given as a variant
      if (viaDoc) c.docs[h1]->remove(keyDoc.as<JsonVariantConst>());
      else if (h.is<JsonObject>() && (alias & 1)) h.as<JsonObject>().remove(keyDoc.as<JsonVariantConst>());
      else h.remove(keyDoc.as<JsonVariantConst>());
    }
    else if (viaDoc) withKey(c, k, [&](auto kk) { c.docs[h1]->remove(kk); return 0; });
    else if (h.is<JsonObject>() && alias % 3 == 1) withKey(c, k, [&](auto kk) { h.as<JsonObject>().remove(kk); return 0; });
    else if (h.is<JsonObject>() && alias % 3 == 2) {
      JsonObject obj = h.as<JsonObject>();
      for (JsonObject::iterator it = obj.begin(); it != obj.end(); ++it)
        if (std::string(it->key().c_str(), it->key().size()) == k) { obj.remove(it); break; }
    } else withKey(c, k, [&](auto kk) { h.remove(kk); return 0; });
    return "-";
  }
  if (op == "assign") {
    JsonVariantConst src = H(a[2]);
    bool srcStr = src.is<JsonString>(), srcLinked = srcStr && src.as<JsonString>().isLinked();
    bool r;
    JsonVariant dstv = H(a[1]);
    int way = int((alias >> 2) % 4);
    bool otherDoc = viaDoc && detail::VariantAttorney::getResourceManager(src) != detail::VariantAttorney::getResourceManager(dstv);
    if (src.is<JsonArrayConst>() && way == 1) r = dstv.set(src.as<JsonArrayConst>());                // Converter<JsonArrayConst>
    else if (src.is<JsonObjectConst>() && way == 1) r = dstv.set(src.as<JsonObjectConst>());
    else if (src.is<JsonArrayConst>() && way == 2 && dstv.is<JsonArray>()) r = dstv.as<JsonArray>().set(src.as<JsonArrayConst>());      // JsonArray::set
    else if (src.is<JsonObjectConst>() && way == 2 && dstv.is<JsonObject>()) r = dstv.as<JsonObject>().set(src.as<JsonObjectConst>());  // JsonObject::set
    else if (way == 3 && otherDoc) { *c.docs[h1] = src; r = !c.docs[h1]->overflowed(); }            // JsonDocument::operator=(const T&)
    else if (way == 3 && src.is<JsonArrayConst>()) { JsonArray sa = H(a[2]).as<JsonArray>(); r = dstv.set(sa); }    // mutable typed reference as the source
    else if (way == 3 && src.is<JsonObjectConst>()) { JsonObject so = H(a[2]).as<JsonObject>(); r = dstv.set(so); }
    else if (way == 0 && isdigit((unsigned char)a[2][0]) && std::stoul(a[2]) < c.docs.size() && (alias & 1)) r = dstv.set(*c.docs[std::stoul(a[2])]);   // the source given as the JsonDocument itself
    else if (way == 0 && (alias & 2)) { JsonVariant sm = H(a[2]); r = dstv.set(sm); }                 // a mutable JsonVariant as the source
    else r = dstv.set(src);
    if (r && srcStr && a[1] != a[2] && JsonVariantConst(H(a[1])).is<JsonString>() &&
        JsonVariantConst(H(a[1])).as<JsonString>().isLinked() != srcLinked) return "true!LINK";
    return r ? "true" : "false";
  }
  if (op == "dclear") { c.docs[std::stoul(a[1])]->clear(); return "-"; }
  if (op == "dcopy") { *c.docs[std::stoul(a[1])] = *c.docs[std::stoul(a[2])]; return "-"; }
  if (op == "dswap") { swap(*c.docs[std::stoul(a[1])], *c.docs[std::stoul(a[2])]); return "-"; }
  if (op == "dshrink") { c.docs[std::stoul(a[1])]->shrinkToFit(); return "-"; }
  if (op == "dmove") { *c.docs[std::stoul(a[1])] = std::move(*c.docs[std::stoul(a[2])]); return "-"; }
  if (op == "dcopyctor") { JsonDocument tmp(*c.docs[std::stoul(a[2])]); std::string d1 = dump(tmp.as<JsonVariantConst>());
                           SpyAllocator own;
                           JsonDocument tmp2(c.docs[std::stoul(a[2])]->as<JsonVariantConst>(), &own);      // constructed from a value, on its own allocator
                           bool incomplete = tmp.overflowed();      // (the copy lives on the source's allocator: under a failure schedule it may legitimately be partial, and says so)
                           JsonDocument tmp3(std::move(tmp));                                              // move construction
                           std::string want = dump(c.docs[std::stoul(a[2])]->as<JsonVariantConst>());
                           if (dump(tmp2.as<JsonVariantConst>()) != want) return "COPYCTOR-DIFFERS";
                           if (incomplete) return "-";
                           if (dump(tmp3.as<JsonVariantConst>()) != want) return "COPYCTOR-DIFFERS";
                           return d1 == want ? "-" : "COPYCTOR-DIFFERS"; }
  if (op == "deser") {
    std::string text = unhex(a[2]);
    size_t h = std::stoul(a[1]);
    if (alias % 3 == 1) {
      // the same value through the other format: JSON text -> scratch document -> MessagePack bytes -> destination
      // (only for float-free values: a double that is exactly a float would come back as a float, the known finding)
      JsonDocument scratch;
      std::string js, mp;
      if (!deserializeJson(scratch, text.data(), text.size()) && !scratch.overflowed()) {
        serializeJson(scratch, js);
        if (js.find('.') == std::string::npos && js.find('e') == std::string::npos && js.find('E') == std::string::npos &&
            js.find("null") == std::string::npos) {
          serializeMsgPack(scratch, mp);
          DeserializationError e = h < c.docs.size() ? deserializeMsgPack(*c.docs[h], mp.data(), mp.size())
                                                     : deserializeMsgPack(H(a[1]), mp.data(), mp.size());
          return e ? "false" : "true";
        }
      }
    }
    DeserializationError e = h < c.docs.size() ? deserializeJson(*c.docs[h], text.data(), text.size())
                                               : deserializeJson(H(a[1]), text.data(), text.size());
    return e ? "false" : "true";
  }
  return "?";
}

// runs one history; `shared` (may be null): a document all threads read through const access, used as copy
// source and as filter after every step
static std::string runHistory(size_t nd, int kind, const std::string& fs, const std::string& rest, bool defaultAlloc,
                              const JsonDocument* shared, unsigned yieldSeed) {
  Ctx c;
  c.kind = kind;
  c.failing = fs != "-";
  if (fs != "-") {
    if (fs.back() == '+') c.spy.fail_from = std::stol(fs.substr(0, fs.size() - 1));
    else { size_t k = std::stoul(fs); c.spy.fail.assign(k + 1, false); c.spy.fail[k] = true; }
  }
  std::string out;
  {
    for (size_t i = 0; i < nd; i++) { c.spies.emplace_back(); c.spies.back().master = &c.spy; }
    for (size_t i = 0; i < nd; i++) c.docs.emplace_back(defaultAlloc ? new JsonDocument() : new JsonDocument(&c.spies[i]));
    c.handles.resize(nd);
    for (size_t i = 0; i < nd; i++) c.handles[i] = JsonVariant(*c.docs[i]);
    size_t pos = 0;
    unsigned rs = yieldSeed;
    while (pos < rest.size()) {
      size_t e = rest.find(" ;; ", pos);
      std::string stepTxt = rest.substr(pos, e == std::string::npos ? std::string::npos : e - pos);
      pos = e == std::string::npos ? rest.size() : e + 4;
      size_t hh = stepTxt.find(" ## ");
      std::string expected;
      if (hh != std::string::npos) { expected = stepTxt.substr(hh + 4); stepTxt = stepTxt.substr(0, hh); }
      while (!expected.empty() && expected.back() == ' ') expected.pop_back();
      if (stepTxt.find_first_not_of(' ') == std::string::npos) continue;
      std::vector<std::string> a = split(stepTxt);
      std::string watch = a.back().substr(1);
      a.pop_back();
      if (!a.empty() && a.back()[0] == '%') a.pop_back();    // generator's note (unrelated handles), not for us
      size_t callsBefore = c.spy.calls;
      std::string res = runOp(c, a);
      std::string docs;
      for (size_t i = 0; i < nd; i++) docs += (i ? "|" : "") + dump(c.docs[i]->as<JsonVariantConst>());
      if (fs == "-") {
        // the typed references' own observers, operator| and the less used is<T>/as<T> targets, on every document root and
        // on the value the operation just produced or touched
        std::string t;
        for (size_t i = 0; i < nd && t.empty(); i++) t = typedObs(c.docs[i]->as<JsonVariant>(), c.docs[i].get());
        if (t.empty() && a.size() > 1 && isdigit((unsigned char)a[1][0])) {
          size_t hi = std::stoul(a[1]);
          if (hi < c.handles.size() && hi >= nd && a[0][0] != 'd') {
            bool watched = ("," + watch + ",").find("," + a[1] + ",") != std::string::npos;
            if (watched) t = typedObs(c.handles[hi], nullptr);
          }
        }
        if (!t.empty()) docs += "!TYPED:" + t;
      }
      std::string hd;
      std::istringstream ws(watch);
      std::string tok;
      bool first = true;
      while (std::getline(ws, tok, ',')) {
        if (tok.empty()) continue;
        size_t hi = std::stoul(tok);
        if (hi >= c.handles.size()) continue;
        hd += (first ? "" : ",") + tok + "=" + dump(c.handles[hi]);
        first = false;
      }
      std::string ov;
      for (size_t i = 0; i < nd; i++) ov += c.docs[i]->overflowed() ? '1' : '0';
      out += res + "|" + docs + "|" + hd + " ~" + ov + "~" + std::to_string(callsBefore) + "~" + std::to_string(c.spy.calls) + "~" + std::to_string(c.liveBlocks());
      if (shared) {
        // const access to the shared document: copy it, and use a part of it as a filter
        JsonDocument tmp;
        tmp.set(shared->as<JsonVariantConst>());
        JsonDocument tmp2;
        JsonVariantConst fv = shared->as<JsonVariantConst>()["filter"];
        deserializeJson(tmp2, "{\"a\":[1,2,{\"b\":3.5}],\"c\":\"text\",\"d\":null}", DeserializationOption::Filter(fv));
        std::string js;
        serializeJson(tmp, js);
        out += "~S" + std::to_string(js.size()) + ":" + dump(tmp2.as<JsonVariantConst>());
        bool eq = tmp.as<JsonVariantConst>() == shared->as<JsonVariantConst>();
        if (!eq) out += "!SHAREDCOPY";
      }
      out += " ;; ";
      // under injected allocation failures: once a step's visible result departs from the failure-free expectation, the
      // generator's knowledge of which handles are still alive no longer applies (a later step could use a handle whose
      // value the diverged run has legitimately removed): stop the scripted part here, go on to the read-only pass,
      // clear() and reuse
      if (fs != "-" && !expected.empty() && res + "|" + docs + "|" + hd != expected) break;
      if (yieldSeed) { rs = rs * 1103515245u + 12345u; if ((rs >> 16) % 3 == 0) std::this_thread::yield(); }
    }
    if (fs != "-") {
      // with the failure schedule still in force: one more deep copy into every document through its root (always a valid
      // reference).  An operation that reports success must have done all of its work: the copy equals its source
      JsonDocument src;
      src["k"] = std::string("an owned string value that needs its own node");
      src["l"][0] = 1; src["l"][1] = std::string("another owned string, also copied"); src["l"][2]["m"] = 2.5;
      src["z"] = std::string("third owned string value for the copy");
      for (size_t i = 0; i < nd; i++) {
        JsonVariant root = c.docs[i]->as<JsonVariant>();
        bool ok; JsonVariantConst made;
        if (root.is<JsonArray>()) { ok = root.add(src.as<JsonVariantConst>()); JsonArrayConst a_ = root.as<JsonArrayConst>(); made = a_[a_.size() ? a_.size() - 1 : 0]; }
        else if (root.is<JsonObject>() || root.isNull()) { ok = (*c.docs[i])["\x01post"].set(src.as<JsonVariantConst>()); made = c.docs[i]->as<JsonVariantConst>()["\x01post"]; }
        else continue;
        if (ok && made != src.as<JsonVariantConst>()) out += "POST-SUCCESS-INCOMPLETE ;; ";
        if (!ok && !c.docs[i]->overflowed()) out += "POST-FAILURE-NOT-FLAGGED ;; ";
      }
    }
    // read-only operations must not call the allocator
    size_t before = c.spy.log.size();
    for (size_t i = 0; i < nd; i++) {
      std::string s; serializeJson(*c.docs[i], s); measureMsgPack(*c.docs[i]); c.docs[i]->nesting(); c.docs[i]->size();
      (void)c.docs[i]->as<JsonVariantConst>()["a"].is<int>();
    }
    if (c.spy.log.size() != before) out += "READONLY-ALLOCATES ;; ";
    c.handles.clear();
    // clear(): everything goes back to the allocator; the document then works again
    for (size_t i = 0; i < nd; i++) c.docs[i]->clear();
    out += "afterclear=" + std::to_string(c.liveBlocks()) + " ";
    c.spy.fail.clear(); c.spy.fail_from = -1;
    for (size_t i = 0; i < nd; i++) {
      (*c.docs[i])["k"] = "v";
      if ((*c.docs[i])["k"] != "v" || c.docs[i]->overflowed()) out += "NOT-REUSABLE ";
    }
    c.docs.clear();
  }
  out += "leaked=" + std::to_string(c.liveBlocks()) + (c.misuse() ? " MISUSE" : "") + " calls=" + std::to_string(c.spy.calls);
  return out;
}

#ifndef HIST_NO_MAIN
static std::string handle(const std::vector<std::string>& a0, const std::string& line) {
  if (a0[0] == "CFG") return a0[1] == cfgString() ? "cfg" : "cfg-mismatch " + cfgString();
  // HRUN <ndocs> <kind> <failspec> <history: op @watch ## expected ;; ...>
  if (a0[0] == "HRUN") {
    size_t p = line.find(' ');
    for (int k = 0; k < 3; k++) p = line.find(' ', p + 1);
    return runHistory(std::stoul(a0[1]), std::stoi(a0[2]), a0[3], line.substr(p + 1), false, nullptr, 0);
  }
  return "?";
}

int main() {
  std::ios::sync_with_stdio(false);
  std::string line;
  while (std::getline(std::cin, line)) {
    watchdog(60);   // a corrupted structure may make the library loop: report instead of hanging the check
    if (line.empty()) continue;
    std::cout << handle(split(line), line) << "\n" << std::flush;
  }
  return 0;
}
#endif
